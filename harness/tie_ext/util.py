"""Tie extension `util` — whole-function ties for utility functions (C09, C18, C16, C19, C15).

Units / groups (one per item, so that a source edit in one breaks only its properties' obligations):

  BruteWhole  (C09)  qubovert/utils/_solve_bruteforce.py: `_solve_bruteforce` as a whole function, the four
                     `solve_*_bruteforce` wrappers, and the `solve_bruteforce` methods of the four Matrix classes
  Subgraph    (C18)  qubovert/utils/_subgraph.py: `subgraph`, `subvalue` as whole functions
  Subs        (C16)  `DictArithmetic.subs` (qubovert/utils/_dict_arithmetic.py) and `PCBO.subs` (qubovert/_pcbo.py)
  InfoRT      (C19)  qubovert/utils/_info.py: `get_info`, `create_from_info` as whole functions
  (not built: `DictArithmetic.simplify` (C16) and `anneal_temperature_range` (C15))

Further rules (units Subgraph / Subs / InfoRT; primitives in the same prelude):
  subgraph    `type(G)()` -> pyNewLike; `G.items()` on the argument (keys may fail to be tuples: Option Key);
              `if not isinstance(k, tuple): raise E` -> match on the optional key; `filter(lambda x: c, k)` / `tuple(x for x in
              k if c)` -> List.filter; `x in nodes` / `x in values` -> pyUIn / pyAssocIn; `m.get(i, d)`, `m[i]` (KeyError) on a
              label dict; `D.get(k, d)`, `D[k] = v` (may raise), `D.pop(k, d)` on the container under construction;
              `np.prod(l)` -> pyProd; `[e for x in l]` with a raising `e` -> List.mapM
  subs        `def f(self, *args, **kwargs)` registered `subst=(args, kwargs)`: the starred parameters are one opaque
              substitution `_py_subst`; `v.subs(*args, **kwargs)` -> pySubs (AttributeError on a number) / the registered
              DictArithmetic.subs on a dict; `float(x)` -> pyFloatOfSubs (TypeError); several `except` clauses and `finally`
              (pyTryHandlers); `self.__class__()`, `super(self.__class__, self).subs(…)`, `d._ancilla = e`, `d._constraints = e`
  info        string literals, a tuple of string literals as a loop source, `dict(type=…, terms=…, name=…)`, `hasattr` /
              `getattr(model, attr)`, `res[attr] = v`, `info["k"]`, `"k" in info`, `info["k"] is not None`, truthiness of
              `info["num_ancillas"]`, `info.get("k", default)`, `cls(terms)`, `model.name = e`, `model._ancilla = e`,
              `model.set_mapping(e)`, `m = getattr(model, "add_constraint_%s_zero" % k)` and `m(x, lam=0)`

Meaning of the primitives: lean/Qv/Gen/PreludeUtil.lean (trusted).  Construct rules added here (class FnExt; everything
else is inherited from harness/translate.py, "one rule per construct, reject what is not understood"):

  objects     a parameter of type `BModel` is the dict-like object handed to the solver (Qv.Brute.Model); it is a *mutable
              local*: `offset = D.pop(k)` -> pyModelPop (KeyError) rebinding `D`; `D[()] = e` -> pyModelSetOffset (only the
              literal key `()`); `not D` / `D` as a condition -> pyModelEmpty; `k in D` -> pyModelHasKey; iterating `D` ->
              its keys; `D.num_binary_variables`, `D._reverse_mapping` -> pyAttr… (AttributeError); a function registered
              with `mutates=[p]` returns `(value, p)`; a call of such a function rebinds the argument (which must be a name)
  functions   a parameter of function type (`valid`, `value`) may be called; `pubo_value` … passed as a value ->
              pyValueFn; `self.is_solution_valid` -> the extra parameter `self_is_solution_valid`; positional defaults
              are compared with the registry (`defaults`)
  statements  registry `join_points=True`: the statements after a top-level `if` are rendered once, as a local function
              `_py_kN` of the locals the branches may change; each branch that falls through ends with a call of it;
              `try: S except E: H` (one handler, a builtin exception, no else/finally; S and H only assign locals, H
              re-assigns every local S assigns before reading it) -> pyTryExcept; `continue` in a `for` -> the loop goes
              on with the current locals; `s.update(t)` on a set -> pySetUpdate
  containers  `set()`, `set(k)`, `len(s)`; iterating / enumerating a set goes through the abstract iteration order
              `_py_ord : PySetOrder` (an extra parameter of the generated function: registry `set_order=True`);
              `enumerate(l)` -> pyUEnumerate; `dict(pairs)` -> pyUDictOfPairs; `d[k]` on a dict -> pyDictGetItem (KeyError);
              `{k: v for … in …}` -> pyForM … pyDictPut; `itertools.product(dom, repeat=n)` -> pyProduct;
              `{}` / `[{}]` / `{None: [{}]}` where the expected type is known (registry `typed` gives the type hint of a local)
  results     `a if c else b` of a dict and a list of dicts where a `Brute.Sol` is expected -> Sol.one / Sol.many
"""
import ast
from .. import translate as T
from ..translate import (Simple, TTuple, TOpt, TList, res, same, lean_ty, is_num, proj, mangle, Untranslatable,
                         RAT, INT, NAT, BOOL, PROP, VAR, KEY, POLY, UNIT, OPAQUE, BASSIGN, ALLSOLS, PARAM_TYPES, EXC)


class TDict(TList):
    """a builtin dict: association list in insertion order"""
    def __init__(self, k, v):
        TList.__init__(self, TTuple([k, v]))
        self.k, self.v = k, v


BMODEL = Simple("Brute.Model", "Brute.Model")
SOL = Simple("Brute.Sol", "Brute.Sol")
PSET = Simple("PySet", "(List Var)")
VALIDFN = Simple("ValidFn", "(Brute.Assign → Bool)")
VALUEFN = Simple("ValueFn", "(Brute.Assign → Poly → Except Err Rat)")

RAWCONT = Simple("PyRawCont", "PyRawCont")      # the argument G of subgraph / subvalue
CONT = Simple("PyCont", "PyCont")               # the container D = type(G)() under construction
ASSOC = Simple("Assoc", "Assoc")                # a dict label -> number
VARSET = Simple("VarSet", "(List Var)")         # a collection of labels that is only tested with `in`

PYCOEF = Simple("PyCoef", "(Sym.PyCoef R)")          # a coefficient: number or sympy expression
COEFDICT = Simple("CoefItems", "(Sym.CoefItems R)")  # a DictArithmetic with such coefficients
SUBSRES = Simple("SubsRes", "(Sym.SubsRes R)")       # what expr.subs(...) returns
SYMOBJ = Simple("SymObj", "(Sym.SymObj R)")          # a PCBO / PCSO: terms, _ancilla, _constraints
REL = Simple("Rel", "Rel")

INFO = Simple("Info", "Info")                   # an info dict (get_info / create_from_info)
MOBJ = Simple("MObj", "MObj")                   # a model object as those two functions see it
STR = Simple("String", "String")
KINDT = Simple("Kind", "Kind")                  # a qubovert class, by its kind (also: its __name__)
INFOVAL = Simple("InfoVal", "InfoVal")
METHOD = Simple("RelMethod", "Rel")             # a bound add_constraint_<rel>_zero method, by its relation

PARAM_TYPES.update({
    "Info": lambda: INFO, "MObj": lambda: MOBJ,
    "PyCoef": lambda: PYCOEF, "CoefItems": lambda: COEFDICT, "SymObj": lambda: SYMOBJ,
    "RawCont": lambda: RAWCONT, "Cont": lambda: CONT, "Assoc": lambda: ASSOC, "OptAssoc": lambda: TOpt(ASSOC),
    "VarSet": lambda: VARSET,
    "BModel": lambda: BMODEL, "Sol": lambda: SOL, "ValidFn": lambda: VALIDFN, "ValueFn": lambda: VALUEFN,
    "BruteRes": lambda: TTuple([TOpt(RAT), SOL]),
    "BruteRet": lambda: TTuple([TTuple([TOpt(RAT), SOL]), BMODEL]),
    "MethodRet": lambda: TTuple([SOL, BMODEL]),
    "BestHint": lambda: TTuple([TOpt(RAT), BASSIGN]),
})

_orig_coerce = T.coerce


def coerce(s, frm, to, node=None):
    """the translator's coercions plus the ones of this extension (types that exist only here)"""
    f, t = res(frm), res(to)
    if t is SOL and f is BASSIGN:
        return "(Brute.Sol.one %s)" % s
    if t is SOL and isinstance(f, TList) and res(f.elt) is BASSIGN:
        return "(Brute.Sol.many %s)" % s
    if f is BMODEL and t is POLY:
        return "(pyModelItems %s)" % s
    if t is PYCOEF and f is SUBSRES:
        return "(pyCoefOfSubs %s)" % s
    if t is PYCOEF and is_num(f):
        return "(Sym.PyCoef.num %s)" % _orig_coerce(s, frm, RAT, node)
    return _orig_coerce(s, frm, to, node)


T.coerce = coerce        # the base rules look `coerce` up at call time; the new cases only concern this module's types

INFO_KEYS = ("type", "terms", "name", "mapping", "num_ancillas", "constraints")
VALUE_FUNCS = {"pubo_value": "pubo", "qubo_value": "qubo", "puso_value": "puso", "quso_value": "quso"}
def cont_wrap(cont):
    return lambda env: cont(env)


MUTATING_METHODS = {"update", "append", "pop", "setdefault", "add", "clear", "set_mapping"}


class FnExt(T.Fn):
    def __init__(self, entry, module_src, fnode, done):
        T.Fn.__init__(self, entry, module_src, fnode, done)
        self.loop_conts = []

    # ------------------------------------------------------------------ helpers

    def need_dot_import(self, name, node):
        """`name` is bound at module level exactly by `from . import name`"""
        hits = 0
        for s in ast.parse(self.src).body:
            if isinstance(s, ast.ImportFrom):
                for a in s.names:
                    if (a.asname or a.name) == name:
                        hits += 1 if (s.module is None and s.level == 1 and a.asname is None) else 100
            elif isinstance(s, ast.Import):
                hits += 100 * sum(1 for a in s.names if (a.asname or a.name.split(".")[0]) == name)
            elif isinstance(s, (ast.FunctionDef, ast.ClassDef, ast.AsyncFunctionDef)):
                hits += 100 if s.name == name else 0
            else:
                hits += 100 * sum(1 for x in ast.walk(s) if isinstance(x, ast.Name) and isinstance(x.ctx, ast.Store)
                                  and x.id == name)
        if hits != 1:
            raise Untranslatable("%s is not exactly `from . import %s`" % (name, name), node)

    def builtin(self, name, env, node):
        if name in env or name in self.module_names():
            raise Untranslatable("builtin %s is rebound" % name, node)

    def mutated(self, stmts):
        """names whose object is mutated by a method call / item statement in the statements, in source order"""
        out = []
        meth = dict(getattr(self, "method_recv", {}))
        for s in stmts:         # `m = getattr(obj, …)`: calling `m` mutates `obj`
            for n in ast.walk(s):
                if isinstance(n, ast.Assign) and len(n.targets) == 1 and isinstance(n.targets[0], ast.Name) \
                        and isinstance(n.value, ast.Call) and isinstance(n.value.func, ast.Name) and n.value.func.id == "getattr" \
                        and n.value.args and isinstance(n.value.args[0], ast.Name):
                    meth[n.targets[0].id] = n.value.args[0].id
        for s in stmts:
            for n in ast.walk(s):
                x = None
                if isinstance(n, ast.Call) and isinstance(n.func, ast.Attribute) and n.func.attr in MUTATING_METHODS \
                        and isinstance(n.func.value, ast.Name):
                    x = n.func.value.id
                elif isinstance(n, (ast.Subscript, ast.Attribute)) and isinstance(n.ctx, (ast.Store, ast.Del)) \
                        and isinstance(n.value, ast.Name):
                    x = n.value.id
                if isinstance(n, ast.Call) and isinstance(n.func, ast.Name) and n.func.id in meth:
                    x = meth[n.func.id]          # a bound method mutates its object
                if x is not None and x not in out:
                    out.append(x)
        return out

    def num_seq(self, n, env):
        """a tuple / list display of numbers (or a conditional expression of such) used as an iterable of numbers"""
        if isinstance(n, ast.IfExp):
            c = self.cond(n.test, env)
            return "(if %s then %s else %s)" % (c, self.num_seq(n.body, env), self.num_seq(n.orelse, env))
        if isinstance(n, (ast.Tuple, ast.List)) and n.elts:
            parts = [self.expr(x, env) for x in n.elts]
            if all(is_num(t) for _, t in parts):
                return "[" + ", ".join(coerce(s, t, RAT, n) for s, t in parts) + "]"
        raise Untranslatable("iterable of numbers that is not a display of numbers", n)

    # ------------------------------------------------------------------ expressions

    def info_sub(self, n, env):
        """`info["key"]` with a literal key on an info dict -> (info name, key) or None"""
        if isinstance(n, ast.Subscript) and isinstance(n.value, ast.Name) and n.value.id in env \
                and res(env[n.value.id]) is INFO and isinstance(n.slice, ast.Constant) and isinstance(n.slice.value, str):
            return mangle(n.value.id), n.slice.value
        return None

    def expr(self, n, env, expected=None):
        exp = res(expected) if expected is not None else None
        if isinstance(n, ast.Constant) and isinstance(n.value, str):
            if '"' in n.value or "\\" in n.value or "\n" in n.value:
                raise Untranslatable("string literal with quotes / escapes", n)
            return '"%s"' % n.value, STR
        if isinstance(n, ast.Tuple) and n.elts and all(isinstance(x, ast.Constant) and isinstance(x.value, str) for x in n.elts):
            return "[" + ", ".join(self.expr(x, env)[0] for x in n.elts) + "]", TList(STR)
        isub = self.info_sub(n, env)
        if isub:
            info, key = isub
            if key == "type":
                return "(Info.kind %s)" % info, KINDT
            if key == "mapping":
                return self.bind("(pyInfoGetMapping %s)" % info, TDict(VAR, NAT), n)
            if key == "num_ancillas":
                return self.bind("(pyInfoGetNum %s)" % info, NAT, n)
            raise Untranslatable("info[%r]" % key, n)
        if isinstance(n, ast.Attribute) and isinstance(n.value, ast.Name) and n.value.id in env \
                and res(env[n.value.id]) is MOBJ and n.attr == "name":
            return "(MObj.name %s)" % mangle(n.value.id), TOpt(STR)
        if isinstance(n, ast.Attribute) and n.attr == "__name__" and isinstance(n.value, ast.Attribute) \
                and n.value.attr == "__class__" and isinstance(n.value.value, ast.Name) and n.value.value.id in env \
                and res(env[n.value.value.id]) is MOBJ:
            return "(MObj.kind %s)" % mangle(n.value.value.id), KINDT       # the class, by its name
        if isinstance(n, ast.Name) and n.id not in env and n.id in VALUE_FUNCS:
            self.need_dot_import(n.id, n)
            return "(pyValueFn Brute.Fn.%s)" % VALUE_FUNCS[n.id], VALUEFN
        if isinstance(n, ast.Dict) and not n.keys:
            if exp is BASSIGN:
                return "([] : Brute.Assign)", BASSIGN
            if exp is ASSOC:
                return "([] : Assoc)", ASSOC
            raise Untranslatable("empty dict display whose type is not known from the context", n)
        if isinstance(n, ast.Dict) and exp is ALLSOLS:
            items = []
            for k, v in zip(n.keys, n.values):
                if k is None:
                    raise Untranslatable("** in a dict display", n)
                sk, tk = self.expr(k, env, TOpt(RAT))
                sv, tv = self.expr(v, env, TList(BASSIGN))
                items.append("(%s, %s)" % (coerce(sk, tk, TOpt(RAT), n), coerce(sv, tv, TList(BASSIGN), n)))
            return "[" + ", ".join(items) + "]", ALLSOLS
        if isinstance(n, ast.List) and n.elts and isinstance(exp, TList) and not isinstance(exp, TDict):
            parts = [self.expr(x, env, exp.elt) for x in n.elts]
            return "[" + ", ".join(coerce(v, u, exp.elt, n) for v, u in parts) + "]", TList(exp.elt)
        if isinstance(n, ast.IfExp) and exp is SOL:
            c = self.cond(n.test, env)
            outs = []
            for br in (n.body, n.orelse):
                hint = BASSIGN if isinstance(br, ast.Dict) else TList(BASSIGN) if isinstance(br, ast.List) else None
                s, t = self.pure_only(lambda br=br, hint=hint: self.expr(br, env, hint), "a conditional expression", n)
                outs.append(coerce(s, t, SOL, n))
            return "(if %s then %s else %s)" % (c, outs[0], outs[1]), SOL
        if isinstance(n, ast.Attribute) and isinstance(n.value, ast.Name) and n.value.id in env \
                and res(env[n.value.id]) is BMODEL:
            obj = mangle(n.value.id)
            if n.attr == "num_binary_variables":
                return self.bind("(pyAttrNumBinaryVariables %s)" % obj, NAT, n)
            if n.attr == "_reverse_mapping":
                return self.bind("(pyAttrReverseMapping %s)" % obj, TDict(NAT, VAR), n)
            extra = "%s_%s" % (n.value.id, n.attr)
            if extra in env:
                return mangle(extra), env[extra]          # e.g. `self.is_solution_valid`: a parameter of the generated function
            raise Untranslatable("attribute .%s of the model object" % n.attr, n)
        if isinstance(n, ast.Attribute) and isinstance(n.value, ast.Name) and n.value.id in env \
                and res(env[n.value.id]) is SYMOBJ:
            if n.attr == "_ancilla":
                return "(Sym.SymObj.anc %s)" % mangle(n.value.id), NAT
            if n.attr == "_constraints":
                return "(Sym.SymObj.cons %s)" % mangle(n.value.id), TDict(REL, TList(COEFDICT))
            raise Untranslatable("attribute .%s of the model object" % n.attr, n)
        if isinstance(n, ast.DictComp):
            return self.dictcomp(n, env)
        if isinstance(n, ast.ListComp) and self.monadic:
            return self.listcomp_m(n, env)
        return T.Fn.expr(self, n, env, expected)

    def listcomp_m(self, n, env):
        """`[e for x in l]` where `e` may raise -> List.mapM (elements evaluated in order, the first exception wins)"""
        g = self.one_generator(n)
        src, et = self.iter_source(g.iter, env)
        lets, env2 = self.bind_target(g.target, et, "_py_it", env)
        (e, te), frame = self.framed(lambda: self.expr(n.elt, env2))
        if not frame:
            return T.Fn.comprehension(self, n, env)
        if g.ifs:
            raise Untranslatable("filtered comprehension whose element may raise", n)
        body = self.wrap(frame, "(Except.ok %s)" % e, "        ")
        return self.bind("(List.mapM (fun (_py_it : %s) => %s%s) %s)" % (lean_ty(et), lets, body, src), TList(te), n)

    def dictcomp(self, n, env):
        g = self.one_generator(n)
        if g.ifs:
            raise Untranslatable("filtered dict comprehension", n)
        src, et = self.iter_source(g.iter, env)
        lets, env2 = self.bind_target(g.target, et, "_py_it", env)
        if "_py_d" in env2:
            raise Untranslatable("nested dict comprehension", n)
        (kv, vv), frame = self.framed(lambda: (self.expr(n.key, env2), self.expr(n.value, env2)))   # key first, then value
        (k, tk), (v, tv) = kv, vv
        if res(tk) is VAR and is_num(tv):
            dty, v = BASSIGN, coerce(v, tv, RAT, n)
        else:
            dty = TDict(tk, tv)
        body = self.wrap(frame, "(Except.ok (pyDictPut _py_d %s %s))" % (k, v), "        ")
        act = "(pyForM %s ([] : %s) (fun (_py_d : %s) (_py_it : %s) =>\n        %s%s))" % (
            src, lean_ty(dty), lean_ty(dty), lean_ty(et), lets, body)
        return self.bind(act, dty, n)

    def compare(self, n, env):
        if len(n.ops) == 1 and isinstance(n.ops[0], (ast.Is, ast.IsNot)) and isinstance(n.comparators[0], ast.Constant) \
                and n.comparators[0].value is None and self.info_sub(n.left, env):
            info, key = self.info_sub(n.left, env)
            if key not in ("mapping", "num_ancillas", "constraints"):
                raise Untranslatable("info[%r] is None" % key, n)
            return '((pyInfoHas %s "%s") = %s)' % (info, key, "false" if isinstance(n.ops[0], ast.Is) else "true")
        if len(n.ops) == 1 and isinstance(n.ops[0], (ast.In, ast.NotIn)) and isinstance(n.left, ast.Constant) \
                and isinstance(n.left.value, str) and isinstance(n.comparators[0], ast.Name) and n.comparators[0].id in env \
                and res(env[n.comparators[0].id]) is INFO:
            if n.left.value not in INFO_KEYS:
                raise Untranslatable("%r in info" % n.left.value, n)
            return '((pyInfoHas %s "%s") = %s)' % (mangle(n.comparators[0].id), n.left.value,
                                                 "true" if isinstance(n.ops[0], ast.In) else "false")
        if len(n.ops) == 1 and isinstance(n.ops[0], (ast.In, ast.NotIn)):
            b, tb = self.expr(n.comparators[0], env)
            if res(tb) is BMODEL:
                a, ta = self.expr(n.left, env)
                if res(ta) is not KEY:
                    raise Untranslatable("`in` on the model object with something that is not a tuple of labels", n)
                return "((pyModelHasKey %s %s) = %s)" % (b, a, "true" if isinstance(n.ops[0], ast.In) else "false")
            if res(tb) in (VARSET, ASSOC):
                a, ta = self.expr(n.left, env)
                if res(ta) is not VAR:
                    raise Untranslatable("`in` with something that is not a label", n)
                return "((%s %s %s) = %s)" % ("pyUIn" if res(tb) is VARSET else "pyAssocIn", b, a,
                                             "true" if isinstance(n.ops[0], ast.In) else "false")
            raise Untranslatable("`in` on a %s" % lean_ty(tb), n)
        return T.Fn.compare(self, n, env)

    def truth(self, n, env, positive):
        isub = self.info_sub(n, env)
        if isub and isub[1] == "num_ancillas":
            return "((pyInfoNumTruthy %s) = %s)" % (isub[0], "true" if positive else "false")
        if isinstance(n, ast.Name) and n.id in env:
            t = res(env[n.id])
            if t is BMODEL:
                return "((pyModelEmpty %s) = %s)" % (mangle(n.id), "false" if positive else "true")
            if t is PSET:
                return "(%s %s [])" % (mangle(n.id), "≠" if positive else "=")
        return None

    def cond(self, n, env):
        return self.truth(n, env, True) or T.Fn.cond(self, n, env)

    def negation(self, n, env):
        return self.truth(n, env, False) or T.Fn.negation(self, n, env)

    def subscript(self, n, env):
        if isinstance(n.value, ast.Name) and n.value.id in env and not isinstance(n.slice, ast.Slice):
            tv = res(env[n.value.id])
            if isinstance(tv, TDict):
                i, ti = self.expr(n.slice, env)
                return self.bind("(pyDictGetItem %s %s)" % (mangle(n.value.id), coerce(i, ti, tv.k, n)), tv.v, n)
            if tv is ASSOC:
                i, ti = self.expr(n.slice, env)
                if res(ti) is not VAR:
                    raise Untranslatable("dict indexed by something that is not a label", n)
                return self.bind("(pyAssocGetItem %s %s)" % (mangle(n.value.id), i), RAT, n)
            if tv is ALLSOLS:
                i, ti = self.expr(n.slice, env)
                return self.bind("(pyDictGetItem %s %s)" % (mangle(n.value.id), coerce(i, ti, TOpt(RAT), n)),
                                 TList(BASSIGN), n)
        return T.Fn.subscript(self, n, env)

    def iter_source(self, n, env):
        if isinstance(n, ast.Call) and isinstance(n.func, ast.Attribute) and n.func.attr == "items" and not n.args \
                and not n.keywords and isinstance(n.func.value, ast.Name) and n.func.value.id in env \
                and res(env[n.func.value.id]) is RAWCONT:
            return "(pyRawItems %s)" % mangle(n.func.value.id), TTuple([TOpt(KEY), RAT])
        if isinstance(n, ast.Call) and isinstance(n.func, ast.Attribute) and n.func.attr == "items" and not n.args \
                and not n.keywords:
            v, tv = self.expr(n.func.value, env)
            if res(tv) is COEFDICT:
                return v, TTuple([KEY, PYCOEF])
            if isinstance(res(tv), TDict):
                return v, res(tv).elt
        if isinstance(n, ast.Name) and n.id in env:
            t = res(env[n.id])
            if t is BMODEL:
                return "(List.map Prod.fst (pyModelItems %s))" % mangle(n.id), KEY       # iterating a dict gives its keys
            if t is PSET:
                self.need_ord(n)
                return "(pySetIter _py_ord %s)" % mangle(n.id), VAR
        return T.Fn.iter_source(self, n, env)

    def need_ord(self, node):
        if not self.e.get("set_order"):
            raise Untranslatable("iteration over a set in a function not registered with set_order", node)

    def call(self, n, env):
        f = n.func
        if isinstance(f, ast.Name) and f.id in env and res(env[f.id]) in (VALIDFN, VALUEFN):
            if n.keywords or any(isinstance(a, ast.Starred) for a in n.args):
                raise Untranslatable("call of a function parameter with keyword / starred arguments", n)
            if res(env[f.id]) is VALIDFN and len(n.args) == 1:
                a, ta = self.expr(n.args[0], env)
                return "(%s %s)" % (mangle(f.id), coerce(a, ta, BASSIGN, n)), BOOL
            if res(env[f.id]) is VALUEFN and len(n.args) == 2:
                a, ta = self.expr(n.args[0], env)
                b, tb = self.expr(n.args[1], env)
                return self.bind("(%s %s %s)" % (mangle(f.id), coerce(a, ta, BASSIGN, n), coerce(b, tb, POLY, n)), RAT, n)
            raise Untranslatable("call of the function parameter %s with %d arguments" % (f.id, len(n.args)), n)
        if isinstance(f, ast.Attribute) and isinstance(f.value, ast.Name) and f.value.id == "itertools" \
                and f.value.id not in env and f.attr == "product":
            self.need_module_alias("itertools", "itertools", n)
            if len(n.args) != 1 or [k.arg for k in n.keywords] != ["repeat"]:
                raise Untranslatable("itertools.product other than product(dom, repeat=n)", n)
            dom = self.num_seq(n.args[0], env)
            r, tr = self.expr(n.keywords[0].value, env)
            return "(pyProduct %s %s)" % (dom, self.as_nat(r, tr, "repeat=", n)), TList(TList(RAT))
        if isinstance(f, ast.Name) and f.id == "dict" and not n.args and [k.arg for k in n.keywords] == ["type", "terms", "name"]:
            self.builtin("dict", env, n)
            vals = [self.expr(k.value, env) for k in n.keywords]
            if res(vals[0][1]) is KINDT and res(vals[1][1]) is POLY and same(vals[2][1], TOpt(STR)):
                return "(pyInfoNew %s %s %s)" % (vals[0][0], vals[1][0], vals[2][0]), INFO
            raise Untranslatable("dict(type=…, terms=…, name=…) with these value types", n)
        if isinstance(f, ast.Name) and f.id == "dict" and len(n.args) == 1 and not n.keywords and isinstance(n.args[0], ast.Name) \
                and n.args[0].id in env and res(env[n.args[0].id]) is MOBJ:
            self.builtin("dict", env, n)
            return "(MObj.terms %s)" % mangle(n.args[0].id), POLY             # dict(model): its terms
        if isinstance(f, ast.Name) and f.id in ("hasattr", "getattr") and len(n.args) == 2 and not n.keywords:
            self.builtin(f.id, env, n)
            o, a = n.args
            if isinstance(o, ast.Name) and o.id in env and res(env[o.id]) is MOBJ:
                sa, ta = self.expr(a, env)
                if res(ta) is not STR:
                    raise Untranslatable("%s with a non-string attribute name" % f.id, n)
                if f.id == "hasattr":
                    return "(pyHasAttr %s %s)" % (mangle(o.id), sa), BOOL
                return "(pyGetAttr %s %s)" % (mangle(o.id), sa), INFOVAL
            # getattr(qv.utils, t) / getattr(qv, t) / hasattr(qv.utils, t): the class named t
            mod = o.value if isinstance(o, ast.Attribute) and o.attr == "utils" else o
            if isinstance(mod, ast.Name) and mod.id == "qv" and mod.id not in env:
                self.need_module_alias("qubovert", "qv", n)
                sa, ta = self.expr(a, env)
                if res(ta) is not KINDT:
                    raise Untranslatable("%s(qv…, x) with x not a class name" % f.id, n)
                if f.id == "hasattr":
                    return "(Kind.isMatrix %s)" % sa, BOOL            # qubovert.utils holds the Matrix classes
                return sa, KINDT
            raise Untranslatable("%s with these arguments" % f.id, n)
        if isinstance(f, ast.Name) and f.id in env and res(env[f.id]) is KINDT and len(n.args) == 1 and not n.keywords:
            a, ta = self.expr(n.args[0], env)
            return self.bind("(pyUConstruct %s %s)" % (mangle(f.id), coerce(a, ta, POLY, n)), MOBJ, n)     # cls(terms)
        if isinstance(f, ast.Attribute) and f.attr == "get" and len(n.args) == 2 and not n.keywords \
                and isinstance(f.value, ast.Name) and f.value.id in env and res(env[f.value.id]) is INFO \
                and isinstance(n.args[0], ast.Constant):
            key, dflt = n.args[0].value, n.args[1]
            info = mangle(f.value.id)
            if key == "terms" and isinstance(dflt, ast.Dict) and not dflt.keys:
                return "(Info.terms %s)" % info, POLY
            if key == "name" and isinstance(dflt, ast.Constant) and dflt.value is None:
                return "(Info.name %s)" % info, TOpt(STR)
            if key == "constraints" and isinstance(dflt, ast.Dict) and not dflt.keys:
                return "(pyInfoConstraintItems %s)" % info, TDict(REL, TList(POLY))
            raise Untranslatable("info.get(%r, …)" % (key,), n)
        if isinstance(f, ast.Attribute) and f.attr == "subs" and self.e.get("subst"):
            va, kw = self.e["subst"]
            if not (len(n.args) == 1 and isinstance(n.args[0], ast.Starred) and isinstance(n.args[0].value, ast.Name)
                    and n.args[0].value.id == va and len(n.keywords) == 1 and n.keywords[0].arg is None
                    and isinstance(n.keywords[0].value, ast.Name) and n.keywords[0].value.id == kw):
                raise Untranslatable(".subs called with other than (*%s, **%s)" % (va, kw), n)
            recv = f.value
            if isinstance(recv, ast.Call) and isinstance(recv.func, ast.Name) and recv.func.id == "super":
                # super(self.__class__, self).subs(…): DictArithmetic.subs applied to this object
                self.builtin("super", env, n)
                a = recv.args
                if not (len(a) == 2 and not recv.keywords and isinstance(a[1], ast.Name) and a[1].id in env
                        and res(env[a[1].id]) is SYMOBJ and isinstance(a[0], ast.Attribute) and a[0].attr == "__class__"
                        and isinstance(a[0].value, ast.Name) and a[0].value.id == a[1].id):
                    raise Untranslatable("super(…) other than super(self.__class__, self)", n)
                callee = self.done.get("DictArithmetic.subs")
                if callee is None or callee["status"] != "translated":
                    raise Untranslatable("DictArithmetic.subs is not translated", n)
                m, _ = self.bind("(%s (Sym.SymObj.terms %s) _py_subst)" % (callee["lean"], mangle(a[1].id)), COEFDICT, n)
                return "(pyObjOfSubs %s)" % m, SYMOBJ
            r, tr = self.expr(recv, env)
            if res(tr) is PYCOEF:
                return self.bind("(pySubs _py_subst %s)" % r, SUBSRES, n)
            if res(tr) is COEFDICT:
                callee = self.done.get("DictArithmetic.subs")
                if callee is None or callee["status"] != "translated":
                    raise Untranslatable("DictArithmetic.subs is not translated", n)
                return self.bind("(%s %s _py_subst)" % (callee["lean"], r), COEFDICT, n)
            raise Untranslatable(".subs of a %s" % lean_ty(tr), n)
        if isinstance(f, ast.Name) and f.id == "float" and len(n.args) == 1 and not n.keywords:
            a, ta = self.expr(n.args[0], env)
            if res(ta) is SUBSRES:
                self.builtin("float", env, n)
                return self.bind("(pyFloatOfSubs %s)" % a, RAT, n)
            raise Untranslatable("float() of a %s" % lean_ty(ta), n)
        if isinstance(f, ast.Attribute) and f.attr == "__class__" and isinstance(f.value, ast.Name) and f.value.id in env \
                and res(env[f.value.id]) is COEFDICT and not n.args and not n.keywords:
            return "(pyNewSame %s)" % mangle(f.value.id), COEFDICT           # self.__class__()
        if isinstance(f, ast.Call) and isinstance(f.func, ast.Name) and f.func.id == "type" and len(f.args) == 1 \
                and not f.keywords and not n.args and not n.keywords:
            self.builtin("type", env, n)
            a, ta = self.expr(f.args[0], env)
            if res(ta) is RAWCONT:
                return "(pyNewLike %s)" % a, CONT                    # type(G)()
            raise Untranslatable("type(x)() of a %s" % lean_ty(ta), n)
        if isinstance(f, ast.Attribute) and f.attr == "get" and len(n.args) == 2 and not n.keywords \
                and isinstance(f.value, ast.Name) and f.value.id in env and res(env[f.value.id]) in (CONT, ASSOC):
            k, tk = self.expr(n.args[0], env)
            d, td = self.expr(n.args[1], env)
            if res(env[f.value.id]) is CONT and res(tk) is KEY:
                return "(pyContGet %s %s %s)" % (mangle(f.value.id), k, coerce(d, td, RAT, n)), RAT
            if res(env[f.value.id]) is ASSOC and res(tk) is VAR:
                return "(pyAssocGet %s %s %s)" % (mangle(f.value.id), k, coerce(d, td, RAT, n)), RAT
            raise Untranslatable(".get with a key of type %s" % lean_ty(tk), n)
        if isinstance(f, ast.Attribute) and isinstance(f.value, ast.Name) and f.value.id == "np" and f.value.id not in env \
                and f.attr == "prod" and len(n.args) == 1 and not n.keywords:
            self.need_module_alias("numpy", "np", n)
            l, tl = self.list_like(n.args[0], env)
            if isinstance(res(tl), TList) and is_num(res(tl).elt):
                if res(res(tl).elt) is not RAT:
                    raise Untranslatable("np.prod of a list of ints", n)
                return "(pyProd %s)" % l, RAT
            raise Untranslatable("np.prod of a %s" % lean_ty(tl), n)
        if isinstance(f, ast.Name) and f.id == "filter" and len(n.args) == 2 and not n.keywords \
                and isinstance(n.args[0], ast.Lambda):
            self.builtin("filter", env, n)
            lam = n.args[0]
            a = lam.args
            if len(a.args) != 1 or a.vararg or a.kwarg or a.kwonlyargs or a.defaults or a.posonlyargs:
                raise Untranslatable("lambda with other than one plain parameter", lam)
            src, ts = self.expr(n.args[1], env)
            if res(ts) is not KEY:
                raise Untranslatable("filter over a %s" % lean_ty(ts), n)
            env2 = dict(env)
            env2[a.args[0].arg] = VAR
            c = self.pure_only(lambda: self.cond(lam.body, env2), "a lambda", lam)
            return "(List.filter (fun (%s : Var) => decide %s) %s)" % (mangle(a.args[0].arg), c, src), KEY
        if isinstance(f, ast.Name) and f.id == "tuple" and len(n.args) == 1 and not n.keywords \
                and isinstance(n.args[0], ast.GeneratorExp):
            # tuple(x for x in k if c) over a key: the labels of k that satisfy c, in order
            g = self.one_generator(n.args[0])
            src, ts = self.expr(g.iter, env)
            if res(ts) is KEY and isinstance(g.target, ast.Name) and isinstance(n.args[0].elt, ast.Name) \
                    and n.args[0].elt.id == g.target.id and g.target.id not in env:
                self.builtin("tuple", env, n)
                env2 = dict(env)
                env2[g.target.id] = VAR
                cs = [self.pure_only(lambda i=i: self.cond(i, env2), "a generator expression", n) for i in g.ifs]
                if not cs:
                    return src, KEY
                return "(List.filter (fun (%s : Var) => decide %s) %s)" % (mangle(g.target.id), " ∧ ".join(cs), src), KEY
            raise Untranslatable("tuple() of this generator expression", n)
        if isinstance(f, ast.Name) and f.id == "tuple" and len(n.args) == 1 and not n.keywords:
            a, ta = self.expr(n.args[0], env)
            if res(ta) is KEY:
                self.builtin("tuple", env, n)
                return a, KEY                                        # tuple(it) of labels: the same sequence
            return T.Fn.call(self, n, env)
        if isinstance(f, ast.Name) and not n.keywords:
            name, args = f.id, n.args
            if name == "set" and len(args) == 0:
                self.builtin(name, env, n)
                return "pySetEmpty", PSET
            if name == "set" and len(args) == 1:
                a, ta = self.expr(args[0], env)
                if res(ta) is KEY:
                    self.builtin(name, env, n)
                    return "(pySetOfList %s)" % a, PSET
                return T.Fn.call(self, n, env)
            if name == "len" and len(args) == 1 and isinstance(args[0], ast.Name) and args[0].id in env \
                    and res(env[args[0].id]) is PSET:
                self.builtin(name, env, n)
                return "(pySetLen %s)" % mangle(args[0].id), NAT
            if name == "enumerate" and len(args) == 1:
                self.builtin(name, env, n)
                if isinstance(args[0], ast.Name) and args[0].id in env and res(env[args[0].id]) is PSET:
                    self.need_ord(n)
                    return "(pyUEnumerate (pySetIter _py_ord %s))" % mangle(args[0].id), TList(TTuple([NAT, VAR]))
                a, ta = self.expr(args[0], env)
                if isinstance(res(ta), TList) and not isinstance(res(ta), TDict):
                    return "(pyUEnumerate %s)" % a, TList(TTuple([NAT, res(ta).elt]))
                raise Untranslatable("enumerate of a %s" % lean_ty(ta), n)
            if name == "dict" and len(args) == 1:
                self.builtin(name, env, n)
                a, ta = self.expr(args[0], env)
                ta = res(ta)
                if isinstance(ta, TList) and isinstance(res(ta.elt), TTuple) and len(res(ta.elt).elts) == 2:
                    k, v = res(ta.elt).elts
                    return "(pyUDictOfPairs %s)" % a, TDict(k, v)
                raise Untranslatable("dict() of a %s" % lean_ty(ta), n)
        return T.Fn.call(self, n, env)

    def call_registered(self, name, n, env):
        callee = self.done[name]
        ce = ENTRY_BY_LEAN.get(callee.get("lean"))
        if ce is None or not (ce.get("set_order") or ce.get("mutates")):
            return T.Fn.call_registered(self, name, n, env)
        if callee["status"] != "translated":
            raise Untranslatable("call of %s, which is itself %s" % (name, callee["status"]), n)
        if not self.monadic:
            raise Untranslatable("call of a function that may raise", n)
        tree = ast.parse(self.src)
        defined = any(isinstance(s, ast.FunctionDef) and s.name == name for s in tree.body)
        imported = any(isinstance(s, ast.ImportFrom) and any(a.name == name and a.asname is None for a in s.names)
                       for s in tree.body)
        if defined == imported:
            raise Untranslatable("cannot resolve %s to the registered function" % name, n)
        if defined and callee["file"] != self.e["file"]:
            raise Untranslatable("%s is a different function in this module" % name, n)
        if n.keywords:
            raise Untranslatable("keyword arguments", n)
        args = self.pass_args(name, n, env, callee["param_tys"], False)
        if ce.get("set_order"):
            self.need_ord(n)
            args.append("_py_ord")
        m, ty = self.bind("(%s %s)" % (callee["lean"], " ".join(args)), callee["ret_ty"], n)
        if not ce.get("mutates"):
            return m, ty
        (p,) = ce["mutates"]
        idx = [q for q, _ in ce["params"]].index(p)
        arg = n.args[idx]
        if not (isinstance(arg, ast.Name) and arg.id in env and res(env[arg.id]) is BMODEL):
            raise Untranslatable("the object %s mutates is not passed as a plain name" % name, n)
        # after the call the caller's object is the one the callee left
        self.pend[-1].append((mangle(arg.id), BMODEL, "(Except.ok %s.2 : Except Err Brute.Model)" % m))
        return m + ".1", res(ty).elts[0]

    # ------------------------------------------------------------------ statements

    def ret(self, s, env):
        mut = self.e.get("mutates")
        if not mut:
            return T.Fn.ret(self, s, env)
        if s.value is None or self.ret_ty is None:
            raise Untranslatable("bare return / undeclared return type in a function that mutates its argument", s)
        inner = res(self.ret_ty).elts[0]
        v, t = self.expr(s.value, env, inner)
        v = coerce(v, t, inner, s)
        self.ret_seen.append(self.ret_ty)
        return "(%s, %s)" % (v, mangle(mut[0]))

    def assign(self, target, value, env, cont, pad, node):
        if isinstance(target, ast.Name) and target.id in self.e.get("typed", {}):
            hint = PARAM_TYPES[self.e["typed"][target.id]]()
            v, t = self.expr(value, env, hint)
            if res(t) is PROP:
                v, t = coerce(v, PROP, BOOL), BOOL
            env2 = dict(env)
            env2[target.id] = t
            return "let %s : %s := %s;\n%s%s" % (mangle(target.id), lean_ty(t), v, pad, cont(env2))
        return T.Fn.assign(self, target, value, env, cont, pad, node)

    def stmt(self, stmts, env, k, ind, flow):
        s, rest = stmts[0], stmts[1:]
        pad = " " * ind

        def cont(env2):
            return self.block(rest, env2, k, ind, flow)

        if isinstance(s, ast.Continue):
            if rest:
                raise Untranslatable("statement after continue", rest[0])
            if not self.loop_conts:
                raise Untranslatable("continue outside a translated loop", s)
            return self.loop_conts[-1](env)
        if isinstance(s, ast.Try):
            return self.try_(s, env, cont, ind)
        if isinstance(s, ast.If) and rest and self.e.get("join_points") and flow is None and not self.loop_conts \
                and self.ret_ty is not None:
            # the statements after the `if` are rendered ONCE, as a local function of the locals the branches may
            # change (a join point); each branch that falls through ends with a call of it
            names = []
            for x in self.assigned([s]) + self.mutated([s]):
                if x in env and res(env[x]) is not OPAQUE and x not in names:
                    names.append(x)
            tys = [env[x] for x in names]
            self.njoin = getattr(self, "njoin", 0) + 1
            kname = "_py_k%d" % self.njoin
            body_k = self.block(rest, env, k, ind + 4, flow)
            rty = lean_ty(self.ret_ty, False)
            if self.raises:
                rty = "Except Err %s" % rty
            fty = " → ".join([lean_ty(t, False) for t in tys] + [rty]) if names else "Unit → " + rty
            binders = " ".join("(%s : %s)" % (mangle(x), lean_ty(t)) for x, t in zip(names, tys)) if names else "(_ : Unit)"

            def join(env2):
                if not names:
                    return "(%s ())" % kname
                return "(%s %s)" % (kname, " ".join(coerce(mangle(x), env2[x], t, s) for x, t in zip(names, tys)))

            saved, nb = [list(fr) for fr in self.pend], self.nbind
            try:
                text_if = self.if_(s.test, s.body, s.orelse, env, join, ind, flow, s)
                return "let %s : %s := fun %s =>\n%s    %s;\n%s%s" % (kname, fty, binders, pad, body_k, pad, text_if)
            except Untranslatable:
                # a branch leaves a local with another type (e.g. `best = best[0], all_sols[best[0]]`): no join point,
                # the continuation is rendered in each branch (the base rule)
                self.pend[:] = saved
                self.nbind = nb
        # offset = D.pop(k)
        if isinstance(s, ast.Assign) and len(s.targets) == 1 and isinstance(s.targets[0], ast.Name) \
                and isinstance(s.value, ast.Call) and isinstance(s.value.func, ast.Attribute) and s.value.func.attr == "pop" \
                and isinstance(s.value.func.value, ast.Name) and s.value.func.value.id in env \
                and res(env[s.value.func.value.id]) is BMODEL:
            c = s.value
            if len(c.args) != 1 or c.keywords:
                raise Untranslatable("pop on the model object with a default", s)
            d = c.func.value.id
            key, tk = self.expr(c.args[0], env)
            if res(tk) is not KEY:
                raise Untranslatable("pop on the model object with a key that is not a tuple of labels", s)
            m, _ = self.bind("(pyModelPop %s %s)" % (mangle(d), key), TTuple([RAT, BMODEL]), s)
            env2 = dict(env)
            env2[s.targets[0].id] = RAT
            return "let %s : Rat := %s.1;\n%slet %s : Brute.Model := %s.2;\n%s%s" % (
                mangle(s.targets[0].id), m, pad, mangle(d), m, pad, cont(env2))
        # D[()] = e
        if isinstance(s, ast.Assign) and len(s.targets) == 1 and isinstance(s.targets[0], ast.Subscript) \
                and isinstance(s.targets[0].value, ast.Name) and s.targets[0].value.id in env \
                and res(env[s.targets[0].value.id]) is BMODEL:
            t0 = s.targets[0]
            if not (isinstance(t0.slice, ast.Tuple) and not t0.slice.elts):
                raise Untranslatable("item assignment on the model object with a key other than ()", s)
            v, tv = self.expr(s.value, env)
            d = mangle(t0.value.id)
            return "let %s : Brute.Model := (pyModelSetOffset %s %s);\n%s%s" % (d, d, coerce(v, tv, RAT, s), pad, cont(env))
        # if not isinstance(k, tuple): raise E     (k: a key that may fail to be a tuple)
        if isinstance(s, ast.If) and not s.orelse and len(s.body) == 1 and isinstance(s.body[0], ast.Raise) \
                and isinstance(s.test, ast.UnaryOp) and isinstance(s.test.op, ast.Not) and isinstance(s.test.operand, ast.Call) \
                and isinstance(s.test.operand.func, ast.Name) and s.test.operand.func.id == "isinstance" \
                and len(s.test.operand.args) == 2 and isinstance(s.test.operand.args[0], ast.Name) \
                and isinstance(s.test.operand.args[1], ast.Name) and s.test.operand.args[1].id == "tuple" \
                and s.test.operand.args[0].id in env and isinstance(res(env[s.test.operand.args[0].id]), TOpt) \
                and res(res(env[s.test.operand.args[0].id]).elt) is KEY:
            self.builtin("isinstance", env, s)
            self.builtin("tuple", env, s)
            x = s.test.operand.args[0].id
            r = s.body[0]
            name = r.exc.func.id if isinstance(r.exc, ast.Call) and isinstance(r.exc.func, ast.Name) else \
                r.exc.id if isinstance(r.exc, ast.Name) else None
            if name not in EXC or r.cause is not None or name in self.module_names():
                raise Untranslatable("raise of something that is not a builtin exception of the model's enum", r)
            env2 = dict(env)
            env2[x] = KEY
            return "(match %s with\n%s| none => (Except.error %s)\n%s| some _py_some =>\n%s    let %s : Key := _py_some;\n%s    %s)" % (
                mangle(x), pad, EXC[name], pad, pad, mangle(x), pad, self.block(rest, env2, k, ind + 4, flow))
        # D[key] = e   on the container under construction
        if isinstance(s, ast.Assign) and len(s.targets) == 1 and isinstance(s.targets[0], ast.Subscript) \
                and isinstance(s.targets[0].value, ast.Name) and s.targets[0].value.id in env \
                and res(env[s.targets[0].value.id]) is CONT:
            t0 = s.targets[0]
            key, tk = self.expr(t0.slice, env)
            if res(tk) is not KEY:
                raise Untranslatable("item assignment with a key that is not a tuple of labels", s)
            v, tv = self.expr(s.value, env)
            d = mangle(t0.value.id)
            m, _ = self.bind("(pyContSetItem %s %s %s)" % (d, key, coerce(v, tv, RAT, s)), CONT, s)
            return "let %s : PyCont := %s;\n%s%s" % (d, m, pad, cont(env))
        # D.pop(key, d)   as a statement
        if isinstance(s, ast.Expr) and isinstance(s.value, ast.Call) and isinstance(s.value.func, ast.Attribute) \
                and s.value.func.attr == "pop" and isinstance(s.value.func.value, ast.Name) \
                and s.value.func.value.id in env and res(env[s.value.func.value.id]) is CONT:
            c = s.value
            if len(c.args) != 2 or c.keywords:
                raise Untranslatable("pop on the container without a default", s)
            key, tk = self.expr(c.args[0], env)
            if res(tk) is not KEY:
                raise Untranslatable("pop with a key that is not a tuple of labels", s)
            self.pure_only(lambda: self.expr(c.args[1], env), "the default of pop", s)
            d = mangle(c.func.value.id)
            return "let %s : PyCont := (pyContPopDefault %s %s);\n%s%s" % (d, d, key, pad, cont(env))
        # res[attr] = value   on an info dict
        if isinstance(s, ast.Assign) and len(s.targets) == 1 and isinstance(s.targets[0], ast.Subscript) \
                and isinstance(s.targets[0].value, ast.Name) and s.targets[0].value.id in env \
                and res(env[s.targets[0].value.id]) is INFO:
            t0 = s.targets[0]
            key, tk = self.expr(t0.slice, env)
            v, tv = self.expr(s.value, env)
            if res(tk) is not STR or res(tv) is not INFOVAL:
                raise Untranslatable("info[…] = … with these types", s)
            d = mangle(t0.value.id)
            return "let %s : Info := (pyInfoSetItem %s %s %s);\n%s%s" % (d, d, key, v, pad, cont(env))
        # model.name = e / model._ancilla = e
        if isinstance(s, ast.Assign) and len(s.targets) == 1 and isinstance(s.targets[0], ast.Attribute) \
                and isinstance(s.targets[0].value, ast.Name) and s.targets[0].value.id in env \
                and res(env[s.targets[0].value.id]) is MOBJ and s.targets[0].attr in ("name", "_ancilla"):
            t0 = s.targets[0]
            d = mangle(t0.value.id)
            v, tv = self.expr(s.value, env, TOpt(STR) if t0.attr == "name" else None)
            if t0.attr == "name":
                return "let %s : MObj := { %s with name := %s };\n%s%s" % (d, d, coerce(v, tv, TOpt(STR), s), pad, cont(env))
            return "let %s : MObj := { %s with anc := %s };\n%s%s" % (d, d, coerce(v, tv, NAT, s), pad, cont(env))
        # model.set_mapping(mp)
        if isinstance(s, ast.Expr) and isinstance(s.value, ast.Call) and isinstance(s.value.func, ast.Attribute) \
                and s.value.func.attr == "set_mapping" and isinstance(s.value.func.value, ast.Name) \
                and s.value.func.value.id in env and res(env[s.value.func.value.id]) is MOBJ \
                and len(s.value.args) == 1 and not s.value.keywords:
            d = mangle(s.value.func.value.id)
            a, ta = self.expr(s.value.args[0], env)
            if not same(ta, TDict(VAR, NAT)):
                raise Untranslatable("set_mapping of a %s" % lean_ty(ta), s)
            m, _ = self.bind("(pySetMapping %s %s)" % (d, a), MOBJ, s)
            return "let %s : MObj := %s;\n%s%s" % (d, m, pad, cont(env))
        # method = getattr(model, "add_constraint_%s_zero" % k)
        if isinstance(s, ast.Assign) and len(s.targets) == 1 and isinstance(s.targets[0], ast.Name) \
                and isinstance(s.value, ast.Call) and isinstance(s.value.func, ast.Name) and s.value.func.id == "getattr" \
                and len(s.value.args) == 2 and isinstance(s.value.args[0], ast.Name) and s.value.args[0].id in env \
                and res(env[s.value.args[0].id]) is MOBJ and isinstance(s.value.args[1], ast.BinOp):
            self.builtin("getattr", env, s)
            b = s.value.args[1]
            if not (isinstance(b.op, ast.Mod) and isinstance(b.left, ast.Constant) and b.left.value == "add_constraint_%s_zero"
                    and isinstance(b.right, ast.Name) and b.right.id in env and res(env[b.right.id]) is REL):
                raise Untranslatable("getattr(model, …) other than 'add_constraint_%s_zero' % relation", s)
            obj = s.value.args[0].id
            m, _ = self.bind("(pyGetConstraintMethod %s %s)" % (mangle(obj), mangle(b.right.id)), METHOD, s)
            env2 = dict(env)
            env2[s.targets[0].id] = METHOD
            self.method_recv = dict(getattr(self, "method_recv", {}))
            self.method_recv[s.targets[0].id] = obj
            return "let %s : Rel := %s;\n%s%s" % (mangle(s.targets[0].id), m, pad, cont(env2))
        # method(x, lam=0)
        if isinstance(s, ast.Expr) and isinstance(s.value, ast.Call) and isinstance(s.value.func, ast.Name) \
                and s.value.func.id in env and res(env[s.value.func.id]) is METHOD:
            c = s.value
            obj = getattr(self, "method_recv", {}).get(c.func.id)
            if obj is None or obj not in env or res(env[obj]) is not MOBJ:
                raise Untranslatable("call of a bound method whose object is not known", s)
            if not (len(c.args) == 1 and len(c.keywords) == 1 and c.keywords[0].arg == "lam"
                    and isinstance(c.keywords[0].value, ast.Constant) and c.keywords[0].value.value == 0
                    and not isinstance(c.keywords[0].value.value, bool)):
                raise Untranslatable("constraint method called with other than (x, lam=0)", s)
            a, ta = self.expr(c.args[0], env)
            m, _ = self.bind("(pyAddConstraintLam0 %s %s %s)" % (mangle(obj), mangle(c.func.id), coerce(a, ta, POLY, s)), MOBJ, s)
            return "let %s : MObj := %s;\n%s%s" % (mangle(obj), m, pad, cont(env))
        # d[k] = val   on a DictArithmetic with number-or-expression coefficients
        if isinstance(s, ast.Assign) and len(s.targets) == 1 and isinstance(s.targets[0], ast.Subscript) \
                and isinstance(s.targets[0].value, ast.Name) and s.targets[0].value.id in env \
                and res(env[s.targets[0].value.id]) is COEFDICT:
            t0 = s.targets[0]
            key, tk = self.expr(t0.slice, env)
            if res(tk) is not KEY:
                raise Untranslatable("item assignment with a key that is not a tuple of labels", s)
            v, tv = self.expr(s.value, env)
            d = mangle(t0.value.id)
            return "let %s : Sym.CoefItems R := (pyCoefSetItem %s %s %s);\n%s%s" % (d, d, key, coerce(v, tv, PYCOEF, s), pad, cont(env))
        # d._ancilla = e / d._constraints = e
        if isinstance(s, ast.Assign) and len(s.targets) == 1 and isinstance(s.targets[0], ast.Attribute) \
                and isinstance(s.targets[0].value, ast.Name) and s.targets[0].value.id in env \
                and res(env[s.targets[0].value.id]) is SYMOBJ and s.targets[0].attr in ("_ancilla", "_constraints"):
            t0 = s.targets[0]
            d = mangle(t0.value.id)
            if t0.attr == "_ancilla":
                v, tv = self.expr(s.value, env)
                return "let %s : Sym.SymObj R := { %s with anc := %s };\n%s%s" % (d, d, coerce(v, tv, NAT, s), pad, cont(env))
            v, tv = self.expr(s.value, env)
            want = TDict(REL, TList(COEFDICT))
            if not (isinstance(res(tv), TDict) and same(res(tv).elt, want.elt)):
                raise Untranslatable("_constraints assigned a %s" % lean_ty(tv), s)
            return "let %s : Sym.SymObj R := { %s with cons := %s };\n%s%s" % (d, d, v, pad, cont(env))
        # var.update(t)
        if isinstance(s, ast.Expr) and isinstance(s.value, ast.Call) and isinstance(s.value.func, ast.Attribute) \
                and s.value.func.attr == "update" and isinstance(s.value.func.value, ast.Name) \
                and s.value.func.value.id in env and res(env[s.value.func.value.id]) is PSET:
            c = s.value
            if len(c.args) != 1 or c.keywords:
                raise Untranslatable("set.update with other than one argument", s)
            a, ta = self.expr(c.args[0], env)
            if res(ta) is not PSET:
                raise Untranslatable("set.update with a %s" % lean_ty(ta), s)
            x = mangle(c.func.value.id)
            return "let %s : List Var := (pySetUpdate %s %s);\n%s%s" % (x, x, a, pad, cont(env))
        return T.Fn.stmt(self, stmts, env, k, ind, flow)

    def try_(self, s, env, cont, ind):
        """`try: S except E1: H1 [except E2: H2 …] [finally: F]`.  S and the H only assign locals (each H re-assigns every
        local S assigns before reading it).  F is rendered as the statements that follow on normal completion (when an
        exception propagates, Python would run F first and then propagate; the generated function propagates directly)."""
        pad = " " * ind
        if not s.handlers or s.orelse:
            raise Untranslatable("try without except clause / with else", s)
        for h in s.handlers:
            if not (isinstance(h.type, ast.Name) and h.type.id in EXC and h.name is None) or h.type.id in self.module_names():
                raise Untranslatable("except clause that is not a plain builtin exception of the model's enum", s)
        if len({h.type.id for h in s.handlers}) != len(s.handlers):
            raise Untranslatable("two except clauses for the same exception", s)
        for part in [s.body] + [h.body for h in s.handlers]:
            for b in part:
                for x in ast.walk(b):
                    if isinstance(x, (ast.Return, ast.Continue, ast.Break, ast.Raise, ast.Try)):
                        raise Untranslatable("%s inside try / except" % type(x).__name__, x)
        names = self.assigned(s.body)
        if self.mutated(s.body) or not names:
            raise Untranslatable("try body that mutates an object or assigns nothing", s)
        for h in s.handlers:
            outer_mut = [x for x in self.mutated(h.body) if x in env]
            if outer_mut:
                raise Untranslatable("except body that mutates %s" % outer_mut, s)
            # the handler re-assigns every local of the try body before reading it (so what the body did before it
            # raised is not observable)
            for x in names:
                seen = False
                for b in h.body:
                    if isinstance(b, ast.Assign) and len(b.targets) == 1 and isinstance(b.targets[0], ast.Name) \
                            and b.targets[0].id == x and not any(isinstance(y, ast.Name) and y.id == x for y in ast.walk(b.value)):
                        seen = True
                        break
                    if any(isinstance(y, ast.Name) and y.id == x for y in ast.walk(b)):
                        break
                if not seen:
                    raise Untranslatable("except body does not re-assign %s before reading it" % x, s)
        typed = self.e.get("typed", {})
        tys = [PARAM_TYPES[typed[x]]() if x in typed else None for x in names]

        def k_body(env2):
            for i, x in enumerate(names):
                if tys[i] is None:
                    tys[i] = env2[x]
            return "(Except.ok (%s))" % ", ".join(coerce(mangle(x), env2[x], t, s) for x, t in zip(names, tys))

        body = self.block(s.body, env, k_body, ind + 4, None)
        handlers = [(EXC[h.type.id], self.block(h.body, env, k_body, ind + 4, None)) for h in s.handlers]
        tup = TTuple(tys) if len(tys) > 1 else tys[0]
        env2 = dict(env)
        lets = ""
        for i, (x, t) in enumerate(zip(names, tys)):
            env2[x] = t
            lets += "let %s : %s := %s;\n%s" % (mangle(x), lean_ty(t), proj("_py_try", i, len(names)), pad)
        after = (lambda e3: self.block(list(s.finalbody), e3, cont_wrap(cont), ind, None)) if s.finalbody else cont
        if len(handlers) == 1:
            head = "(pyTryExcept\n%s    (%s)\n%s    %s\n%s    (%s))" % (pad, body, pad, handlers[0][0], pad, handlers[0][1])
        else:
            hs = (",\n%s     " % pad).join("(%s, (%s))" % (e, h) for e, h in handlers)
            head = "(pyTryHandlers\n%s    (%s)\n%s    [%s])" % (pad, body, pad, hs)
        return "(%s >>= fun (_py_try : %s) =>\n%s%s%s)" % (head, lean_ty(tup), pad, lets, after(env2))

    def for_(self, s, env, cont, ind, flow):
        if not self.monadic:
            return T.Fn.for_(self, s, env, cont, ind, flow)
        if s.orelse or flow:
            raise Untranslatable("for ... else / nested in a loop with return", s)
        if any(isinstance(n, (ast.Return, ast.Break)) for b in s.body for n in ast.walk(b)):
            raise Untranslatable("return / break inside a loop", s)
        pad = " " * ind
        src, et = self.iter_source(s.iter, env)
        targets = [n.id for n in ast.walk(s.target) if isinstance(n, ast.Name)]
        for x in targets:
            if x in env:
                raise Untranslatable("loop target %s shadows a local" % x, s)
        names = []
        for x in self.assigned(s.body) + self.mutated(s.body):
            if x not in targets and x not in names:
                names.append(x)
        accs = [x for x in names if x in env and res(env[x]) is not OPAQUE]
        acc_tys = [env[x] for x in accs]
        acc_ty = TTuple(acc_tys) if len(accs) > 1 else (acc_tys[0] if accs else UNIT)
        init = "(" + ", ".join(mangle(x) for x in accs) + ")" if accs else "()"
        unpack = "".join("let %s : %s := %s; " % (mangle(x), lean_ty(t), proj("_py_acc", i, len(accs)))
                         for i, (x, t) in enumerate(zip(accs, acc_tys)))
        lets, env_body = self.bind_target(s.target, et, "_py_it", env)

        def after_body(env2):       # end of the body, or `continue`: the locals the loop carries on
            vals = [coerce(mangle(x), env2[x], t, s) for x, t in zip(accs, acc_tys)]
            return "(Except.ok (%s))" % (", ".join(vals) if vals else "()")

        self.loop_conts.append(after_body)
        try:
            body = self.block(s.body, env_body, after_body, ind + 4, None)
        finally:
            self.loop_conts.pop()
        rebind = "".join("let %s : %s := %s;\n%s" % (mangle(x), lean_ty(t), proj("_py_acc", i, len(accs)), pad)
                         for i, (x, t) in enumerate(zip(accs, acc_tys)))
        return ("((pyForM %s %s (fun (_py_acc : %s) (_py_it : %s) =>\n%s    %s%s\n%s    %s)) >>= "
                "fun (_py_acc : %s) =>\n%s%s%s)" % (
                    src, init, lean_ty(acc_ty), lean_ty(et), pad, unpack, lets, pad, body, lean_ty(acc_ty), pad,
                    rebind, cont(dict(env))))

    # ------------------------------------------------------------------ the function

    def check_signature(self):
        if self.e.get("subst"):
            # `def f(self, *args, **kwargs)`: the starred parameters are the opaque substitution `_py_subst`
            a = self.fnode.args
            if self.fnode.decorator_list or a.posonlyargs or a.kwonlyargs or a.defaults or a.vararg is None or a.kwarg is None \
                    or (a.vararg.arg, a.kwarg.arg) != tuple(self.e["subst"]) \
                    or [x.arg for x in a.args] != [q for q, _ in self.e["params"]]:
                raise Untranslatable("signature changed (registry expects %s, *%s, **%s)" % (
                    [q for q, _ in self.e["params"]], self.e["subst"][0], self.e["subst"][1]), self.fnode)
            return
        T.Fn.check_signature(self)
        want = self.e.get("defaults")
        if want is not None:
            a = self.fnode.args
            got = {x.arg: ast.dump(d) for x, d in zip(a.args[len(a.args) - len(a.defaults):], a.defaults)}
            exp = {p: ast.dump(ast.parse(v, mode="eval").body) for p, v in want.items()}
            if got != exp:
                raise Untranslatable("parameter defaults changed (registry expects %s)" % want, self.fnode)

    def translate_once(self):
        binders, ptys, body = T.Fn.translate_once(self)
        if self.e.get("set_order"):
            binders = binders + ["(_py_ord : PySetOrder)"]
        if self.e.get("subst"):
            binders = ["{R : Type} [Sym.Coef R]"] + binders + ["(_py_subst : R → Sym.SubsRes R)"]
        return binders, ptys, body


# ------------------------------------------------------------------------------------------------- registry

BF = "qubovert/utils/_solve_bruteforce.py"
BRUTE_COMMON = dict(unit="BruteWhole", group="BruteWhole", props=["C09"], monadic=True, set_order=True)
BRUTE_NOT = ["`value(x, D)` and `valid(x)` are calls of the function parameters (any functions of those types)",
             "the iteration order of the Python set `var` is the abstract parameter `_py_ord`",
             "the object `D` is the record Qv.Brute.Model (type, items, and the two attributes read); what `D[()] = offset` "
             "does per container type is the model's `Brute.store` (pyModelSetOffset)"]
REGISTRY = [
    dict(BRUTE_COMMON, file=BF, func="_solve_bruteforce", lean="solve_bruteforce_whole",
         params=[("D", "BModel"), ("all_solutions", "Bool"), ("valid", "ValidFn"), ("spin", "Bool"), ("value", "ValueFn")],
         defaults={}, returns="BruteRet", mutates=["D"], join_points=True,
         extra_theorems=["scanOrder_setOrder", "methods_eq_solveMethod"], typed={"best": "BestHint", "all_sols": "AllSols"},
         not_translated=BRUTE_NOT),
]
for _k in ("pubo", "qubo", "puso", "quso"):
    REGISTRY.append(dict(
        BRUTE_COMMON, file=BF, func="solve_%s_bruteforce" % _k,
        params=[({"pubo": "P", "qubo": "Q", "puso": "H", "quso": "L"}[_k], "BModel"), ("all_solutions", "Bool"),
                ("valid", "ValidFn")],
        defaults={"all_solutions": "False", "valid": "lambda x: True"}, returns="BruteRet",
        mutates=[{"pubo": "P", "qubo": "Q", "puso": "H", "quso": "L"}[_k]],
        not_translated=["`%s_value` passed as a function is read as the model's value function on assignment dicts "
                        "(pyValueFn; the value functions are tied separately, group Values)" % _k]))
for _k, _cls in (("pubo", "PUBOMatrix"), ("puso", "PUSOMatrix"), ("qubo", "QUBOMatrix"), ("quso", "QUSOMatrix")):
    REGISTRY.append(dict(
        BRUTE_COMMON, file="qubovert/utils/_%smatrix.py" % _k, func="%s.solve_bruteforce" % _cls,
        lean="%smatrix_solve_bruteforce" % _k, params=[("self", "BModel"), ("all_solutions", "Bool")],
        locals=[("self_is_solution_valid", "ValidFn")], defaults={"all_solutions": "False"}, returns="MethodRet",
        mutates=["self"],
        not_translated=["`self.is_solution_valid` is a parameter of the generated function (any predicate; `return True` "
                        "for the eight unconstrained types, the constraint check for PCBO / PCSO)"]))

SG = "qubovert/utils/_subgraph.py"
SG_NOT = ["the argument `G` is the record PyRawCont (its type and its items; a non-tuple key is `none`), the result "
          "container `D = type(G)()` the record PyCont; what `D[key] = value` does per container type is the model's "
          "`Ty.store` (pyContSetItem); `nodes` is any collection tested with `in`"]
REGISTRY += [
    dict(file=SG, func="subgraph", lean="subgraph_fn", unit="Subgraph", group="Subgraph", props=["C18"], monadic=True,
         params=[("G", "RawCont"), ("nodes", "VarSet"), ("connections", "OptAssoc")], defaults={"connections": "None"},
         typed={"connections": "Assoc"}, returns="Cont", extra_theorems=["subgraph_fn_on_dict"], not_translated=SG_NOT),
    dict(file=SG, func="subvalue", lean="subvalue_fn", unit="Subgraph", group="Subgraph", props=["C18"], monadic=True,
         params=[("values", "Assoc"), ("G", "RawCont")], defaults={}, returns="Cont", extra_theorems=["subvalue_fn_on_dict"],
         not_translated=SG_NOT),
]

DA_FILE = "qubovert/utils/_dict_arithmetic.py"
SUBS_NOT = ["`*args, **kwargs` are one opaque substitution `_py_subst` on sympy expressions (sympy is not translated); a "
            "coefficient is a number or an expression (Qv.Sym.PyCoef); `float` of a number-valued result is that number",
            "`self.__class__()` is a new empty dict whose `d[k] = val` stores the already squashed key `k` unless `val` is falsy "
            "(pyCoefSetItem)", "`finally:` is rendered as the statements following the try on normal completion"]
REGISTRY += [
    dict(file=DA_FILE, func="DictArithmetic.subs", lean="dict_subs", unit="Subs", group="Subs", props=["C16"], monadic=True,
         params=[("self", "CoefItems")], subst=("args", "kwargs"), typed={"val": "PyCoef"}, returns="CoefItems",
         extra_theorems=["dict_subs_general", "subsItems_ofPolyR"], not_translated=SUBS_NOT),
    dict(file="qubovert/_pcbo.py", func="PCBO.subs", lean="pcbo_subs", unit="Subs", group="Subs", props=["C16"], monadic=True,
         params=[("self", "SymObj")], subst=("args", "kwargs"), returns="SymObj", extra_theorems=["subsObj_bridge"],
         not_translated=SUBS_NOT + ["`super(self.__class__, self).subs(…)` is `DictArithmetic.subs` (tied: dict_subs) on the "
                                    "object's terms, returning an object built by `self.__class__()` (ancilla counter 0, no "
                                    "constraints: pyObjOfSubs)"]),
]

INFO_FILE = "qubovert/utils/_info.py"
INFO_NOT = ["the model object is the record Qv.MObj (kind = class name, terms, name, mapping, _ancilla, constraints), the info "
            "dict the record Qv.Info (an optional key absent or None is `none`); which class has which attribute / method "
            "(pyHasAttr, pySetMapping, pyGetConstraintMethod) and what `cls(terms)` and `add_constraint_*_zero(x, lam=0)` do "
            "(pyUConstruct, pyAddConstraintLam0) are read from the model"]
REGISTRY += [
    dict(file=INFO_FILE, func="get_info", lean="get_info_fn", unit="InfoRT", group="InfoRT", props=["C19"], monadic=True,
         params=[("model", "MObj")], defaults={}, returns="Info", extra_theorems=["getInfo_wf"], not_translated=INFO_NOT),
    dict(file=INFO_FILE, func="create_from_info", lean="create_from_info_fn", unit="InfoRT", group="InfoRT", props=["C19"],
         monadic=True, params=[("info", "Info")], defaults={}, returns="MObj", join_points=True, not_translated=INFO_NOT),
]

ENTRY_BY_LEAN = {e.get("lean", e["func"].split(".")[-1]): e for e in REGISTRY}

UNITS = {
    "BruteWhole": ("SourceBruteWhole.lean", ["Qv.Model.Brute", "Qv.Gen.PreludeUtil"]),
    "Subgraph": ("SourceSubgraph.lean", ["Qv.Model.Subst", "Qv.Gen.PreludeUtil"]),
    "InfoRT": ("SourceInfoRT.lean", ["Qv.Model.Info", "Qv.Gen.PreludeUtil"]),
    "Subs": ("SourceSubs.lean", ["Qv.Model.SubsItems", "Qv.Gen.PreludeUtil"]),
}


# ------------------------------------------------------------------------------------------------- real-code replay (gen_search)

from fractions import Fraction
import itertools as _it


def _fs(v):
    v = Fraction(v)
    return str(v.numerator) if v.denominator == 1 else "%d/%d" % (v.numerator, v.denominator)


def _jassign(x):
    return "[" + ", ".join('[%s, "%s"]' % (k, _fs(v)) for k, v in sorted(x.items())) + "]"


def _jpoly(d):
    return "[" + ", ".join('[[%s], "%s"]' % (", ".join(str(i) for i in k), _fs(v)) for k, v in d.items()) + "]"


C09_VALIDS = {
    "always": lambda x: True, "never": lambda x: False,
    "sum_even": lambda x: sum(1 for v in x.values() if v == 1) % 2 == 0,
    "label0_not_one": lambda x: x.get(0) != 1,
}


class C09Result:
    """result of a brute-force call on the real code, printed like the Lean side's canonWhole / canonMethod"""
    def __init__(self, obj, sol, after, with_obj):
        self.obj, self.sol, self.after, self.with_obj = obj, sol, after, with_obj

    def __repr__(self):
        sol = "one" if isinstance(self.sol, dict) else "many [" + ", ".join(sorted(_jassign(x) for x in self.sol)) + "]"
        head = ("None" if self.obj is None else _fs(self.obj)) + " | " if self.with_obj else ""
        return "%s%s | after %s" % (head, sol, _jpoly(self.after))


def _c09_real(wrapper=None, method=None):
    def real(inp):
        D = inp["D"]
        terms = {tuple(k): Fraction(v) for k, v in D["terms"]}
        valid = C09_VALIDS[inp["valid"]]
        import qubovert.utils as u
        import qubovert.utils._solve_bruteforce as sb
        if method is not None:
            if D["kind"] != method or inp["valid"] != "always":
                raise NotImplementedError("the method is replayed on objects of its own class with the default is_solution_valid")
            obj = getattr(u, method)(terms)
            if dict(obj) != terms:
                raise NotImplementedError("terms are not in the class's canonical form")
            sol = obj.solve_bruteforce(inp["all_solutions"])
            return C09Result(None, sol, dict(obj), False)
        if D["kind"] != "dict" or D["book"] is not None:
            raise NotImplementedError("only plain dict inputs are replayed on the free functions")
        d = dict(terms)
        if wrapper is None:
            res = sb._solve_bruteforce(d, inp["all_solutions"], valid, inp["spin"], getattr(u, inp["value"] + "_value"))
        else:
            res = getattr(sb, wrapper)(d, inp["all_solutions"], valid)
        return C09Result(res[0], res[1], d, True)
    return real


def _c09_oracle(spin_of=None, deg2_of=None):
    """C09 from the property text: the objective is the minimum of the model over the valid assignments of its variables,
    the solution(s) are (exactly) the valid minimisers, no valid assignment -> None, a constant model -> its constant and {};
    the model's terms are unchanged as a dict"""
    def oracle(inp, got, names):
        terms = {tuple(k): Fraction(v) for k, v in inp["D"]["terms"]}
        spin = spin_of if spin_of is not None else inp["spin"]
        deg2 = deg2_of if deg2_of is not None else inp.get("value", "pubo") in ("qubo", "quso")
        if deg2 and any(len(k) > 2 for k in terms):
            return None, "a key longer than 2 labels is outside the domain of a degree-2 solver"
        if inp["D"]["kind"] == "dict" and any(len(set(k)) != len(k) for k in terms) and spin:
            return None, "repeated labels in a spin key: the value functions read them differently (outside the property)"
        valid = C09_VALIDS[inp["valid"]]
        if got.after != terms:
            return False, "the model was changed by the call: %s" % _jpoly(got.after)
        labels = sorted({i for k in terms for i in k})
        if not labels:
            want_obj, want = sum(terms.values(), Fraction(0)), [{}]
        else:
            vals = []
            for t in _it.product((1, -1) if spin else (0, 1), repeat=len(labels)):
                x = dict(zip(labels, t))
                if valid(x):
                    e = Fraction(0)
                    for k, c in terms.items():
                        m = Fraction(1)
                        for i in (k if spin else set(k)):
                            m *= x[i]
                        e += c * m
                    vals.append((e, x))
            if not vals:
                want_obj, want = None, [{}]
            else:
                want_obj = min(e for e, _ in vals)
                want = [x for e, x in vals if e == want_obj]
        sols = [got.sol] if isinstance(got.sol, dict) else list(got.sol)
        if isinstance(got.sol, dict) == bool(inp["all_solutions"]):
            return False, "result shape does not match all_solutions=%s" % inp["all_solutions"]
        if got.with_obj and got.obj != want_obj:
            return False, "objective %s, true minimum over valid assignments %s" % (got.obj, want_obj)
        if any(x not in want for x in sols) or len(sols) != len({_jassign(x) for x in sols}):
            return False, "returned solution(s) %s are not (distinct) valid minimisers %s" % (sols, want)
        if inp["all_solutions"] and len(sols) != len(want):
            return False, "all_solutions returned %d of %d minimisers" % (len(sols), len(want))
        return True, "minimum %s with %d minimiser(s)" % (want_obj, len(want))
    return oracle


_C09_FIELDS = ("D", "all_solutions", "valid", "set_order")
REAL = {
    "solve_bruteforce_whole": ("C09", _c09_real(), _C09_FIELDS + ("spin", "value"), _c09_oracle()),
}
for _k in ("pubo", "qubo", "puso", "quso"):
    REAL["solve_%s_bruteforce" % _k] = ("C09", _c09_real(wrapper="solve_%s_bruteforce" % _k), _C09_FIELDS,
                                        _c09_oracle(_k in ("puso", "quso"), _k in ("qubo", "quso")))
    REAL["%smatrix_solve_bruteforce" % _k] = ("C09", _c09_real(method="%sMatrix" % _k.upper()), _C09_FIELDS,
                                              _c09_oracle(_k in ("puso", "quso"), _k in ("qubo", "quso")))


# ---- C18: subgraph / subvalue

class PolyResult:
    """a returned dict, printed like the Lean side's jPoly (items in dict order)"""
    def __init__(self, d):
        self.d = d

    def __repr__(self):
        return _jpoly({k: Fraction(v) for k, v in self.d.items()})


def _c18_build(inp):
    import qubovert as qv
    from qubovert.utils import DictArithmetic
    items = [(None if k is None else tuple(k), Fraction(v)) for k, v in inp["G"]]
    cls = {"dict": dict, "DictArithmetic": DictArithmetic}.get(inp["type"]) or getattr(qv, inp["type"])
    if any(k is None for k, _ in items):
        if cls is not dict:
            raise NotImplementedError("a non-tuple key is replayed in a plain dict only")
        return {(0 if k is None else k): v for k, v in items}, items
    if len({k for k, _ in items}) != len(items):
        raise NotImplementedError("repeated key")
    G = cls(dict(items))
    if list(G.items()) != items:
        raise NotImplementedError("items are not in the class's canonical form")
    return G, items


def _c18_real(which):
    def real(inp):
        from qubovert.utils import subgraph, subvalue
        G, _ = _c18_build(inp)
        if which == "subgraph":
            conn = inp["connections"]
            res = subgraph(G, set(inp["nodes"]), None if conn is None else {i: Fraction(v) for i, v in conn})
        else:
            res = subvalue({i: Fraction(v) for i, v in inp["values"]}, G)
        return PolyResult(res)
    return real


def _c18_oracle(which):
    """C18: the result represents the same function of the remaining variables (plain dicts with duplicate-free tuple keys;
    other inputs are outside this oracle)"""
    def ev(d, x):
        tot = Fraction(0)
        for k, c in d.items():
            m = Fraction(c)
            for i in k:
                m *= x[i]
            tot += m
        return tot

    def oracle(inp, got, names):
        if inp["type"] != "dict" or any(k is None or len(set(k)) != len(k) for k, _ in inp["G"]):
            return None, "outside the oracle's domain (plain dict, duplicate-free tuple keys)"
        G = {tuple(k): Fraction(v) for k, v in inp["G"]}
        labels = sorted({i for k in G for i in k})
        if which == "subgraph":
            nodes = set(inp["nodes"])
            conn = {i: Fraction(v) for i, v in (inp["connections"] or [])}
            fixed = {i: conn.get(i, Fraction(0)) for i in labels if i not in nodes}
            G = {k: v for k, v in G.items() if k}
        else:
            fixed = {i: Fraction(v) for i, v in inp["values"]}
        free = [i for i in labels if i not in fixed]
        if any(i in fixed for k in got.d for i in k):
            return False, "a substituted label is still present in %r" % got
        for t in _it.product((0, 1, -1, 2), repeat=len(free)):
            x = dict(fixed)
            x.update(zip(free, (Fraction(a) for a in t)))
            if ev(got.d, x) != ev(G, x):
                return False, "at %s the result evaluates to %s, the substituted model to %s" % (x, ev(got.d, x), ev(G, x))
        return True, "same function on %d assignments" % (4 ** len(free))
    return oracle


REAL["subgraph_fn"] = ("C18", _c18_real("subgraph"), ("type", "G", "nodes", "connections"), _c18_oracle("subgraph"))
REAL["subvalue_fn"] = ("C18", _c18_real("subvalue"), ("type", "values", "G"), _c18_oracle("subvalue"))


# ---- C16: DictArithmetic.subs

def _c16_real(inp):
    import sympy
    from qubovert.utils import DictArithmetic
    lam = sympy.Symbol("lam")
    keys = [tuple(k) for k, _ in inp["items"]]
    if len(set(keys)) != len(keys):
        raise NotImplementedError("repeated key")
    d = DictArithmetic()
    for k, c in inp["items"]:
        if "num" in c:
            v = Fraction(c["num"])
        else:
            v = sum((sympy.Rational(Fraction(a).numerator, Fraction(a).denominator) * lam ** i for i, a in enumerate(c["sym"])),
                    sympy.Integer(0))
            if not v.free_symbols:
                raise NotImplementedError("a constant expression is a sympy number, not an expression in the symbol")
        dict.__setitem__(d, tuple(k), v)
    c = Fraction(inp["c"])
    res = d.subs({lam: sympy.Rational(c.numerator, c.denominator)})
    return PolyResult({k: Fraction(v).limit_denominator(1 << 40) for k, v in res.items()})


def _c16_oracle(inp, got, names):
    """C16: after subs(lam -> c) every coefficient is the value of the symbolic coefficient at c (a zero is not stored)"""
    c = Fraction(inp["c"])
    want = {}
    for k, co in inp["items"]:
        v = Fraction(co["num"]) if "num" in co else sum((Fraction(a) * c ** i for i, a in enumerate(co["sym"])), Fraction(0))
        if v:
            want[tuple(k)] = v
    return (got.d == want), "direct numeric build %s, subs returned %r" % (_jpoly(want), got)


REAL["dict_subs"] = ("C16", _c16_real, ("items", "c"), _c16_oracle)
