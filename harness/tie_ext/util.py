"""Tie extension `util` — whole-function ties for utility functions (C09, C18, C16, C19, C15).

Units / groups (one per item, so that a source edit in one breaks only its properties' obligations):

  BruteWhole  (C09)  qubovert/utils/_solve_bruteforce.py: `_solve_bruteforce` as a whole function, the four
                     `solve_*_bruteforce` wrappers, and the `solve_bruteforce` methods of the four Matrix classes
  Subgraph    (C18)  qubovert/utils/_subgraph.py: `subgraph`, `subvalue` as whole functions
  Subs        (C16)  `DictArithmetic.subs` (qubovert/utils/_dict_arithmetic.py) and `PCBO.subs` (qubovert/_pcbo.py)
  InfoRT      (C19)  qubovert/utils/_info.py: `get_info`, `create_from_info` as whole functions
  (not built: `DictArithmetic.simplify` (C16) and `anneal_temperature_range` (C15))

Further rules (units Subgraph / Subs / InfoRT; primitives in the same prelude):
  subgraph    `type(G)()` -> pyNewLike; `G.items()` on the argument (keys may fail to be tuples: Option Key);
              `if not isinstance(k, tuple): raise E` -> match on the optional key; `filter(lambda x: c, k)` / `tuple(x for x in
              k if c)` -> List.filter; `x in nodes` / `x in values` -> pyUIn / pyAssocIn; `m.get(i, d)`, `m[i]` (KeyError) on a
              label dict; `D.get(k, d)`, `D[k] = v` (may raise), `D.pop(k, d)` on the container under construction;
              `np.prod(l)` -> pyProd; `[e for x in l]` with a raising `e` -> List.mapM
  subs        `def f(self, *args, **kwargs)` registered `subst=(args, kwargs)`: the starred parameters are one opaque
              substitution `_py_subst`; `v.subs(*args, **kwargs)` -> pySubs (AttributeError on a number) / the registered
              DictArithmetic.subs on a dict; `float(x)` -> pyFloatOfSubs (TypeError); several `except` clauses and `finally`
              (pyTryHandlers); `self.__class__()`, `super(self.__class__, self).subs(…)`, `d._ancilla = e`, `d._constraints = e`
  info        string literals, a tuple of string literals as a loop source, `dict(type=…, terms=…, name=…)`, `hasattr` /
              `getattr(model, attr)`, `res[attr] = v`, `info["k"]`, `"k" in info`, `info["k"] is not None`, truthiness of
              `info["num_ancillas"]`, `info.get("k", default)`, `cls(terms)`, `model.name = e`, `model._ancilla = e`,
              `model.set_mapping(e)`, `m = getattr(model, "add_constraint_%s_zero" % k)` and `m(x, lam=0)`

Meaning of the primitives: lean/Qv/Gen/PreludeUtil.lean (trusted).  Construct rules added here (class FnExt; everything
else is inherited from harness/translate.py, "one rule per construct, reject what is not understood"):

  objects     a parameter of type `BModel` is the dict-like object handed to the solver (Qv.Brute.Model); it is a *mutable
              local*: `offset = D.pop(k)` -> pyModelPop (KeyError) rebinding `D`; `D[()] = e` -> pyModelSetOffset (only the
              literal key `()`); `not D` / `D` as a condition -> pyModelEmpty; `k in D` -> pyModelHasKey; iterating `D` ->
              its keys; `D.num_binary_variables`, `D._reverse_mapping` -> pyAttr… (AttributeError); a function registered
              with `mutates=[p]` returns `(value, p)`; a call of such a function rebinds the argument (which must be a name)
  functions   a parameter of function type (`valid`, `value`) may be called; `pubo_value` … passed as a value ->
              pyValueFn; `self.is_solution_valid` -> the extra parameter `self_is_solution_valid`; positional defaults
              are compared with the registry (`defaults`)
  statements  registry `join_points=True`: the statements after a top-level `if` are rendered once, as a local function
              `_py_kN` of the locals the branches may change; each branch that falls through ends with a call of it;
              `try: S except E: H` (one handler, a builtin exception, no else/finally; S and H only assign locals, H
              re-assigns every local S assigns before reading it) -> pyTryExcept; `continue` in a `for` -> the loop goes
              on with the current locals; `s.update(t)` on a set -> pySetUpdate
  containers  `set()`, `set(k)`, `len(s)`; iterating / enumerating a set goes through the abstract iteration order
              `_py_ord : PySetOrder` (an extra parameter of the generated function: registry `set_order=True`);
              `enumerate(l)` -> pyUEnumerate; `dict(pairs)` -> pyUDictOfPairs; `d[k]` on a dict -> pyDictGetItem (KeyError);
              `{k: v for … in …}` -> pyForM … pyDictPut; `itertools.product(dom, repeat=n)` -> pyProduct;
              `{}` / `[{}]` / `{None: [{}]}` where the expected type is known (registry `typed` gives the type hint of a local)
  results     `a if c else b` of a dict and a list of dicts where a `Brute.Sol` is expected -> Sol.one / Sol.many

Shape normalisations (registry `normalize=(step, …)`; exact, purely syntactic rewritings of the function's AST before it is
rendered, each with its side conditions in its docstring below; none looks at what the code computes; on the unchanged /repo
none of them applies, the generated files are byte-identical):
  inline      `x = <display of numbers / strings / never re-bound parameters, possibly `a if p else b`>` assigned once at the
              top level -> written where `x` is read (hoisted loop-invariant display: `domain = (1, -1) if spin else (0, 1)`)
  pack        two locals only ever stored together by `a, b = e1, e2` -> ONE tuple local (`best_val, best_sol` is `best`)
  helper      calls of a private helper of the same file / of a nested `def` (closure) are replaced by its body: as an
              expression when the helper is `return E` / `if c: return A … return B`, as statements when every exit is a
              `return` in tail position (`T = h(…)`, also inside `try`) or when it has no `return` (`h(…)` as a statement)
  fission     `P, Q = [], []; for x in k: (P.append(eP) if c else Q.append(eQ))` -> two filtered comprehensions
  setcomp     `{e for …}` -> `set(e for …)`
  alias       `X = o.d.get(K); if X: … X …` -> `if o.d.get(K, []): … o.d[K] …` (a local that only caches the stored list)
Further rules added for reshaped sources: `zip(a, b)` of two lists -> List.zip; `dict(pairs)` label -> number is an
assignment; `[e for x in l if c]` with a raising `e` -> List.mapM over List.filter; `tuple(list of labels)`;
`getattr(model, attr, S)` with a module-private sentinel `S = object()` -> an Option (`is S` / `is not S` narrow it);
`res.update((k, v) for x in src if c)` on an info dict -> the loop of item assignments; `qv` / `qv.utils` as values
(PyModule) and `getattr(module, t)` -> pyModuleClass; `getattr(…)(terms)`; `info.get(key)` with one argument; `if X:` on a
local that is None or a natural number; `a, b = e1, e2` as the re-assignment in an `except` body.
"""
import ast
from .. import translate as T
from ..translate import (Simple, TTuple, TOpt, TList, res, same, lean_ty, is_num, proj, mangle, Untranslatable,
                         RAT, INT, NAT, BOOL, PROP, VAR, KEY, POLY, UNIT, OPAQUE, BASSIGN, ALLSOLS, PARAM_TYPES, EXC)


class TDict(TList):
    """a builtin dict: association list in insertion order"""
    def __init__(self, k, v):
        TList.__init__(self, TTuple([k, v]))
        self.k, self.v = k, v


BMODEL = Simple("Brute.Model", "Brute.Model")
SOL = Simple("Brute.Sol", "Brute.Sol")
PSET = Simple("PySet", "(List Var)")
VALIDFN = Simple("ValidFn", "(Brute.Assign → Bool)")
VALUEFN = Simple("ValueFn", "(Brute.Assign → Poly → Except Err Rat)")

RAWCONT = Simple("PyRawCont", "PyRawCont")      # the argument G of subgraph / subvalue
CONT = Simple("PyCont", "PyCont")               # the container D = type(G)() under construction
ASSOC = Simple("Assoc", "Assoc")                # a dict label -> number
VARSET = Simple("VarSet", "(List Var)")         # a collection of labels that is only tested with `in`

PYCOEF = Simple("PyCoef", "(Sym.PyCoef R)")          # a coefficient: number or sympy expression
COEFDICT = Simple("CoefItems", "(Sym.CoefItems R)")  # a DictArithmetic with such coefficients
SUBSRES = Simple("SubsRes", "(Sym.SubsRes R)")       # what expr.subs(...) returns
SYMOBJ = Simple("SymObj", "(Sym.SymObj R)")          # a PCBO / PCSO: terms, _ancilla, _constraints
REL = Simple("Rel", "Rel")

INFO = Simple("Info", "Info")                   # an info dict (get_info / create_from_info)
MOBJ = Simple("MObj", "MObj")                   # a model object as those two functions see it
STR = Simple("String", "String")
KINDT = Simple("Kind", "Kind")                  # a qubovert class, by its kind (also: its __name__)
INFOVAL = Simple("InfoVal", "InfoVal")
METHOD = Simple("RelMethod", "Rel")             # a bound add_constraint_<rel>_zero method, by its relation
MODULE = Simple("PyModule", "PyModule")         # `qv` or `qv.utils` (create_from_info looks the class up in one of them)

PARAM_TYPES.update({
    "Info": lambda: INFO, "MObj": lambda: MOBJ,
    "PyCoef": lambda: PYCOEF, "CoefItems": lambda: COEFDICT, "SymObj": lambda: SYMOBJ,
    "RawCont": lambda: RAWCONT, "Cont": lambda: CONT, "Assoc": lambda: ASSOC, "OptAssoc": lambda: TOpt(ASSOC),
    "VarSet": lambda: VARSET,
    "BModel": lambda: BMODEL, "Sol": lambda: SOL, "ValidFn": lambda: VALIDFN, "ValueFn": lambda: VALUEFN,
    "BruteRes": lambda: TTuple([TOpt(RAT), SOL]),
    "BruteRet": lambda: TTuple([TTuple([TOpt(RAT), SOL]), BMODEL]),
    "MethodRet": lambda: TTuple([SOL, BMODEL]),
    "BestHint": lambda: TTuple([TOpt(RAT), BASSIGN]),
})

_orig_coerce = T.coerce


def coerce(s, frm, to, node=None):
    """the translator's coercions plus the ones of this extension (types that exist only here)"""
    f, t = res(frm), res(to)
    if t is SOL and f is BASSIGN:
        return "(Brute.Sol.one %s)" % s
    if t is SOL and isinstance(f, TList) and res(f.elt) is BASSIGN:
        return "(Brute.Sol.many %s)" % s
    if f is BMODEL and t is POLY:
        return "(pyModelItems %s)" % s
    if t is PYCOEF and f is SUBSRES:
        return "(pyCoefOfSubs %s)" % s
    if t is PYCOEF and is_num(f):
        return "(Sym.PyCoef.num %s)" % _orig_coerce(s, frm, RAT, node)
    return _orig_coerce(s, frm, to, node)


T.coerce = coerce        # the base rules look `coerce` up at call time; the new cases only concern this module's types

INFO_KEYS = ("type", "terms", "name", "mapping", "num_ancillas", "constraints")
VALUE_FUNCS = {"pubo_value": "pubo", "qubo_value": "qubo", "puso_value": "puso", "quso_value": "quso"}
def cont_wrap(cont):
    return lambda env: cont(env)


MUTATING_METHODS = {"update", "append", "pop", "setdefault", "add", "clear", "set_mapping"}


# ------------------------------------------------------------------------------------------------- shape normalisation
# Purely syntactic, exact rewritings of the function's AST before it is rendered (registry `normalize=True`).  Each one
# maps a shape onto the shape the translator already renders, so that a harmless reshaping yields the SAME Lean term; none
# of them looks at what the code computes.

def _stores(fnode, name):
    return [x for x in ast.walk(fnode) if isinstance(x, ast.Name) and x.id == name and isinstance(x.ctx, (ast.Store, ast.Del))]


def _in_nested_scope(fnode, names):
    """a name of `names` occurs inside a nested def / lambda / class, or is declared global / nonlocal"""
    for x in ast.walk(fnode):
        if x is not fnode and isinstance(x, (ast.FunctionDef, ast.AsyncFunctionDef, ast.Lambda, ast.ClassDef)):
            if any(isinstance(y, ast.Name) and y.id in names for y in ast.walk(x)):
                return True
        if isinstance(x, (ast.Global, ast.Nonlocal)) and set(x.names) & set(names):
            return True
    return False


def _params(fnode):
    a = fnode.args
    return {x.arg for x in a.posonlyargs + a.args + a.kwonlyargs} | ({a.vararg.arg} if a.vararg else set()) | \
        ({a.kwarg.arg} if a.kwarg else set())


def _const_display(n, fnode):
    """a number / a never re-assigned parameter / a tuple of such / `a if p else b` with `p`, `not p` a never re-assigned
    parameter: evaluating it has no effect, cannot depend on where in the function it is evaluated, and gives an immutable value"""
    if isinstance(n, ast.Constant):
        return isinstance(n.value, (int, float, str)) and not isinstance(n.value, bool)
    if isinstance(n, ast.UnaryOp) and isinstance(n.op, ast.USub):
        return isinstance(n.operand, ast.Constant) and _const_display(n.operand, fnode)
    if isinstance(n, ast.Name):
        return isinstance(n.ctx, ast.Load) and n.id in _params(fnode) and not _stores(fnode, n.id)
    if isinstance(n, ast.Tuple):
        return bool(n.elts) and all(_const_display(x, fnode) for x in n.elts)
    if isinstance(n, ast.IfExp):
        t = n.test.operand if isinstance(n.test, ast.UnaryOp) and isinstance(n.test.op, ast.Not) else n.test
        return isinstance(t, ast.Name) and _const_display(t, fnode) and _const_display(n.body, fnode) \
            and _const_display(n.orelse, fnode)
    return False


class _Subst(ast.NodeTransformer):
    def __init__(self, table):
        self.table = table

    def visit_Name(self, n):
        if isinstance(n.ctx, ast.Load) and n.id in self.table:
            import copy
            return ast.copy_location(copy.deepcopy(self.table[n.id]), n)
        return n


def inline_constant_locals(fnode):
    """`x = E` at the top level of the function, `x` assigned nowhere else, every read of `x` in a later top-level
    statement, `E` a `_const_display`: the statement is dropped and `E` is written where `x` is read (hoisted loop-invariant
    display, e.g. `domain = (1, -1) if spin else (0, 1)` … `itertools.product(domain, repeat=N)`)"""
    changed = True
    while changed:
        changed = False
        for i, s in enumerate(fnode.body):
            if not (isinstance(s, ast.Assign) and len(s.targets) == 1 and isinstance(s.targets[0], ast.Name)
                    and isinstance(s.value, (ast.Tuple, ast.IfExp)) and _const_display(s.value, fnode)):
                continue
            x = s.targets[0].id
            if x in _params(fnode) or len(_stores(fnode, x)) != 1 or _in_nested_scope(fnode, [x]):
                continue
            if any(isinstance(y, ast.Name) and y.id == x for b in fnode.body[:i] for y in ast.walk(b)):
                continue
            rest = [_Subst({x: s.value}).visit(b) for b in fnode.body[i + 1:]]
            fnode.body[i:] = rest
            changed = True
            break
    return fnode


def pack_pairs(fnode, prefer=()):
    """two locals `a`, `b` whose every store is one statement `a, b = e1, e2` (both stored together, in this order, from a
    two-element display): they are the components of ONE tuple-valued local `p`:  `a, b = e1, e2` -> `p = e1, e2`,
    a read of `a` -> `p[0]`, of `b` -> `p[1]`  (in both forms the right-hand side is evaluated completely, left to right,
    before anything is stored; tuples are immutable).  `p` is the common prefix of the two names when that is a fresh
    name (so that `best_val, best_sol` is `best`), else `_py_pack_<a>_<b>`."""
    pairs = []
    for s in ast.walk(fnode):
        if isinstance(s, ast.Assign) and len(s.targets) == 1 and isinstance(s.targets[0], ast.Tuple) \
                and len(s.targets[0].elts) == 2 and all(isinstance(x, ast.Name) for x in s.targets[0].elts) \
                and isinstance(s.value, ast.Tuple) and len(s.value.elts) == 2 \
                and not any(isinstance(x, ast.Starred) for x in s.value.elts):
            p = (s.targets[0].elts[0].id, s.targets[0].elts[1].id)
            if p[0] != p[1] and p not in pairs:
                pairs.append(p)
    used = {x.id for x in ast.walk(fnode) if isinstance(x, ast.Name)} | _params(fnode)
    for a, b in pairs:
        if a in _params(fnode) or b in _params(fnode) or _in_nested_scope(fnode, [a, b]):
            continue
        sites = [s for s in ast.walk(fnode) if isinstance(s, ast.Assign) and len(s.targets) == 1
                 and isinstance(s.targets[0], ast.Tuple) and [getattr(x, "id", None) for x in s.targets[0].elts] == [a, b]
                 and isinstance(s.value, ast.Tuple) and len(s.value.elts) == 2
                 and not any(isinstance(x, ast.Starred) for x in s.value.elts)]
        site_names = {id(x) for s in sites for x in s.targets[0].elts}
        if any(id(x) not in site_names for x in _stores(fnode, a) + _stores(fnode, b)):
            continue            # stored somewhere else too (alone, as a loop target, by `with … as`, …)
        if any(isinstance(c, ast.comprehension) and any(isinstance(y, ast.Name) and y.id in (a, b) for y in ast.walk(c.target))
               for c in ast.walk(fnode)):
            continue
        pre = ""
        for ca, cb in zip(a, b):
            if ca != cb:
                break
            pre += ca
        pre = pre.rstrip("_")
        name = pre if pre.isidentifier() and pre not in used and not pre.startswith("_py") else "_py_pack_%s_%s" % (a, b)
        if name not in prefer:
            # a name for which the registry holds a type hint of a pair (`typed`), when the function does not use it: the
            # choice of the name has no meaning, it only lets the hint (the type of `{}` in `None, {}`) apply
            free = [q for q in prefer if q not in used]
            if free:
                name = free[0]
        if name in used:
            continue
        used.add(name)

        class Pack(ast.NodeTransformer):
            def visit_Assign(self, s):
                self.generic_visit(s)
                if s in sites:
                    s.targets = [ast.copy_location(ast.Name(id=name, ctx=ast.Store()), s.targets[0])]
                return s

            def visit_Name(self, n):
                if isinstance(n.ctx, ast.Load) and n.id in (a, b):
                    return ast.copy_location(ast.Subscript(
                        value=ast.copy_location(ast.Name(id=name, ctx=ast.Load()), n),
                        slice=ast.copy_location(ast.Constant(value=0 if n.id == a else 1), n), ctx=ast.Load()), n)
                return n

        Pack().visit(fnode)
        ast.fix_missing_locations(fnode)
    return fnode


class _Rename(ast.NodeTransformer):
    def __init__(self, table):
        self.table = table

    def visit_Name(self, n):
        if n.id in self.table:
            return ast.copy_location(ast.Name(id=self.table[n.id], ctx=n.ctx), n)
        return n


def _tail_returns(stmts, target, arity):
    """the statement list with every `return E` (which must be the last statement of its block, the blocks being the list
    itself, the branches of a final `if`, and the body / handlers of a final `try` without else / finally) replaced by
    `target = E`; None when the list has another shape (a return elsewhere, a path that falls off the end, …)"""
    import copy
    if not stmts:
        return None
    for i, s in enumerate(stmts[:-1]):
        if any(isinstance(x, (ast.Yield, ast.YieldFrom, ast.Await)) for x in ast.walk(s)):
            return None
        if any(isinstance(x, ast.Return) for x in ast.walk(s)):
            # early return:  `if c: …; return A` followed by REST  ==  `if c: …; return A` else: REST
            if isinstance(s, ast.If) and not s.orelse:
                a, b = _tail_returns(s.body, target, arity), _tail_returns(stmts[i + 1:], target, arity)
                if a is None or b is None:
                    return None
                return stmts[:i] + [ast.copy_location(ast.If(test=s.test, body=a, orelse=b), s)]
            return None
    last = stmts[-1]
    if isinstance(last, ast.Return):
        if last.value is None:
            return None
        if arity is not None and not (isinstance(last.value, ast.Tuple) and len(last.value.elts) == arity
                                      and not any(isinstance(x, ast.Starred) for x in last.value.elts)):
            return None
        return stmts[:-1] + [ast.copy_location(ast.Assign(targets=[copy.deepcopy(target)], value=last.value), last)]
    if isinstance(last, ast.If):
        a, b = _tail_returns(last.body, target, arity), _tail_returns(last.orelse, target, arity)
        if a is None or b is None:
            return None
        return stmts[:-1] + [ast.copy_location(ast.If(test=last.test, body=a, orelse=b), last)]
    if isinstance(last, ast.Try) and not last.orelse and not last.finalbody and last.handlers:
        a = _tail_returns(last.body, target, arity)
        hs = [_tail_returns(h.body, target, arity) for h in last.handlers]
        if a is None or any(h is None for h in hs):
            return None
        handlers = [ast.copy_location(ast.ExceptHandler(type=h.type, name=h.name, body=hb), h)
                    for h, hb in zip(last.handlers, hs)]
        return stmts[:-1] + [ast.copy_location(ast.Try(body=a, handlers=handlers, orelse=[], finalbody=[]), last)]
    return None


def inline_tail_helper(fnode, module_src, registered):
    """Calls of a private helper of the same file are replaced by the helper's body.  `h` must be a module-level function
    defined once, not rebound, not decorated, not registered as a tied function, not recursive, with plain positional
    parameters without defaults, without nested functions / yield; the call has no keyword / starred arguments.

    * `T = h(a1, …, an)` (a statement, `T` a name or a tuple of distinct names): every exit of `h` must be a `return E` in
      tail position (`_tail_returns`); each is written `T = E` (when `T` is a tuple every `E` must be a display of that many
      elements, so that the unpacking cannot fail inside a `try` of the helper);
    * `h(a1, …, an)` (an expression statement): `h` must contain no `return` (it falls off its end; the `None` is discarded).

    A parameter whose argument is a plain name and which `h` never re-binds is renamed to that name (same object: item
    assignments through it are the caller's); any other parameter becomes a fresh local assigned the argument before the
    body (arguments are evaluated left to right before the body; evaluating a plain name has no effect, so only the order
    among the non-name arguments matters, and it is kept).  The helper's other locals are renamed where they clash with a
    name of the caller.  A free name of the helper must not be a local of the caller."""
    import copy
    tree = ast.parse(module_src)
    defs = {}
    for s in tree.body:
        if isinstance(s, ast.FunctionDef):
            defs.setdefault(s.name, []).append(s)
    rebound = {x.id for s in tree.body if not isinstance(s, (ast.FunctionDef, ast.ClassDef, ast.AsyncFunctionDef))
               for x in ast.walk(s) if isinstance(x, ast.Name) and isinstance(x.ctx, ast.Store)}
    for s in tree.body:
        if isinstance(s, (ast.Import, ast.ImportFrom)):
            rebound |= {(a.asname or a.name).split(".")[0] for a in s.names}
    caller_names = {x.id for x in ast.walk(fnode) if isinstance(x, ast.Name)} | _params(fnode)
    caller_locals = {x.id for x in ast.walk(fnode) if isinstance(x, ast.Name) and isinstance(x.ctx, ast.Store)} | _params(fnode)
    taken = set(caller_names)

    # a nested `def` at the top level of the function (a closure: its free names are read, when it is called, in this very
    # scope, which is where the inlined expression reads them): defined once, never re-bound, only ever called
    nested = {}
    for i, s in enumerate(fnode.body):
        if isinstance(s, ast.FunctionDef):
            nm = s.name
            uses = [x for x in ast.walk(fnode) if isinstance(x, ast.Name) and x.id == nm]
            callees = {id(x.func) for x in ast.walk(fnode) if isinstance(x, ast.Call)}
            defs_nm = [x for x in ast.walk(fnode) if isinstance(x, (ast.FunctionDef, ast.ClassDef, ast.AsyncFunctionDef))
                       and x.name == nm and x is not fnode]
            before = any(isinstance(x, ast.Name) and x.id == nm for b in fnode.body[:i] for x in ast.walk(b))
            if len(defs_nm) == 1 and nm not in _params(fnode) and not before and not s.decorator_list \
                    and all(isinstance(x.ctx, ast.Load) and id(x) in callees for x in uses) \
                    and not any(isinstance(x, ast.Name) and x.id == nm for x in ast.walk(s)):
                nested[nm] = s

    def helper_of(call):
        if not (isinstance(call, ast.Call) and isinstance(call.func, ast.Name) and not call.keywords
                and not any(isinstance(a, ast.Starred) for a in call.args)):
            return None
        if any(isinstance(x, (ast.NamedExpr, ast.Yield, ast.YieldFrom, ast.Await)) for a in call.args for x in ast.walk(a)):
            return None                 # an argument that binds a name / suspends: evaluation order would matter
        name = call.func.id
        if name in nested:
            h = nested[name]
            a = h.args
            if a.posonlyargs or a.kwonlyargs or a.defaults or a.vararg or a.kwarg or len(a.args) != len(call.args) \
                    or any(isinstance(x, (ast.FunctionDef, ast.Lambda, ast.ClassDef, ast.Global, ast.Nonlocal, ast.Yield,
                                          ast.YieldFrom, ast.AsyncFunctionDef)) for b in h.body for x in ast.walk(b)):
                return None
            return h
        if len(defs.get(name, [])) != 1 or name in rebound or name in registered or name in caller_locals \
                or name == fnode.name:
            return None
        h = defs[name][0]
        a = h.args
        if h.decorator_list or a.posonlyargs or a.kwonlyargs or a.defaults or a.vararg or a.kwarg \
                or len(a.args) != len(call.args) \
                or any(isinstance(x, (ast.FunctionDef, ast.Lambda, ast.ClassDef, ast.Global, ast.Nonlocal,
                                      ast.Yield, ast.YieldFrom, ast.AsyncFunctionDef)) for b in h.body for x in ast.walk(b)) \
                or any(isinstance(x, ast.Name) and x.id == name for x in ast.walk(h)):
            return None
        return h

    def expand(s):
        """the statements that replace `s`, or None"""
        if isinstance(s, ast.Assign) and len(s.targets) == 1:
            call, t = s.value, s.targets[0]
            arity = None
            if isinstance(t, ast.Tuple) and all(isinstance(x, ast.Name) for x in t.elts) \
                    and len({x.id for x in t.elts}) == len(t.elts):
                arity = len(t.elts)
            elif not isinstance(t, ast.Name):
                return None
        elif isinstance(s, ast.Expr):
            call, t, arity = s.value, None, None
        else:
            return None
        h = helper_of(call)
        if h is None:
            return None
        body = copy.deepcopy(h.body)
        if body and isinstance(body[0], ast.Expr) and isinstance(body[0].value, ast.Constant) \
                and isinstance(body[0].value.value, str):
            body = body[1:]                                  # the docstring
        if not body:
            return None
        params = [p.arg for p in h.args.args]
        hlocals = {x.id for b in body for x in ast.walk(b) if isinstance(x, ast.Name) and isinstance(x.ctx, (ast.Store, ast.Del))}
        hfree = {x.id for b in body for x in ast.walk(b) if isinstance(x, ast.Name)} - hlocals - set(params)
        if hfree & caller_locals:
            return None
        tnames = {x.id for x in ast.walk(t) if isinstance(x, ast.Name)} if t is not None else set()

        def fresh(x):
            f = x
            while f in taken or f in hlocals or f in params:
                f += "_h"
            taken.add(f)
            return f

        table, pre = {}, []
        for pname, arg in zip(params, call.args):
            if isinstance(arg, ast.Name) and pname not in hlocals:
                table[pname] = arg.id
            else:
                table[pname] = pname if (pname not in taken and pname not in tnames) else fresh(pname)
                taken.add(table[pname])
                pre.append(ast.copy_location(ast.Assign(
                    targets=[ast.copy_location(ast.Name(id=table[pname], ctx=ast.Store()), arg)], value=arg), s))
        for x in sorted(hlocals - set(params)):
            if x in taken or x in tnames or x in table.values():
                table[x] = fresh(x)
            else:
                taken.add(x)
        body = [_Rename(table).visit(b) for b in body]
        if t is None:
            if any(isinstance(x, ast.Return) for b in body for x in ast.walk(b)):
                return None
            return pre + body
        new = _tail_returns(body, t, arity)
        return None if new is None else pre + new

    def rewrite(stmts):
        out = []
        for s in stmts:
            e = expand(s)
            if e is not None:
                out.extend(e)
                continue
            for field in ("body", "orelse", "finalbody"):
                if isinstance(getattr(s, field, None), list) and not isinstance(s, (ast.FunctionDef, ast.ClassDef, ast.Lambda)):
                    setattr(s, field, rewrite(getattr(s, field)))
            if isinstance(s, ast.Try):
                for hd in s.handlers:
                    hd.body = rewrite(hd.body)
            out.append(s)
        return out

    # a helper that is ONE expression (`return E`, or a cascade of `if c: return A` … `return B` = `A if c else B`), called
    # with plain names / constants (evaluating them has no effect, so it does not matter when they are evaluated): the call
    # is replaced by that expression, written with a positive test (`A if not c else B` = `B if c else A`)
    def as_expr(stmts):
        if len(stmts) == 1 and isinstance(stmts[0], ast.Return) and stmts[0].value is not None:
            return stmts[0].value
        if stmts and isinstance(stmts[0], ast.If):
            a = as_expr(stmts[0].body)
            b = as_expr(stmts[0].orelse) if (stmts[0].orelse and len(stmts) == 1) else \
                as_expr(stmts[1:]) if (not stmts[0].orelse and len(stmts) > 1) else None
            if a is not None and b is not None:
                t = stmts[0].test
                if isinstance(t, ast.UnaryOp) and isinstance(t.op, ast.Not):
                    return ast.copy_location(ast.IfExp(test=t.operand, body=b, orelse=a), stmts[0])
                return ast.copy_location(ast.IfExp(test=t, body=a, orelse=b), stmts[0])
        return None

    class CallToExpr(ast.NodeTransformer):
        def visit_Call(self, call):
            self.generic_visit(call)
            h = helper_of(call)
            if h is None or not all(isinstance(a, (ast.Name, ast.Constant)) for a in call.args):
                return call
            body = copy.deepcopy(h.body)
            if body and isinstance(body[0], ast.Expr) and isinstance(body[0].value, ast.Constant) \
                    and isinstance(body[0].value.value, str):
                body = body[1:]
            params = [p.arg for p in h.args.args]
            if any(isinstance(x, ast.Name) and isinstance(x.ctx, (ast.Store, ast.Del)) for b in body for x in ast.walk(b)) \
                    or any(isinstance(x, (ast.NamedExpr, ast.ListComp, ast.SetComp, ast.DictComp, ast.GeneratorExp))
                           for b in body for x in ast.walk(b)):
                return call
            hfree = {x.id for b in body for x in ast.walk(b) if isinstance(x, ast.Name)} - set(params)
            if call.func.id in nested:
                # the arguments must not mention a parameter name that is also free in the closure … (no capture: the
                # substitution is simultaneous and does not revisit what it inserted) and the closure's free names must not
                # be re-bound by the call's own evaluation: they are plain reads
                pass
            elif hfree & caller_locals:
                return call
            e = as_expr(body)
            if e is None:
                return call
            return ast.copy_location(_Subst(dict(zip(params, call.args))).visit(e), call)

    fnode = CallToExpr().visit(fnode)
    # statement-level inlining concerns module-level helpers only
    saved_nested = dict(nested)
    nested.clear()
    fnode.body = rewrite(fnode.body)
    # a nested def all of whose calls were replaced is dropped (its definition has no effect of its own)
    fnode.body = [b for b in fnode.body if not (isinstance(b, ast.FunctionDef) and b.name in saved_nested and not any(
        isinstance(x, ast.Name) and x.id == b.name for x in ast.walk(fnode)))]
    return fnode


def _is_empty_list(n):
    return isinstance(n, ast.List) and not n.elts


def fission_partition_loops(fnode):
    """A loop that partitions a sequence into two fresh lists is written as the two comprehensions:

        P, Q = [], []                 (or `P = []` and `Q = []`, directly before the loop)
        for x in k:                                           P = [eP for x in k if c]
            if c: P.append(eP)              ->                Q = [eQ for x in k if not c]
            else: Q.append(eQ)

    where `k` is a plain name that the loop does not re-bind, `x` occurs nowhere in the function outside this loop (so
    that its value after the loop is not observable), `P`, `Q` occur in none of `c`, `eP`, `eQ`, and one of `eP`, `eQ` is
    the bare loop variable (so that at most one of the two element expressions can raise, and the exception the function
    ends with is the same in both forms).  `c` is evaluated twice per element in the second form: the rule for a
    comprehension condition accepts only conditions without effects (`pure_only`), so a `c` for which that matters makes
    the function untranslatable, not wrongly translated."""
    import copy

    def names_in(n):
        return {x.id for x in ast.walk(n) if isinstance(x, ast.Name)}

    def rewrite(stmts):
        out = []
        for s in stmts:
            for field in ("body", "orelse", "finalbody"):
                if isinstance(getattr(s, field, None), list) and not isinstance(s, (ast.FunctionDef, ast.ClassDef, ast.Lambda)):
                    setattr(s, field, rewrite(getattr(s, field)))
            if isinstance(s, ast.Try):
                for hd in s.handlers:
                    hd.body = rewrite(hd.body)
            done = False
            if isinstance(s, ast.For) and not s.orelse and isinstance(s.target, ast.Name) and isinstance(s.iter, ast.Name) \
                    and len(s.body) == 1 and isinstance(s.body[0], ast.If) and len(s.body[0].body) == 1 \
                    and len(s.body[0].orelse) == 1:
                x, k, br = s.target.id, s.iter.id, s.body[0]

                def app(b):
                    if isinstance(b, ast.Expr) and isinstance(b.value, ast.Call) and isinstance(b.value.func, ast.Attribute) \
                            and b.value.func.attr == "append" and isinstance(b.value.func.value, ast.Name) \
                            and len(b.value.args) == 1 and not b.value.keywords \
                            and not isinstance(b.value.args[0], ast.Starred):
                        return b.value.func.value.id, b.value.args[0]
                    return None
                a1, a2 = app(br.body[0]), app(br.orelse[0])
                if a1 and a2 and a1[0] != a2[0]:
                    (P, eP), (Q, eQ) = a1, a2
                    inside = sum(1 for y in ast.walk(s) if isinstance(y, ast.Name) and y.id == x)
                    total = sum(1 for y in ast.walk(fnode) if isinstance(y, ast.Name) and y.id == x)
                    used = names_in(br.test) | names_in(eP) | names_in(eQ)
                    bare = (isinstance(eP, ast.Name) and eP.id == x) or (isinstance(eQ, ast.Name) and eQ.id == x)
                    # the initialisation directly before the loop
                    ninit = 0
                    if out and isinstance(out[-1], ast.Assign) and len(out[-1].targets) == 1 \
                            and isinstance(out[-1].targets[0], ast.Tuple) and isinstance(out[-1].value, ast.Tuple) \
                            and len(out[-1].value.elts) == 2 and all(_is_empty_list(v) for v in out[-1].value.elts) \
                            and sorted(getattr(t, "id", None) or "" for t in out[-1].targets[0].elts) == sorted([P, Q]):
                        ninit = 1
                    elif len(out) >= 2 and all(isinstance(o, ast.Assign) and len(o.targets) == 1
                                               and isinstance(o.targets[0], ast.Name) and _is_empty_list(o.value)
                                               for o in out[-2:]) \
                            and sorted(o.targets[0].id for o in out[-2:]) == sorted([P, Q]):
                        ninit = 2
                    # `k` is traversed twice in the second form: it must not be a one-shot iterator.  It is bound only as
                    # the target of `for` loops (an element of what the loop iterates) or is a never re-bound parameter
                    # (whose type the registry fixes) — never the result of a call such as `filter(…)` / a generator
                    for_targets = {id(y) for f in ast.walk(fnode) if isinstance(f, ast.For) for y in ast.walk(f.target)}
                    k_ok = all(id(y) in for_targets for y in _stores(fnode, k)) and (_stores(fnode, k) or k in _params(fnode))
                    if ninit and k_ok and inside == total and bare and not ({P, Q, k} & {x}) and not ({P, Q} & (used | {k})) \
                            and k != x and not _stores(s, k) and x not in _params(fnode):
                        del out[-ninit:]
                        for name, elt, test in ((P, eP, br.test),
                                                (Q, eQ, ast.copy_location(ast.UnaryOp(op=ast.Not(), operand=br.test), br.test))):
                            comp = ast.ListComp(elt=copy.deepcopy(elt), generators=[ast.comprehension(
                                target=ast.Name(id=x, ctx=ast.Store()), iter=ast.Name(id=k, ctx=ast.Load()),
                                ifs=[copy.deepcopy(test)], is_async=0)])
                            out.append(ast.copy_location(ast.Assign(
                                targets=[ast.Name(id=name, ctx=ast.Store())], value=comp), s))
                        done = True
            if not done:
                out.append(s)
        return out

    fnode.body = rewrite(fnode.body)
    ast.fix_missing_locations(fnode)
    return fnode


def setcomp_as_call(fnode):
    """`{e for … in …}` -> `set(e for … in …)` (the rule for `set(...)` checks that the builtin is not rebound)"""
    class SC(ast.NodeTransformer):
        def visit_SetComp(self, n):
            self.generic_visit(n)
            return ast.copy_location(ast.Call(func=ast.copy_location(ast.Name(id="set", ctx=ast.Load()), n),
                                              args=[ast.copy_location(ast.GeneratorExp(elt=n.elt, generators=n.generators), n)],
                                              keywords=[]), n)
    f = SC().visit(fnode)
    ast.fix_missing_locations(f)
    return f


def expand_guarded_alias(fnode):
    """A local that only caches the list stored under a key is written back as the lookups it stands for:

        X = o.d.get(K)          (or `.get(K, [])`)                 if o.d.get(K, []):
        if X:                                            ->            … o.d[K] …
            … X …

    where `o`, `K` are names the function never re-binds, `X` is stored only here and read only as this guard and inside
    its body, there as `X.pop()` (a statement), as an `if` test (`X` / `not X`), as `X[…]` or `len(X)` (so the list never
    escapes), the `if` has no else, and up to the last read of `X` the body contains no other call and no mention of `o.d`
    (so that `o.d[K]` is the object `X` at every read: nothing can have re-bound or removed the entry).  `o.d.get(K)` is
    `None` and `o.d.get(K, [])` is `[]` when the key is absent — both falsy; when present both are the stored object."""
    import copy

    def rewrite(stmts):
        out = []
        i = 0
        while i < len(stmts):
            s = stmts[i]
            for field in ("body", "orelse", "finalbody"):
                if isinstance(getattr(s, field, None), list) and not isinstance(s, (ast.FunctionDef, ast.ClassDef, ast.Lambda)):
                    setattr(s, field, rewrite(getattr(s, field)))
            nxt = stmts[i + 1] if i + 1 < len(stmts) else None
            ok = False
            if isinstance(s, ast.Assign) and len(s.targets) == 1 and isinstance(s.targets[0], ast.Name) \
                    and isinstance(s.value, ast.Call) and isinstance(s.value.func, ast.Attribute) and s.value.func.attr == "get" \
                    and not s.value.keywords and len(s.value.args) in (1, 2) and isinstance(s.value.args[0], ast.Name) \
                    and (len(s.value.args) == 1 or _is_empty_list(s.value.args[1])) \
                    and isinstance(s.value.func.value, ast.Attribute) and isinstance(s.value.func.value.value, ast.Name) \
                    and isinstance(nxt, ast.If) and not nxt.orelse and isinstance(nxt.test, ast.Name):
                X, K, d = s.targets[0].id, s.value.args[0].id, s.value.func.value
                o = d.value.id
                ddump = ast.dump(ast.Attribute(value=ast.Name(id=o, ctx=ast.Load()), attr=d.attr, ctx=ast.Load()))
                if nxt.test.id == X and len(_stores(fnode, X)) == 1 and not _stores(fnode, K) and not _stores(fnode, o) \
                        and X not in _params(fnode) and len({X, K, o}) == 3 and not _in_nested_scope(fnode, [X]):
                    body_nodes = [y for b in nxt.body for y in ast.walk(b)]
                    loads = [y for y in ast.walk(fnode) if isinstance(y, ast.Name) and y.id == X and isinstance(y.ctx, ast.Load)]
                    inside = [y for y in body_nodes if isinstance(y, ast.Name) and y.id == X]
                    if len(loads) == len(inside) + 1:
                        # classify the reads of X in the body, in source order
                        allowed = set()
                        for y in body_nodes:
                            if isinstance(y, ast.Expr) and isinstance(y.value, ast.Call) and isinstance(y.value.func, ast.Attribute) \
                                    and y.value.func.attr == "pop" and not y.value.args and not y.value.keywords \
                                    and isinstance(y.value.func.value, ast.Name) and y.value.func.value.id == X:
                                allowed.add(id(y.value.func.value))
                            if isinstance(y, ast.If):
                                t = y.test.operand if isinstance(y.test, ast.UnaryOp) and isinstance(y.test.op, ast.Not) else y.test
                                if isinstance(t, ast.Name) and t.id == X:
                                    allowed.add(id(t))
                            if isinstance(y, ast.Subscript) and isinstance(y.ctx, ast.Load) and isinstance(y.value, ast.Name) \
                                    and y.value.id == X:
                                allowed.add(id(y.value))
                            if isinstance(y, ast.Call) and isinstance(y.func, ast.Name) and y.func.id == "len" \
                                    and len(y.args) == 1 and isinstance(y.args[0], ast.Name) and y.args[0].id == X:
                                allowed.add(id(y.args[0]))
                        pos = lambda y: (getattr(y, "lineno", 0), getattr(y, "col_offset", 0))
                        last = max([pos(y) for y in inside], default=(0, 0))
                        early = [y for y in body_nodes if hasattr(y, "lineno") and pos(y) <= last]
                        clean = all(id(y) in allowed for y in inside) \
                            and not any(isinstance(y, ast.Attribute) and isinstance(y.value, ast.Name)
                                        and ast.dump(ast.Attribute(value=ast.Name(id=y.value.id, ctx=ast.Load()), attr=y.attr,
                                                                   ctx=ast.Load())) == ddump for y in early) \
                            and not any(isinstance(y, ast.Call) and not (
                                (isinstance(y.func, ast.Attribute) and isinstance(y.func.value, ast.Name) and y.func.value.id == X
                                 and y.func.attr == "pop") or (isinstance(y.func, ast.Name) and y.func.id == "len")) for y in early) \
                            and not any(isinstance(y, (ast.Yield, ast.YieldFrom, ast.Await, ast.Lambda, ast.FunctionDef))
                                        for y in body_nodes)
                        if clean and inside:
                            def item():
                                return ast.Subscript(value=ast.Attribute(value=ast.Name(id=o, ctx=ast.Load()), attr=d.attr,
                                                                         ctx=ast.Load()),
                                                     slice=ast.Name(id=K, ctx=ast.Load()), ctx=ast.Load())

                            class R(ast.NodeTransformer):
                                def visit_Name(self, n):
                                    if n.id == X and isinstance(n.ctx, ast.Load):
                                        return ast.copy_location(item(), n)
                                    return n
                            new_if = ast.If(test=ast.Call(func=ast.Attribute(value=copy.deepcopy(d), attr="get", ctx=ast.Load()),
                                                          args=[ast.Name(id=K, ctx=ast.Load()), ast.List(elts=[], ctx=ast.Load())],
                                                          keywords=[]),
                                            body=[R().visit(b) for b in nxt.body], orelse=[])
                            ast.copy_location(new_if, nxt)
                            out.append(new_if)
                            i += 2
                            ok = True
            if not ok:
                out.append(s)
                i += 1
        return out

    fnode.body = rewrite(fnode.body)
    ast.fix_missing_locations(fnode)
    return fnode


def normalize_fn(fnode, entry, module_src=""):
    import copy
    f = copy.deepcopy(fnode)
    for step in entry.get("normalize", ()):
        if step == "helper":
            f = inline_tail_helper(f, module_src, {e["func"] for e in T.REGISTRY if e["file"] == entry["file"]})
            continue
        if step == "pack":
            prefer = [q for q, h in entry.get("typed", {}).items()
                      if isinstance(res(PARAM_TYPES[h]()), TTuple) and len(res(PARAM_TYPES[h]()).elts) == 2]
            f = pack_pairs(f, prefer)
            continue
        f = {"inline": inline_constant_locals, "pack": pack_pairs, "fission": fission_partition_loops,
             "setcomp": setcomp_as_call, "alias": expand_guarded_alias}[step](f)
    ast.fix_missing_locations(f)
    return f


class FnExt(T.Fn):
    def __init__(self, entry, module_src, fnode, done):
        if entry.get("normalize"):
            fnode = normalize_fn(fnode, entry, module_src)          # exact syntactic normalisations (see above)
        T.Fn.__init__(self, entry, module_src, fnode, done)
        self.loop_conts = []

    # ------------------------------------------------------------------ helpers

    def need_dot_import(self, name, node):
        """`name` is bound at module level exactly by `from . import name`"""
        hits = 0
        for s in ast.parse(self.src).body:
            if isinstance(s, ast.ImportFrom):
                for a in s.names:
                    if (a.asname or a.name) == name:
                        hits += 1 if (s.module is None and s.level == 1 and a.asname is None) else 100
            elif isinstance(s, ast.Import):
                hits += 100 * sum(1 for a in s.names if (a.asname or a.name.split(".")[0]) == name)
            elif isinstance(s, (ast.FunctionDef, ast.ClassDef, ast.AsyncFunctionDef)):
                hits += 100 if s.name == name else 0
            else:
                hits += 100 * sum(1 for x in ast.walk(s) if isinstance(x, ast.Name) and isinstance(x.ctx, ast.Store)
                                  and x.id == name)
        if hits != 1:
            raise Untranslatable("%s is not exactly `from . import %s`" % (name, name), node)

    def builtin(self, name, env, node):
        if name in env or name in self.module_names():
            raise Untranslatable("builtin %s is rebound" % name, node)

    def is_sentinel(self, name, env):
        """`name` is a module-private sentinel: bound at module level exactly once, by `name = object()`, and inside this
        function only read as the default of `getattr(o, a, name)` or compared with `is` / `is not`"""
        if name in env:
            return False
        tree = ast.parse(self.src)
        binds = [s for s in tree.body if any(isinstance(x, ast.Name) and x.id == name and isinstance(x.ctx, (ast.Store, ast.Del))
                                             for x in ast.walk(s))
                 or (isinstance(s, (ast.FunctionDef, ast.ClassDef, ast.AsyncFunctionDef)) and s.name == name)
                 or (isinstance(s, (ast.Import, ast.ImportFrom)) and any((a.asname or a.name).split(".")[0] == name for a in s.names))]
        if len(binds) != 1:
            return False
        b = binds[0]
        if not (isinstance(b, ast.Assign) and len(b.targets) == 1 and isinstance(b.targets[0], ast.Name)
                and isinstance(b.value, ast.Call) and isinstance(b.value.func, ast.Name) and b.value.func.id == "object"
                and not b.value.args and not b.value.keywords) or "object" in self.module_names():
            return False
        for f in ast.walk(tree):        # no function of the module re-binds it (global …) or stores it anywhere
            if isinstance(f, (ast.Global, ast.Nonlocal)) and name in f.names:
                return False
        ok_uses = set()
        for x in ast.walk(self.fnode):
            if isinstance(x, ast.Call) and isinstance(x.func, ast.Name) and x.func.id == "getattr" and len(x.args) == 3 \
                    and isinstance(x.args[2], ast.Name) and x.args[2].id == name:
                ok_uses.add(id(x.args[2]))
            if isinstance(x, ast.Compare) and len(x.ops) == 1 and isinstance(x.ops[0], (ast.Is, ast.IsNot)) \
                    and isinstance(x.comparators[0], ast.Name) and x.comparators[0].id == name:
                ok_uses.add(id(x.comparators[0]))
        return all(id(x) in ok_uses for x in ast.walk(self.fnode) if isinstance(x, ast.Name) and x.id == name)

    def if_(self, test, body, orelse, env, cont, ind, flow, node):
        # `if X:` on a local that is None or a natural number: falsy when None and when 0
        #    ==  if X is None: ELSE  else: (if X: BODY else: ELSE)       (X a number in the inner test)
        if isinstance(test, ast.Name) and test.id in env and isinstance(res(env[test.id]), TOpt) \
                and getattr(res(env[test.id]), "sentinel", None) is None and res(res(env[test.id]).elt) is NAT:
            isnone = ast.Compare(left=ast.Name(id=test.id, ctx=ast.Load()), ops=[ast.Is()], comparators=[ast.Constant(value=None)])
            inner = ast.If(test=test, body=body, orelse=orelse)
            for x in (isnone, inner):
                ast.copy_location(x, node)
                ast.fix_missing_locations(x)
            return T.Fn.if_(self, isnone, orelse, [inner], env, cont, ind, flow, node)
        return T.Fn.if_(self, test, body, orelse, env, cont, ind, flow, node)

    def narrowing(self, test, env):
        """`X is S` / `X is not S` for a sentinel S on a local that holds `getattr(o, a, S)`: the sentinel is `none`.
        (`X is None` on such a local is rejected: its `none` is not Python's None.)"""
        if isinstance(test, ast.Compare) and len(test.ops) == 1 and isinstance(test.ops[0], (ast.Is, ast.IsNot)) \
                and isinstance(test.left, ast.Name) and test.left.id in env:
            t = res(env[test.left.id])
            sent = getattr(t, "sentinel", None)
            c = test.comparators[0]
            if isinstance(c, ast.Name) and c.id not in env and sent is not None and c.id == sent:
                return test.left.id, None, isinstance(test.ops[0], ast.IsNot)
            if sent is not None:
                raise Untranslatable("a value that may be the sentinel %s compared with something else" % sent, test)
        return T.Fn.narrowing(self, test, env)

    def mutated(self, stmts):
        """names whose object is mutated by a method call / item statement in the statements, in source order"""
        out = []
        meth = dict(getattr(self, "method_recv", {}))
        for s in stmts:         # `m = getattr(obj, …)`: calling `m` mutates `obj`
            for n in ast.walk(s):
                if isinstance(n, ast.Assign) and len(n.targets) == 1 and isinstance(n.targets[0], ast.Name) \
                        and isinstance(n.value, ast.Call) and isinstance(n.value.func, ast.Name) and n.value.func.id == "getattr" \
                        and n.value.args and isinstance(n.value.args[0], ast.Name):
                    meth[n.targets[0].id] = n.value.args[0].id
        for s in stmts:
            for n in ast.walk(s):
                x = None
                if isinstance(n, ast.Call) and isinstance(n.func, ast.Attribute) and n.func.attr in MUTATING_METHODS \
                        and isinstance(n.func.value, ast.Name):
                    x = n.func.value.id
                elif isinstance(n, (ast.Subscript, ast.Attribute)) and isinstance(n.ctx, (ast.Store, ast.Del)) \
                        and isinstance(n.value, ast.Name):
                    x = n.value.id
                if isinstance(n, ast.Call) and isinstance(n.func, ast.Name) and n.func.id in meth:
                    x = meth[n.func.id]          # a bound method mutates its object
                if x is not None and x not in out:
                    out.append(x)
        return out

    def num_seq(self, n, env):
        """a tuple / list display of numbers (or a conditional expression of such) used as an iterable of numbers"""
        if isinstance(n, ast.IfExp):
            c = self.cond(n.test, env)
            return "(if %s then %s else %s)" % (c, self.num_seq(n.body, env), self.num_seq(n.orelse, env))
        if isinstance(n, (ast.Tuple, ast.List)) and n.elts:
            parts = [self.expr(x, env) for x in n.elts]
            if all(is_num(t) for _, t in parts):
                return "[" + ", ".join(coerce(s, t, RAT, n) for s, t in parts) + "]"
        raise Untranslatable("iterable of numbers that is not a display of numbers", n)

    # ------------------------------------------------------------------ expressions

    def info_sub(self, n, env):
        """`info["key"]` with a literal key on an info dict -> (info name, key) or None"""
        if isinstance(n, ast.Subscript) and isinstance(n.value, ast.Name) and n.value.id in env \
                and res(env[n.value.id]) is INFO and isinstance(n.slice, ast.Constant) and isinstance(n.slice.value, str):
            return mangle(n.value.id), n.slice.value
        return None

    def expr(self, n, env, expected=None):
        exp = res(expected) if expected is not None else None
        if isinstance(n, ast.Constant) and isinstance(n.value, str):
            if '"' in n.value or "\\" in n.value or "\n" in n.value:
                raise Untranslatable("string literal with quotes / escapes", n)
            return '"%s"' % n.value, STR
        if isinstance(n, ast.Tuple) and n.elts and all(isinstance(x, ast.Constant) and isinstance(x.value, str) for x in n.elts):
            return "[" + ", ".join(self.expr(x, env)[0] for x in n.elts) + "]", TList(STR)
        isub = self.info_sub(n, env)
        if isub:
            info, key = isub
            if key == "type":
                return "(Info.kind %s)" % info, KINDT
            if key == "mapping":
                return self.bind("(pyInfoGetMapping %s)" % info, TDict(VAR, NAT), n)
            if key == "num_ancillas":
                return self.bind("(pyInfoGetNum %s)" % info, NAT, n)
            raise Untranslatable("info[%r]" % key, n)
        if isinstance(n, ast.Name) and n.id == "qv" and n.id not in env and isinstance(n.ctx, ast.Load):
            self.need_module_alias("qubovert", "qv", n)
            return "PyModule.top", MODULE                                   # the package itself, as a value
        if isinstance(n, ast.Attribute) and n.attr == "utils" and isinstance(n.value, ast.Name) and n.value.id == "qv" \
                and "qv" not in env and isinstance(n.ctx, ast.Load):
            self.need_module_alias("qubovert", "qv", n)
            return "PyModule.utils", MODULE                                 # qv.utils, as a value
        if isinstance(n, ast.Attribute) and isinstance(n.value, ast.Name) and n.value.id in env \
                and res(env[n.value.id]) is MOBJ and n.attr == "name":
            return "(MObj.name %s)" % mangle(n.value.id), TOpt(STR)
        if isinstance(n, ast.Attribute) and n.attr == "__name__" and isinstance(n.value, ast.Attribute) \
                and n.value.attr == "__class__" and isinstance(n.value.value, ast.Name) and n.value.value.id in env \
                and res(env[n.value.value.id]) is MOBJ:
            return "(MObj.kind %s)" % mangle(n.value.value.id), KINDT       # the class, by its name
        if isinstance(n, ast.Name) and n.id not in env and n.id in VALUE_FUNCS:
            self.need_dot_import(n.id, n)
            return "(pyValueFn Brute.Fn.%s)" % VALUE_FUNCS[n.id], VALUEFN
        if isinstance(n, ast.Dict) and not n.keys:
            if exp is BASSIGN:
                return "([] : Brute.Assign)", BASSIGN
            if exp is ASSOC:
                return "([] : Assoc)", ASSOC
            raise Untranslatable("empty dict display whose type is not known from the context", n)
        if isinstance(n, ast.Dict) and exp is ALLSOLS:
            items = []
            for k, v in zip(n.keys, n.values):
                if k is None:
                    raise Untranslatable("** in a dict display", n)
                sk, tk = self.expr(k, env, TOpt(RAT))
                sv, tv = self.expr(v, env, TList(BASSIGN))
                items.append("(%s, %s)" % (coerce(sk, tk, TOpt(RAT), n), coerce(sv, tv, TList(BASSIGN), n)))
            return "[" + ", ".join(items) + "]", ALLSOLS
        if isinstance(n, ast.List) and n.elts and isinstance(exp, TList) and not isinstance(exp, TDict):
            parts = [self.expr(x, env, exp.elt) for x in n.elts]
            return "[" + ", ".join(coerce(v, u, exp.elt, n) for v, u in parts) + "]", TList(exp.elt)
        if isinstance(n, ast.IfExp) and exp is SOL:
            c = self.cond(n.test, env)
            outs = []
            for br in (n.body, n.orelse):
                hint = BASSIGN if isinstance(br, ast.Dict) else TList(BASSIGN) if isinstance(br, ast.List) else None
                s, t = self.pure_only(lambda br=br, hint=hint: self.expr(br, env, hint), "a conditional expression", n)
                outs.append(coerce(s, t, SOL, n))
            return "(if %s then %s else %s)" % (c, outs[0], outs[1]), SOL
        if isinstance(n, ast.Attribute) and isinstance(n.value, ast.Name) and n.value.id in env \
                and res(env[n.value.id]) is BMODEL:
            obj = mangle(n.value.id)
            if n.attr == "num_binary_variables":
                return self.bind("(pyAttrNumBinaryVariables %s)" % obj, NAT, n)
            if n.attr == "_reverse_mapping":
                return self.bind("(pyAttrReverseMapping %s)" % obj, TDict(NAT, VAR), n)
            extra = "%s_%s" % (n.value.id, n.attr)
            if extra in env:
                return mangle(extra), env[extra]          # e.g. `self.is_solution_valid`: a parameter of the generated function
            raise Untranslatable("attribute .%s of the model object" % n.attr, n)
        if isinstance(n, ast.Attribute) and isinstance(n.value, ast.Name) and n.value.id in env \
                and res(env[n.value.id]) is SYMOBJ:
            if n.attr == "_ancilla":
                return "(Sym.SymObj.anc %s)" % mangle(n.value.id), NAT
            if n.attr == "_constraints":
                return "(Sym.SymObj.cons %s)" % mangle(n.value.id), TDict(REL, TList(COEFDICT))
            raise Untranslatable("attribute .%s of the model object" % n.attr, n)
        if isinstance(n, ast.DictComp):
            return self.dictcomp(n, env)
        if isinstance(n, ast.ListComp) and self.monadic:
            return self.listcomp_m(n, env)
        return T.Fn.expr(self, n, env, expected)

    def listcomp_m(self, n, env):
        """`[e for x in l]` where `e` may raise -> List.mapM (elements evaluated in order, the first exception wins)"""
        g = self.one_generator(n)
        src, et = self.iter_source(g.iter, env)
        lets, env2 = self.bind_target(g.target, et, "_py_it", env)
        (e, te), frame = self.framed(lambda: self.expr(n.elt, env2))
        if not frame:
            return T.Fn.comprehension(self, n, env)
        if g.ifs:
            # `[e for x in l if c]`: the conditions (pure) select the elements first, `e` is evaluated on the selected ones
            c = " ∧ ".join(self.pure_only(lambda i=i: self.cond(i, env2), "a comprehension condition", n) for i in g.ifs)
            src = "(List.filter (fun (_py_it : %s) => %sdecide %s) %s)" % (lean_ty(et), lets, c, src)
        body = self.wrap(frame, "(Except.ok %s)" % e, "        ")
        return self.bind("(List.mapM (fun (_py_it : %s) => %s%s) %s)" % (lean_ty(et), lets, body, src), TList(te), n)

    def dictcomp(self, n, env):
        g = self.one_generator(n)
        if g.ifs:
            raise Untranslatable("filtered dict comprehension", n)
        src, et = self.iter_source(g.iter, env)
        lets, env2 = self.bind_target(g.target, et, "_py_it", env)
        if "_py_d" in env2:
            raise Untranslatable("nested dict comprehension", n)
        (kv, vv), frame = self.framed(lambda: (self.expr(n.key, env2), self.expr(n.value, env2)))   # key first, then value
        (k, tk), (v, tv) = kv, vv
        if res(tk) is VAR and is_num(tv):
            dty, v = BASSIGN, coerce(v, tv, RAT, n)
        else:
            dty = TDict(tk, tv)
        body = self.wrap(frame, "(Except.ok (pyDictPut _py_d %s %s))" % (k, v), "        ")
        act = "(pyForM %s ([] : %s) (fun (_py_d : %s) (_py_it : %s) =>\n        %s%s))" % (
            src, lean_ty(dty), lean_ty(dty), lean_ty(et), lets, body)
        return self.bind(act, dty, n)

    def compare(self, n, env):
        if len(n.ops) == 1 and isinstance(n.ops[0], (ast.Is, ast.IsNot)) and isinstance(n.comparators[0], ast.Constant) \
                and n.comparators[0].value is None and self.info_sub(n.left, env):
            info, key = self.info_sub(n.left, env)
            if key not in ("mapping", "num_ancillas", "constraints"):
                raise Untranslatable("info[%r] is None" % key, n)
            return '((pyInfoHas %s "%s") = %s)' % (info, key, "false" if isinstance(n.ops[0], ast.Is) else "true")
        if len(n.ops) == 1 and isinstance(n.ops[0], (ast.In, ast.NotIn)) and isinstance(n.left, ast.Constant) \
                and isinstance(n.left.value, str) and isinstance(n.comparators[0], ast.Name) and n.comparators[0].id in env \
                and res(env[n.comparators[0].id]) is INFO:
            if n.left.value not in INFO_KEYS:
                raise Untranslatable("%r in info" % n.left.value, n)
            return '((pyInfoHas %s "%s") = %s)' % (mangle(n.comparators[0].id), n.left.value,
                                                 "true" if isinstance(n.ops[0], ast.In) else "false")
        if len(n.ops) == 1 and isinstance(n.ops[0], (ast.In, ast.NotIn)):
            b, tb = self.expr(n.comparators[0], env)
            if res(tb) is BMODEL:
                a, ta = self.expr(n.left, env)
                if res(ta) is not KEY:
                    raise Untranslatable("`in` on the model object with something that is not a tuple of labels", n)
                return "((pyModelHasKey %s %s) = %s)" % (b, a, "true" if isinstance(n.ops[0], ast.In) else "false")
            if res(tb) in (VARSET, ASSOC):
                a, ta = self.expr(n.left, env)
                if res(ta) is not VAR:
                    raise Untranslatable("`in` with something that is not a label", n)
                return "((%s %s %s) = %s)" % ("pyUIn" if res(tb) is VARSET else "pyAssocIn", b, a,
                                             "true" if isinstance(n.ops[0], ast.In) else "false")
            raise Untranslatable("`in` on a %s" % lean_ty(tb), n)
        return T.Fn.compare(self, n, env)

    def truth(self, n, env, positive):
        isub = self.info_sub(n, env)
        if isub and isub[1] == "num_ancillas":
            return "((pyInfoNumTruthy %s) = %s)" % (isub[0], "true" if positive else "false")
        if isinstance(n, ast.Name) and n.id in env:
            t = res(env[n.id])
            if t is BMODEL:
                return "((pyModelEmpty %s) = %s)" % (mangle(n.id), "false" if positive else "true")
            if t is PSET:
                return "(%s %s [])" % (mangle(n.id), "≠" if positive else "=")
        return None

    def cond(self, n, env):
        return self.truth(n, env, True) or T.Fn.cond(self, n, env)

    def negation(self, n, env):
        return self.truth(n, env, False) or T.Fn.negation(self, n, env)

    def subscript(self, n, env):
        if isinstance(n.value, ast.Name) and n.value.id in env and not isinstance(n.slice, ast.Slice):
            tv = res(env[n.value.id])
            if isinstance(tv, TDict):
                i, ti = self.expr(n.slice, env)
                return self.bind("(pyDictGetItem %s %s)" % (mangle(n.value.id), coerce(i, ti, tv.k, n)), tv.v, n)
            if tv is ASSOC:
                i, ti = self.expr(n.slice, env)
                if res(ti) is not VAR:
                    raise Untranslatable("dict indexed by something that is not a label", n)
                return self.bind("(pyAssocGetItem %s %s)" % (mangle(n.value.id), i), RAT, n)
            if tv is ALLSOLS:
                i, ti = self.expr(n.slice, env)
                return self.bind("(pyDictGetItem %s %s)" % (mangle(n.value.id), coerce(i, ti, TOpt(RAT), n)),
                                 TList(BASSIGN), n)
        return T.Fn.subscript(self, n, env)

    def iter_source(self, n, env):
        if isinstance(n, ast.Call) and isinstance(n.func, ast.Attribute) and n.func.attr == "items" and not n.args \
                and not n.keywords and isinstance(n.func.value, ast.Name) and n.func.value.id in env \
                and res(env[n.func.value.id]) is RAWCONT:
            return "(pyRawItems %s)" % mangle(n.func.value.id), TTuple([TOpt(KEY), RAT])
        if isinstance(n, ast.Call) and isinstance(n.func, ast.Attribute) and n.func.attr == "items" and not n.args \
                and not n.keywords:
            v, tv = self.expr(n.func.value, env)
            if res(tv) is COEFDICT:
                return v, TTuple([KEY, PYCOEF])
            if isinstance(res(tv), TDict):
                return v, res(tv).elt
        if isinstance(n, ast.Name) and n.id in env:
            t = res(env[n.id])
            if t is BMODEL:
                return "(List.map Prod.fst (pyModelItems %s))" % mangle(n.id), KEY       # iterating a dict gives its keys
            if t is PSET:
                self.need_ord(n)
                return "(pySetIter _py_ord %s)" % mangle(n.id), VAR
        return T.Fn.iter_source(self, n, env)

    def need_ord(self, node):
        if not self.e.get("set_order"):
            raise Untranslatable("iteration over a set in a function not registered with set_order", node)

    def call(self, n, env):
        f = n.func
        if isinstance(f, ast.Name) and f.id in env and res(env[f.id]) in (VALIDFN, VALUEFN):
            if n.keywords or any(isinstance(a, ast.Starred) for a in n.args):
                raise Untranslatable("call of a function parameter with keyword / starred arguments", n)
            if res(env[f.id]) is VALIDFN and len(n.args) == 1:
                a, ta = self.expr(n.args[0], env)
                return "(%s %s)" % (mangle(f.id), coerce(a, ta, BASSIGN, n)), BOOL
            if res(env[f.id]) is VALUEFN and len(n.args) == 2:
                a, ta = self.expr(n.args[0], env)
                b, tb = self.expr(n.args[1], env)
                return self.bind("(%s %s %s)" % (mangle(f.id), coerce(a, ta, BASSIGN, n), coerce(b, tb, POLY, n)), RAT, n)
            raise Untranslatable("call of the function parameter %s with %d arguments" % (f.id, len(n.args)), n)
        if isinstance(f, ast.Attribute) and isinstance(f.value, ast.Name) and f.value.id == "itertools" \
                and f.value.id not in env and f.attr == "product":
            self.need_module_alias("itertools", "itertools", n)
            if len(n.args) != 1 or [k.arg for k in n.keywords] != ["repeat"]:
                raise Untranslatable("itertools.product other than product(dom, repeat=n)", n)
            dom = self.num_seq(n.args[0], env)
            r, tr = self.expr(n.keywords[0].value, env)
            return "(pyProduct %s %s)" % (dom, self.as_nat(r, tr, "repeat=", n)), TList(TList(RAT))
        if isinstance(f, ast.Name) and f.id == "dict" and not n.args and [k.arg for k in n.keywords] == ["type", "terms", "name"]:
            self.builtin("dict", env, n)
            vals = [self.expr(k.value, env) for k in n.keywords]
            if res(vals[0][1]) is KINDT and res(vals[1][1]) is POLY and same(vals[2][1], TOpt(STR)):
                return "(pyInfoNew %s %s %s)" % (vals[0][0], vals[1][0], vals[2][0]), INFO
            raise Untranslatable("dict(type=…, terms=…, name=…) with these value types", n)
        if isinstance(f, ast.Name) and f.id == "dict" and len(n.args) == 1 and not n.keywords and isinstance(n.args[0], ast.Name) \
                and n.args[0].id in env and res(env[n.args[0].id]) is MOBJ:
            self.builtin("dict", env, n)
            return "(MObj.terms %s)" % mangle(n.args[0].id), POLY             # dict(model): its terms
        if isinstance(f, ast.Name) and f.id == "getattr" and len(n.args) == 3 and not n.keywords \
                and isinstance(n.args[0], ast.Name) and n.args[0].id in env and res(env[n.args[0].id]) is MOBJ \
                and isinstance(n.args[2], ast.Name) and self.is_sentinel(n.args[2].id, env):
            # getattr(model, attr, S): the attribute when the object has it, else the sentinel S (read as `none`)
            self.builtin("getattr", env, n)
            sa, ta = self.expr(n.args[1], env)
            if res(ta) is not STR:
                raise Untranslatable("getattr with a non-string attribute name", n)
            o = mangle(n.args[0].id)
            ty = TOpt(INFOVAL)
            ty.sentinel = n.args[2].id
            return "(if (pyHasAttr %s %s) = true then some (pyGetAttr %s %s) else none)" % (o, sa, o, sa), ty
        if isinstance(f, ast.Name) and f.id in ("hasattr", "getattr") and len(n.args) == 2 and not n.keywords:
            self.builtin(f.id, env, n)
            o, a = n.args
            if isinstance(o, ast.Name) and o.id in env and res(env[o.id]) is MOBJ:
                sa, ta = self.expr(a, env)
                if res(ta) is not STR:
                    raise Untranslatable("%s with a non-string attribute name" % f.id, n)
                if f.id == "hasattr":
                    return "(pyHasAttr %s %s)" % (mangle(o.id), sa), BOOL
                return "(pyGetAttr %s %s)" % (mangle(o.id), sa), INFOVAL
            if f.id == "getattr" and isinstance(o, ast.Name) and o.id in env and res(env[o.id]) is MODULE:
                sa, ta = self.expr(a, env)
                if res(ta) is not KINDT:
                    raise Untranslatable("getattr(module, x) with x not a class name", n)
                return "(pyModuleClass %s %s)" % (mangle(o.id), sa), KINDT      # the class named t, looked up in that module
            # getattr(qv.utils, t) / getattr(qv, t) / hasattr(qv.utils, t): the class named t
            mod = o.value if isinstance(o, ast.Attribute) and o.attr == "utils" else o
            if isinstance(mod, ast.Name) and mod.id == "qv" and mod.id not in env:
                self.need_module_alias("qubovert", "qv", n)
                sa, ta = self.expr(a, env)
                if res(ta) is not KINDT:
                    raise Untranslatable("%s(qv…, x) with x not a class name" % f.id, n)
                if f.id == "hasattr":
                    return "(Kind.isMatrix %s)" % sa, BOOL            # qubovert.utils holds the Matrix classes
                return sa, KINDT
            raise Untranslatable("%s with these arguments" % f.id, n)
        if isinstance(f, ast.Name) and f.id in env and res(env[f.id]) is KINDT and len(n.args) == 1 and not n.keywords:
            a, ta = self.expr(n.args[0], env)
            return self.bind("(pyUConstruct %s %s)" % (mangle(f.id), coerce(a, ta, POLY, n)), MOBJ, n)     # cls(terms)
        if isinstance(f, ast.Call) and isinstance(f.func, ast.Name) and f.func.id == "getattr" and len(n.args) == 1 \
                and not n.keywords and not isinstance(n.args[0], ast.Starred):
            c, tc = self.expr(f, env)                                      # the callee is evaluated first
            if res(tc) is KINDT:
                a, ta = self.expr(n.args[0], env)
                return self.bind("(pyUConstruct %s %s)" % (c, coerce(a, ta, POLY, n)), MOBJ, n)            # getattr(m, t)(terms)
            raise Untranslatable("call of getattr(…) that is not a class", n)
        if isinstance(f, ast.Attribute) and f.attr == "get" and len(n.args) == 1 and not n.keywords \
                and isinstance(f.value, ast.Name) and f.value.id in env and res(env[f.value.id]) is INFO \
                and isinstance(n.args[0], ast.Constant):
            # info.get(key): None when the key is absent (an optional key absent or None is `none` in the record Info)
            key, info = n.args[0].value, mangle(f.value.id)
            if key == "name":
                return "(Info.name %s)" % info, TOpt(STR)
            if key == "mapping":
                return "(Info.mapping %s)" % info, TOpt(TDict(VAR, NAT))
            if key == "num_ancillas":
                return "(Info.numAncillas %s)" % info, TOpt(NAT)
            raise Untranslatable("info.get(%r)" % (key,), n)
        if isinstance(f, ast.Attribute) and f.attr == "get" and len(n.args) == 2 and not n.keywords \
                and isinstance(f.value, ast.Name) and f.value.id in env and res(env[f.value.id]) is INFO \
                and isinstance(n.args[0], ast.Constant):
            key, dflt = n.args[0].value, n.args[1]
            info = mangle(f.value.id)
            if key == "terms" and isinstance(dflt, ast.Dict) and not dflt.keys:
                return "(Info.terms %s)" % info, POLY
            if key == "name" and isinstance(dflt, ast.Constant) and dflt.value is None:
                return "(Info.name %s)" % info, TOpt(STR)
            if key == "constraints" and isinstance(dflt, ast.Dict) and not dflt.keys:
                return "(pyInfoConstraintItems %s)" % info, TDict(REL, TList(POLY))
            raise Untranslatable("info.get(%r, …)" % (key,), n)
        if isinstance(f, ast.Attribute) and f.attr == "subs" and self.e.get("subst"):
            va, kw = self.e["subst"]
            if not (len(n.args) == 1 and isinstance(n.args[0], ast.Starred) and isinstance(n.args[0].value, ast.Name)
                    and n.args[0].value.id == va and len(n.keywords) == 1 and n.keywords[0].arg is None
                    and isinstance(n.keywords[0].value, ast.Name) and n.keywords[0].value.id == kw):
                raise Untranslatable(".subs called with other than (*%s, **%s)" % (va, kw), n)
            recv = f.value
            if isinstance(recv, ast.Call) and isinstance(recv.func, ast.Name) and recv.func.id == "super":
                # super(self.__class__, self).subs(…): DictArithmetic.subs applied to this object
                self.builtin("super", env, n)
                a = recv.args
                if not (len(a) == 2 and not recv.keywords and isinstance(a[1], ast.Name) and a[1].id in env
                        and res(env[a[1].id]) is SYMOBJ and isinstance(a[0], ast.Attribute) and a[0].attr == "__class__"
                        and isinstance(a[0].value, ast.Name) and a[0].value.id == a[1].id):
                    raise Untranslatable("super(…) other than super(self.__class__, self)", n)
                callee = self.done.get("DictArithmetic.subs")
                if callee is None or callee["status"] != "translated":
                    raise Untranslatable("DictArithmetic.subs is not translated", n)
                m, _ = self.bind("(%s (Sym.SymObj.terms %s) _py_subst)" % (callee["lean"], mangle(a[1].id)), COEFDICT, n)
                return "(pyObjOfSubs %s)" % m, SYMOBJ
            r, tr = self.expr(recv, env)
            if res(tr) is PYCOEF:
                return self.bind("(pySubs _py_subst %s)" % r, SUBSRES, n)
            if res(tr) is COEFDICT:
                callee = self.done.get("DictArithmetic.subs")
                if callee is None or callee["status"] != "translated":
                    raise Untranslatable("DictArithmetic.subs is not translated", n)
                return self.bind("(%s %s _py_subst)" % (callee["lean"], r), COEFDICT, n)
            raise Untranslatable(".subs of a %s" % lean_ty(tr), n)
        if isinstance(f, ast.Name) and f.id == "float" and len(n.args) == 1 and not n.keywords:
            a, ta = self.expr(n.args[0], env)
            if res(ta) is SUBSRES:
                self.builtin("float", env, n)
                return self.bind("(pyFloatOfSubs %s)" % a, RAT, n)
            raise Untranslatable("float() of a %s" % lean_ty(ta), n)
        if isinstance(f, ast.Attribute) and f.attr == "__class__" and isinstance(f.value, ast.Name) and f.value.id in env \
                and res(env[f.value.id]) is COEFDICT and not n.args and not n.keywords:
            return "(pyNewSame %s)" % mangle(f.value.id), COEFDICT           # self.__class__()
        if isinstance(f, ast.Call) and isinstance(f.func, ast.Name) and f.func.id == "type" and len(f.args) == 1 \
                and not f.keywords and not n.args and not n.keywords:
            self.builtin("type", env, n)
            a, ta = self.expr(f.args[0], env)
            if res(ta) is RAWCONT:
                return "(pyNewLike %s)" % a, CONT                    # type(G)()
            raise Untranslatable("type(x)() of a %s" % lean_ty(ta), n)
        if isinstance(f, ast.Attribute) and f.attr == "get" and len(n.args) == 2 and not n.keywords \
                and isinstance(f.value, ast.Name) and f.value.id in env and res(env[f.value.id]) in (CONT, ASSOC):
            k, tk = self.expr(n.args[0], env)
            d, td = self.expr(n.args[1], env)
            if res(env[f.value.id]) is CONT and res(tk) is KEY:
                return "(pyContGet %s %s %s)" % (mangle(f.value.id), k, coerce(d, td, RAT, n)), RAT
            if res(env[f.value.id]) is ASSOC and res(tk) is VAR:
                return "(pyAssocGet %s %s %s)" % (mangle(f.value.id), k, coerce(d, td, RAT, n)), RAT
            raise Untranslatable(".get with a key of type %s" % lean_ty(tk), n)
        if isinstance(f, ast.Attribute) and isinstance(f.value, ast.Name) and f.value.id == "np" and f.value.id not in env \
                and f.attr == "prod" and len(n.args) == 1 and not n.keywords:
            self.need_module_alias("numpy", "np", n)
            l, tl = self.list_like(n.args[0], env)
            if isinstance(res(tl), TList) and is_num(res(tl).elt):
                if res(res(tl).elt) is not RAT:
                    raise Untranslatable("np.prod of a list of ints", n)
                return "(pyProd %s)" % l, RAT
            raise Untranslatable("np.prod of a %s" % lean_ty(tl), n)
        if isinstance(f, ast.Name) and f.id == "filter" and len(n.args) == 2 and not n.keywords \
                and isinstance(n.args[0], ast.Lambda):
            self.builtin("filter", env, n)
            lam = n.args[0]
            a = lam.args
            if len(a.args) != 1 or a.vararg or a.kwarg or a.kwonlyargs or a.defaults or a.posonlyargs:
                raise Untranslatable("lambda with other than one plain parameter", lam)
            src, ts = self.expr(n.args[1], env)
            if res(ts) is not KEY:
                raise Untranslatable("filter over a %s" % lean_ty(ts), n)
            env2 = dict(env)
            env2[a.args[0].arg] = VAR
            c = self.pure_only(lambda: self.cond(lam.body, env2), "a lambda", lam)
            return "(List.filter (fun (%s : Var) => decide %s) %s)" % (mangle(a.args[0].arg), c, src), KEY
        if isinstance(f, ast.Name) and f.id == "tuple" and len(n.args) == 1 and not n.keywords \
                and isinstance(n.args[0], ast.GeneratorExp):
            # tuple(x for x in k if c) over a key: the labels of k that satisfy c, in order
            g = self.one_generator(n.args[0])
            src, ts = self.expr(g.iter, env)
            if res(ts) is KEY and isinstance(g.target, ast.Name) and isinstance(n.args[0].elt, ast.Name) \
                    and n.args[0].elt.id == g.target.id and g.target.id not in env:
                self.builtin("tuple", env, n)
                env2 = dict(env)
                env2[g.target.id] = VAR
                cs = [self.pure_only(lambda i=i: self.cond(i, env2), "a generator expression", n) for i in g.ifs]
                if not cs:
                    return src, KEY
                return "(List.filter (fun (%s : Var) => decide %s) %s)" % (mangle(g.target.id), " ∧ ".join(cs), src), KEY
            raise Untranslatable("tuple() of this generator expression", n)
        if isinstance(f, ast.Name) and f.id == "tuple" and len(n.args) == 1 and not n.keywords:
            a, ta = self.expr(n.args[0], env)
            if res(ta) is KEY or (isinstance(res(ta), TList) and not isinstance(res(ta), TDict) and res(res(ta).elt) is VAR):
                self.builtin("tuple", env, n)
                return a, KEY                                        # tuple(it) of labels: the same sequence
            return T.Fn.call(self, n, env)
        if isinstance(f, ast.Name) and not n.keywords:
            name, args = f.id, n.args
            if name == "set" and len(args) == 0:
                self.builtin(name, env, n)
                return "pySetEmpty", PSET
            if name == "set" and len(args) == 1:
                a, ta = self.expr(args[0], env)
                if res(ta) is KEY:
                    self.builtin(name, env, n)
                    return "(pySetOfList %s)" % a, PSET
                return T.Fn.call(self, n, env)
            if name == "len" and len(args) == 1 and isinstance(args[0], ast.Name) and args[0].id in env \
                    and res(env[args[0].id]) is PSET:
                self.builtin(name, env, n)
                return "(pySetLen %s)" % mangle(args[0].id), NAT
            if name == "enumerate" and len(args) == 1:
                self.builtin(name, env, n)
                if isinstance(args[0], ast.Name) and args[0].id in env and res(env[args[0].id]) is PSET:
                    self.need_ord(n)
                    return "(pyUEnumerate (pySetIter _py_ord %s))" % mangle(args[0].id), TList(TTuple([NAT, VAR]))
                a, ta = self.expr(args[0], env)
                if isinstance(res(ta), TList) and not isinstance(res(ta), TDict):
                    return "(pyUEnumerate %s)" % a, TList(TTuple([NAT, res(ta).elt]))
                raise Untranslatable("enumerate of a %s" % lean_ty(ta), n)
            if name == "zip" and len(args) == 2:
                # zip(a, b) of two lists: the pairs of elements at equal positions, as many as the shorter list has
                self.builtin(name, env, n)
                (a, ta), (b, tb) = self.expr(args[0], env), self.expr(args[1], env)
                ta, tb = res(ta), res(tb)
                if isinstance(ta, TList) and isinstance(tb, TList) and not isinstance(ta, TDict) and not isinstance(tb, TDict):
                    return "(List.zip %s %s)" % (a, b), TList(TTuple([ta.elt, tb.elt]))
                raise Untranslatable("zip of a %s and a %s" % (lean_ty(ta), lean_ty(tb)), n)
            if name == "dict" and len(args) == 1:
                self.builtin(name, env, n)
                a, ta = self.expr(args[0], env)
                ta = res(ta)
                if isinstance(ta, TList) and isinstance(res(ta.elt), TTuple) and len(res(ta.elt).elts) == 2:
                    k, v = res(ta.elt).elts
                    if res(k) is VAR and res(v) is RAT:
                        return "(pyUDictOfPairs %s)" % a, BASSIGN          # a dict label -> number: an assignment
                    return "(pyUDictOfPairs %s)" % a, TDict(k, v)
                raise Untranslatable("dict() of a %s" % lean_ty(ta), n)
        return T.Fn.call(self, n, env)

    def call_registered(self, name, n, env):
        callee = self.done[name]
        ce = ENTRY_BY_LEAN.get(callee.get("lean"))
        if ce is None or not (ce.get("set_order") or ce.get("mutates")):
            return T.Fn.call_registered(self, name, n, env)
        if callee["status"] != "translated":
            raise Untranslatable("call of %s, which is itself %s" % (name, callee["status"]), n)
        if not self.monadic:
            raise Untranslatable("call of a function that may raise", n)
        tree = ast.parse(self.src)
        defined = any(isinstance(s, ast.FunctionDef) and s.name == name for s in tree.body)
        imported = any(isinstance(s, ast.ImportFrom) and any(a.name == name and a.asname is None for a in s.names)
                       for s in tree.body)
        if defined == imported:
            raise Untranslatable("cannot resolve %s to the registered function" % name, n)
        if defined and callee["file"] != self.e["file"]:
            raise Untranslatable("%s is a different function in this module" % name, n)
        if n.keywords:
            raise Untranslatable("keyword arguments", n)
        args = self.pass_args(name, n, env, callee["param_tys"], False)
        if ce.get("set_order"):
            self.need_ord(n)
            args.append("_py_ord")
        m, ty = self.bind("(%s %s)" % (callee["lean"], " ".join(args)), callee["ret_ty"], n)
        if not ce.get("mutates"):
            return m, ty
        (p,) = ce["mutates"]
        idx = [q for q, _ in ce["params"]].index(p)
        arg = n.args[idx]
        if not (isinstance(arg, ast.Name) and arg.id in env and res(env[arg.id]) is BMODEL):
            raise Untranslatable("the object %s mutates is not passed as a plain name" % name, n)
        # after the call the caller's object is the one the callee left
        self.pend[-1].append((mangle(arg.id), BMODEL, "(Except.ok %s.2 : Except Err Brute.Model)" % m))
        return m + ".1", res(ty).elts[0]

    # ------------------------------------------------------------------ statements

    def ret(self, s, env):
        mut = self.e.get("mutates")
        if not mut:
            return T.Fn.ret(self, s, env)
        if s.value is None or self.ret_ty is None:
            raise Untranslatable("bare return / undeclared return type in a function that mutates its argument", s)
        inner = res(self.ret_ty).elts[0]
        v, t = self.expr(s.value, env, inner)
        v = coerce(v, t, inner, s)
        self.ret_seen.append(self.ret_ty)
        return "(%s, %s)" % (v, mangle(mut[0]))

    def assign(self, target, value, env, cont, pad, node):
        if isinstance(target, ast.Name) and target.id in self.e.get("typed", {}):
            hint = PARAM_TYPES[self.e["typed"][target.id]]()
            v, t = self.expr(value, env, hint)
            if res(t) is PROP:
                v, t = coerce(v, PROP, BOOL), BOOL
            env2 = dict(env)
            env2[target.id] = t
            return "let %s : %s := %s;\n%s%s" % (mangle(target.id), lean_ty(t), v, pad, cont(env2))
        return T.Fn.assign(self, target, value, env, cont, pad, node)

    def stmt(self, stmts, env, k, ind, flow):
        s, rest = stmts[0], stmts[1:]
        pad = " " * ind

        def cont(env2):
            return self.block(rest, env2, k, ind, flow)

        if isinstance(s, ast.Continue):
            if rest:
                raise Untranslatable("statement after continue", rest[0])
            if not self.loop_conts:
                raise Untranslatable("continue outside a translated loop", s)
            return self.loop_conts[-1](env)
        if isinstance(s, ast.Try):
            return self.try_(s, env, cont, ind)
        if isinstance(s, ast.If) and rest and self.e.get("join_points") and flow is None and not self.loop_conts \
                and self.ret_ty is not None:
            # the statements after the `if` are rendered ONCE, as a local function of the locals the branches may
            # change (a join point); each branch that falls through ends with a call of it
            names = []
            for x in self.assigned([s]) + self.mutated([s]):
                if x in env and res(env[x]) is not OPAQUE and x not in names:
                    names.append(x)
            tys = [env[x] for x in names]
            self.njoin = getattr(self, "njoin", 0) + 1
            kname = "_py_k%d" % self.njoin
            body_k = self.block(rest, env, k, ind + 4, flow)
            rty = lean_ty(self.ret_ty, False)
            if self.raises:
                rty = "Except Err %s" % rty
            fty = " → ".join([lean_ty(t, False) for t in tys] + [rty]) if names else "Unit → " + rty
            binders = " ".join("(%s : %s)" % (mangle(x), lean_ty(t)) for x, t in zip(names, tys)) if names else "(_ : Unit)"

            def join(env2):
                if not names:
                    return "(%s ())" % kname
                return "(%s %s)" % (kname, " ".join(coerce(mangle(x), env2[x], t, s) for x, t in zip(names, tys)))

            saved, nb = [list(fr) for fr in self.pend], self.nbind
            try:
                text_if = self.if_(s.test, s.body, s.orelse, env, join, ind, flow, s)
                return "let %s : %s := fun %s =>\n%s    %s;\n%s%s" % (kname, fty, binders, pad, body_k, pad, text_if)
            except Untranslatable:
                # a branch leaves a local with another type (e.g. `best = best[0], all_sols[best[0]]`): no join point,
                # the continuation is rendered in each branch (the base rule)
                self.pend[:] = saved
                self.nbind = nb
        # offset = D.pop(k)
        if isinstance(s, ast.Assign) and len(s.targets) == 1 and isinstance(s.targets[0], ast.Name) \
                and isinstance(s.value, ast.Call) and isinstance(s.value.func, ast.Attribute) and s.value.func.attr == "pop" \
                and isinstance(s.value.func.value, ast.Name) and s.value.func.value.id in env \
                and res(env[s.value.func.value.id]) is BMODEL:
            c = s.value
            if len(c.args) != 1 or c.keywords:
                raise Untranslatable("pop on the model object with a default", s)
            d = c.func.value.id
            key, tk = self.expr(c.args[0], env)
            if res(tk) is not KEY:
                raise Untranslatable("pop on the model object with a key that is not a tuple of labels", s)
            m, _ = self.bind("(pyModelPop %s %s)" % (mangle(d), key), TTuple([RAT, BMODEL]), s)
            env2 = dict(env)
            env2[s.targets[0].id] = RAT
            return "let %s : Rat := %s.1;\n%slet %s : Brute.Model := %s.2;\n%s%s" % (
                mangle(s.targets[0].id), m, pad, mangle(d), m, pad, cont(env2))
        # D[()] = e
        if isinstance(s, ast.Assign) and len(s.targets) == 1 and isinstance(s.targets[0], ast.Subscript) \
                and isinstance(s.targets[0].value, ast.Name) and s.targets[0].value.id in env \
                and res(env[s.targets[0].value.id]) is BMODEL:
            t0 = s.targets[0]
            if not (isinstance(t0.slice, ast.Tuple) and not t0.slice.elts):
                raise Untranslatable("item assignment on the model object with a key other than ()", s)
            v, tv = self.expr(s.value, env)
            d = mangle(t0.value.id)
            return "let %s : Brute.Model := (pyModelSetOffset %s %s);\n%s%s" % (d, d, coerce(v, tv, RAT, s), pad, cont(env))
        # if not isinstance(k, tuple): raise E     (k: a key that may fail to be a tuple)
        if isinstance(s, ast.If) and not s.orelse and len(s.body) == 1 and isinstance(s.body[0], ast.Raise) \
                and isinstance(s.test, ast.UnaryOp) and isinstance(s.test.op, ast.Not) and isinstance(s.test.operand, ast.Call) \
                and isinstance(s.test.operand.func, ast.Name) and s.test.operand.func.id == "isinstance" \
                and len(s.test.operand.args) == 2 and isinstance(s.test.operand.args[0], ast.Name) \
                and isinstance(s.test.operand.args[1], ast.Name) and s.test.operand.args[1].id == "tuple" \
                and s.test.operand.args[0].id in env and isinstance(res(env[s.test.operand.args[0].id]), TOpt) \
                and res(res(env[s.test.operand.args[0].id]).elt) is KEY:
            self.builtin("isinstance", env, s)
            self.builtin("tuple", env, s)
            x = s.test.operand.args[0].id
            r = s.body[0]
            name = r.exc.func.id if isinstance(r.exc, ast.Call) and isinstance(r.exc.func, ast.Name) else \
                r.exc.id if isinstance(r.exc, ast.Name) else None
            if name not in EXC or r.cause is not None or name in self.module_names():
                raise Untranslatable("raise of something that is not a builtin exception of the model's enum", r)
            env2 = dict(env)
            env2[x] = KEY
            return "(match %s with\n%s| none => (Except.error %s)\n%s| some _py_some =>\n%s    let %s : Key := _py_some;\n%s    %s)" % (
                mangle(x), pad, EXC[name], pad, pad, mangle(x), pad, self.block(rest, env2, k, ind + 4, flow))
        # D[key] = e   on the container under construction
        if isinstance(s, ast.Assign) and len(s.targets) == 1 and isinstance(s.targets[0], ast.Subscript) \
                and isinstance(s.targets[0].value, ast.Name) and s.targets[0].value.id in env \
                and res(env[s.targets[0].value.id]) is CONT:
            t0 = s.targets[0]
            key, tk = self.expr(t0.slice, env)
            if res(tk) is not KEY:
                raise Untranslatable("item assignment with a key that is not a tuple of labels", s)
            v, tv = self.expr(s.value, env)
            d = mangle(t0.value.id)
            m, _ = self.bind("(pyContSetItem %s %s %s)" % (d, key, coerce(v, tv, RAT, s)), CONT, s)
            return "let %s : PyCont := %s;\n%s%s" % (d, m, pad, cont(env))
        # D.pop(key, d)   as a statement
        if isinstance(s, ast.Expr) and isinstance(s.value, ast.Call) and isinstance(s.value.func, ast.Attribute) \
                and s.value.func.attr == "pop" and isinstance(s.value.func.value, ast.Name) \
                and s.value.func.value.id in env and res(env[s.value.func.value.id]) is CONT:
            c = s.value
            if len(c.args) != 2 or c.keywords:
                raise Untranslatable("pop on the container without a default", s)
            key, tk = self.expr(c.args[0], env)
            if res(tk) is not KEY:
                raise Untranslatable("pop with a key that is not a tuple of labels", s)
            self.pure_only(lambda: self.expr(c.args[1], env), "the default of pop", s)
            d = mangle(c.func.value.id)
            return "let %s : PyCont := (pyContPopDefault %s %s);\n%s%s" % (d, d, key, pad, cont(env))
        # res.update((k, v) for x in src if c)   on an info dict (a builtin dict: `dict(type=…, …)`): the pairs are consumed
        # one by one, each stored with res[k] = v before the next is produced  ==  for x in src: if c: res[k] = v
        if isinstance(s, ast.Expr) and isinstance(s.value, ast.Call) and isinstance(s.value.func, ast.Attribute) \
                and s.value.func.attr == "update" and isinstance(s.value.func.value, ast.Name) \
                and s.value.func.value.id in env and res(env[s.value.func.value.id]) is INFO:
            c = s.value
            if len(c.args) != 1 or c.keywords or not isinstance(c.args[0], ast.GeneratorExp):
                raise Untranslatable("dict.update with other than one generator expression", s)
            g = self.one_generator(c.args[0])
            elt = c.args[0].elt
            if not (isinstance(elt, ast.Tuple) and len(elt.elts) == 2 and not any(isinstance(x, ast.Starred) for x in elt.elts)):
                raise Untranslatable("dict.update with a generator of something else than pairs", s)
            d = c.func.value.id
            if any(isinstance(x, ast.Name) and x.id == d for x in ast.walk(c.args[0])):
                raise Untranslatable("dict.update with a generator that reads the dict", s)
            store = ast.Assign(targets=[ast.Subscript(value=ast.Name(id=d, ctx=ast.Load()), slice=elt.elts[0], ctx=ast.Store())],
                               value=elt.elts[1])
            body = [store]
            if g.ifs:
                test = g.ifs[0] if len(g.ifs) == 1 else ast.BoolOp(op=ast.And(), values=list(g.ifs))
                body = [ast.If(test=test, body=[store], orelse=[])]
            loop = ast.For(target=g.target, iter=g.iter, body=body, orelse=[])
            ast.copy_location(loop, s)
            ast.fix_missing_locations(loop)
            return self.stmt([loop] + list(rest), env, k, ind, flow)
        # res[attr] = value   on an info dict
        if isinstance(s, ast.Assign) and len(s.targets) == 1 and isinstance(s.targets[0], ast.Subscript) \
                and isinstance(s.targets[0].value, ast.Name) and s.targets[0].value.id in env \
                and res(env[s.targets[0].value.id]) is INFO:
            t0 = s.targets[0]
            key, tk = self.expr(t0.slice, env)
            v, tv = self.expr(s.value, env)
            if res(tk) is not STR or res(tv) is not INFOVAL:
                raise Untranslatable("info[…] = … with these types", s)
            d = mangle(t0.value.id)
            return "let %s : Info := (pyInfoSetItem %s %s %s);\n%s%s" % (d, d, key, v, pad, cont(env))
        # model.name = e / model._ancilla = e
        if isinstance(s, ast.Assign) and len(s.targets) == 1 and isinstance(s.targets[0], ast.Attribute) \
                and isinstance(s.targets[0].value, ast.Name) and s.targets[0].value.id in env \
                and res(env[s.targets[0].value.id]) is MOBJ and s.targets[0].attr in ("name", "_ancilla"):
            t0 = s.targets[0]
            d = mangle(t0.value.id)
            v, tv = self.expr(s.value, env, TOpt(STR) if t0.attr == "name" else None)
            if t0.attr == "name":
                return "let %s : MObj := { %s with name := %s };\n%s%s" % (d, d, coerce(v, tv, TOpt(STR), s), pad, cont(env))
            return "let %s : MObj := { %s with anc := %s };\n%s%s" % (d, d, coerce(v, tv, NAT, s), pad, cont(env))
        # model.set_mapping(mp)
        if isinstance(s, ast.Expr) and isinstance(s.value, ast.Call) and isinstance(s.value.func, ast.Attribute) \
                and s.value.func.attr == "set_mapping" and isinstance(s.value.func.value, ast.Name) \
                and s.value.func.value.id in env and res(env[s.value.func.value.id]) is MOBJ \
                and len(s.value.args) == 1 and not s.value.keywords:
            d = mangle(s.value.func.value.id)
            a, ta = self.expr(s.value.args[0], env)
            if not same(ta, TDict(VAR, NAT)):
                raise Untranslatable("set_mapping of a %s" % lean_ty(ta), s)
            m, _ = self.bind("(pySetMapping %s %s)" % (d, a), MOBJ, s)
            return "let %s : MObj := %s;\n%s%s" % (d, m, pad, cont(env))
        # method = getattr(model, "add_constraint_%s_zero" % k)
        if isinstance(s, ast.Assign) and len(s.targets) == 1 and isinstance(s.targets[0], ast.Name) \
                and isinstance(s.value, ast.Call) and isinstance(s.value.func, ast.Name) and s.value.func.id == "getattr" \
                and len(s.value.args) == 2 and isinstance(s.value.args[0], ast.Name) and s.value.args[0].id in env \
                and res(env[s.value.args[0].id]) is MOBJ and isinstance(s.value.args[1], ast.BinOp):
            self.builtin("getattr", env, s)
            b = s.value.args[1]
            if not (isinstance(b.op, ast.Mod) and isinstance(b.left, ast.Constant) and b.left.value == "add_constraint_%s_zero"
                    and isinstance(b.right, ast.Name) and b.right.id in env and res(env[b.right.id]) is REL):
                raise Untranslatable("getattr(model, …) other than 'add_constraint_%s_zero' % relation", s)
            obj = s.value.args[0].id
            m, _ = self.bind("(pyGetConstraintMethod %s %s)" % (mangle(obj), mangle(b.right.id)), METHOD, s)
            env2 = dict(env)
            env2[s.targets[0].id] = METHOD
            self.method_recv = dict(getattr(self, "method_recv", {}))
            self.method_recv[s.targets[0].id] = obj
            return "let %s : Rel := %s;\n%s%s" % (mangle(s.targets[0].id), m, pad, cont(env2))
        # method(x, lam=0)
        if isinstance(s, ast.Expr) and isinstance(s.value, ast.Call) and isinstance(s.value.func, ast.Name) \
                and s.value.func.id in env and res(env[s.value.func.id]) is METHOD:
            c = s.value
            obj = getattr(self, "method_recv", {}).get(c.func.id)
            if obj is None or obj not in env or res(env[obj]) is not MOBJ:
                raise Untranslatable("call of a bound method whose object is not known", s)
            if not (len(c.args) == 1 and len(c.keywords) == 1 and c.keywords[0].arg == "lam"
                    and isinstance(c.keywords[0].value, ast.Constant) and c.keywords[0].value.value == 0
                    and not isinstance(c.keywords[0].value.value, bool)):
                raise Untranslatable("constraint method called with other than (x, lam=0)", s)
            a, ta = self.expr(c.args[0], env)
            m, _ = self.bind("(pyAddConstraintLam0 %s %s %s)" % (mangle(obj), mangle(c.func.id), coerce(a, ta, POLY, s)), MOBJ, s)
            return "let %s : MObj := %s;\n%s%s" % (mangle(obj), m, pad, cont(env))
        # d[k] = val   on a DictArithmetic with number-or-expression coefficients
        if isinstance(s, ast.Assign) and len(s.targets) == 1 and isinstance(s.targets[0], ast.Subscript) \
                and isinstance(s.targets[0].value, ast.Name) and s.targets[0].value.id in env \
                and res(env[s.targets[0].value.id]) is COEFDICT:
            t0 = s.targets[0]
            key, tk = self.expr(t0.slice, env)
            if res(tk) is not KEY:
                raise Untranslatable("item assignment with a key that is not a tuple of labels", s)
            v, tv = self.expr(s.value, env)
            d = mangle(t0.value.id)
            return "let %s : Sym.CoefItems R := (pyCoefSetItem %s %s %s);\n%s%s" % (d, d, key, coerce(v, tv, PYCOEF, s), pad, cont(env))
        # d._ancilla = e / d._constraints = e
        if isinstance(s, ast.Assign) and len(s.targets) == 1 and isinstance(s.targets[0], ast.Attribute) \
                and isinstance(s.targets[0].value, ast.Name) and s.targets[0].value.id in env \
                and res(env[s.targets[0].value.id]) is SYMOBJ and s.targets[0].attr in ("_ancilla", "_constraints"):
            t0 = s.targets[0]
            d = mangle(t0.value.id)
            if t0.attr == "_ancilla":
                v, tv = self.expr(s.value, env)
                return "let %s : Sym.SymObj R := { %s with anc := %s };\n%s%s" % (d, d, coerce(v, tv, NAT, s), pad, cont(env))
            v, tv = self.expr(s.value, env)
            want = TDict(REL, TList(COEFDICT))
            if not (isinstance(res(tv), TDict) and same(res(tv).elt, want.elt)):
                raise Untranslatable("_constraints assigned a %s" % lean_ty(tv), s)
            return "let %s : Sym.SymObj R := { %s with cons := %s };\n%s%s" % (d, d, v, pad, cont(env))
        # var.update(t)
        if isinstance(s, ast.Expr) and isinstance(s.value, ast.Call) and isinstance(s.value.func, ast.Attribute) \
                and s.value.func.attr == "update" and isinstance(s.value.func.value, ast.Name) \
                and s.value.func.value.id in env and res(env[s.value.func.value.id]) is PSET:
            c = s.value
            if len(c.args) != 1 or c.keywords:
                raise Untranslatable("set.update with other than one argument", s)
            a, ta = self.expr(c.args[0], env)
            if res(ta) is not PSET:
                raise Untranslatable("set.update with a %s" % lean_ty(ta), s)
            x = mangle(c.func.value.id)
            return "let %s : List Var := (pySetUpdate %s %s);\n%s%s" % (x, x, a, pad, cont(env))
        return T.Fn.stmt(self, stmts, env, k, ind, flow)

    def try_(self, s, env, cont, ind):
        """`try: S except E1: H1 [except E2: H2 …] [finally: F]`.  S and the H only assign locals (each H re-assigns every
        local S assigns before reading it).  F is rendered as the statements that follow on normal completion (when an
        exception propagates, Python would run F first and then propagate; the generated function propagates directly)."""
        pad = " " * ind
        if not s.handlers or s.orelse:
            raise Untranslatable("try without except clause / with else", s)
        for h in s.handlers:
            if not (isinstance(h.type, ast.Name) and h.type.id in EXC and h.name is None) or h.type.id in self.module_names():
                raise Untranslatable("except clause that is not a plain builtin exception of the model's enum", s)
        if len({h.type.id for h in s.handlers}) != len(s.handlers):
            raise Untranslatable("two except clauses for the same exception", s)
        for part in [s.body] + [h.body for h in s.handlers]:
            for b in part:
                for x in ast.walk(b):
                    if isinstance(x, (ast.Return, ast.Continue, ast.Break, ast.Raise, ast.Try)):
                        raise Untranslatable("%s inside try / except" % type(x).__name__, x)
        names = self.assigned(s.body)
        if self.mutated(s.body) or not names:
            raise Untranslatable("try body that mutates an object or assigns nothing", s)
        for h in s.handlers:
            outer_mut = [x for x in self.mutated(h.body) if x in env]
            if outer_mut:
                raise Untranslatable("except body that mutates %s" % outer_mut, s)
            # the handler re-assigns every local of the try body before reading it (so what the body did before it
            # raised is not observable)
            for x in names:
                seen = False
                for b in h.body:
                    if isinstance(b, ast.Assign) and len(b.targets) == 1 and isinstance(b.targets[0], ast.Name) \
                            and b.targets[0].id == x and not any(isinstance(y, ast.Name) and y.id == x for y in ast.walk(b.value)):
                        seen = True
                        break
                    if isinstance(b, ast.Assign) and len(b.targets) == 1 and isinstance(b.targets[0], ast.Tuple) \
                            and all(isinstance(y, ast.Name) for y in b.targets[0].elts) \
                            and x in [y.id for y in b.targets[0].elts] \
                            and not any(isinstance(y, ast.Name) and y.id in names for y in ast.walk(b.value)):
                        seen = True          # `a, b = e1, e2` with the right-hand side reading none of the try body's locals
                        break
                    if any(isinstance(y, ast.Name) and y.id == x for y in ast.walk(b)):
                        break
                if not seen:
                    raise Untranslatable("except body does not re-assign %s before reading it" % x, s)
        typed = self.e.get("typed", {})
        tys = [PARAM_TYPES[typed[x]]() if x in typed else None for x in names]

        def k_body(env2):
            for i, x in enumerate(names):
                if tys[i] is None:
                    tys[i] = env2[x]
            return "(Except.ok (%s))" % ", ".join(coerce(mangle(x), env2[x], t, s) for x, t in zip(names, tys))

        body = self.block(s.body, env, k_body, ind + 4, None)
        handlers = [(EXC[h.type.id], self.block(h.body, env, k_body, ind + 4, None)) for h in s.handlers]
        tup = TTuple(tys) if len(tys) > 1 else tys[0]
        env2 = dict(env)
        lets = ""
        for i, (x, t) in enumerate(zip(names, tys)):
            env2[x] = t
            lets += "let %s : %s := %s;\n%s" % (mangle(x), lean_ty(t), proj("_py_try", i, len(names)), pad)
        after = (lambda e3: self.block(list(s.finalbody), e3, cont_wrap(cont), ind, None)) if s.finalbody else cont
        if len(handlers) == 1:
            head = "(pyTryExcept\n%s    (%s)\n%s    %s\n%s    (%s))" % (pad, body, pad, handlers[0][0], pad, handlers[0][1])
        else:
            hs = (",\n%s     " % pad).join("(%s, (%s))" % (e, h) for e, h in handlers)
            head = "(pyTryHandlers\n%s    (%s)\n%s    [%s])" % (pad, body, pad, hs)
        return "(%s >>= fun (_py_try : %s) =>\n%s%s%s)" % (head, lean_ty(tup), pad, lets, after(env2))

    def for_(self, s, env, cont, ind, flow):
        if not self.monadic:
            return T.Fn.for_(self, s, env, cont, ind, flow)
        if s.orelse or flow:
            raise Untranslatable("for ... else / nested in a loop with return", s)
        if any(isinstance(n, (ast.Return, ast.Break)) for b in s.body for n in ast.walk(b)):
            raise Untranslatable("return / break inside a loop", s)
        pad = " " * ind
        src, et = self.iter_source(s.iter, env)
        targets = [n.id for n in ast.walk(s.target) if isinstance(n, ast.Name)]
        for x in targets:
            if x in env:
                raise Untranslatable("loop target %s shadows a local" % x, s)
        names = []
        for x in self.assigned(s.body) + self.mutated(s.body):
            if x not in targets and x not in names:
                names.append(x)
        accs = [x for x in names if x in env and res(env[x]) is not OPAQUE]
        acc_tys = [env[x] for x in accs]
        acc_ty = TTuple(acc_tys) if len(accs) > 1 else (acc_tys[0] if accs else UNIT)
        init = "(" + ", ".join(mangle(x) for x in accs) + ")" if accs else "()"
        unpack = "".join("let %s : %s := %s; " % (mangle(x), lean_ty(t), proj("_py_acc", i, len(accs)))
                         for i, (x, t) in enumerate(zip(accs, acc_tys)))
        lets, env_body = self.bind_target(s.target, et, "_py_it", env)

        def after_body(env2):       # end of the body, or `continue`: the locals the loop carries on
            vals = [coerce(mangle(x), env2[x], t, s) for x, t in zip(accs, acc_tys)]
            return "(Except.ok (%s))" % (", ".join(vals) if vals else "()")

        self.loop_conts.append(after_body)
        try:
            body = self.block(s.body, env_body, after_body, ind + 4, None)
        finally:
            self.loop_conts.pop()
        rebind = "".join("let %s : %s := %s;\n%s" % (mangle(x), lean_ty(t), proj("_py_acc", i, len(accs)), pad)
                         for i, (x, t) in enumerate(zip(accs, acc_tys)))
        return ("((pyForM %s %s (fun (_py_acc : %s) (_py_it : %s) =>\n%s    %s%s\n%s    %s)) >>= "
                "fun (_py_acc : %s) =>\n%s%s%s)" % (
                    src, init, lean_ty(acc_ty), lean_ty(et), pad, unpack, lets, pad, body, lean_ty(acc_ty), pad,
                    rebind, cont(dict(env))))

    # ------------------------------------------------------------------ the function

    def check_signature(self):
        if self.e.get("subst"):
            # `def f(self, *args, **kwargs)`: the starred parameters are the opaque substitution `_py_subst`
            a = self.fnode.args
            if self.fnode.decorator_list or a.posonlyargs or a.kwonlyargs or a.defaults or a.vararg is None or a.kwarg is None \
                    or (a.vararg.arg, a.kwarg.arg) != tuple(self.e["subst"]) \
                    or [x.arg for x in a.args] != [q for q, _ in self.e["params"]]:
                raise Untranslatable("signature changed (registry expects %s, *%s, **%s)" % (
                    [q for q, _ in self.e["params"]], self.e["subst"][0], self.e["subst"][1]), self.fnode)
            return
        T.Fn.check_signature(self)
        want = self.e.get("defaults")
        if want is not None:
            a = self.fnode.args
            got = {x.arg: ast.dump(d) for x, d in zip(a.args[len(a.args) - len(a.defaults):], a.defaults)}
            exp = {p: ast.dump(ast.parse(v, mode="eval").body) for p, v in want.items()}
            if got != exp:
                raise Untranslatable("parameter defaults changed (registry expects %s)" % want, self.fnode)

    def translate_once(self):
        binders, ptys, body = T.Fn.translate_once(self)
        if self.e.get("set_order"):
            binders = binders + ["(_py_ord : PySetOrder)"]
        if self.e.get("subst"):
            binders = ["{R : Type} [Sym.Coef R]"] + binders + ["(_py_subst : R → Sym.SubsRes R)"]
        return binders, ptys, body


# ------------------------------------------------------------------------------------------------- registry

BF = "qubovert/utils/_solve_bruteforce.py"
BRUTE_COMMON = dict(unit="BruteWhole", group="BruteWhole", props=["C09"], monadic=True, set_order=True)
BRUTE_NOT = ["`value(x, D)` and `valid(x)` are calls of the function parameters (any functions of those types)",
             "the iteration order of the Python set `var` is the abstract parameter `_py_ord`",
             "the object `D` is the record Qv.Brute.Model (type, items, and the two attributes read); what `D[()] = offset` "
             "does per container type is the model's `Brute.store` (pyModelSetOffset)"]
REGISTRY = [
    dict(BRUTE_COMMON, file=BF, func="_solve_bruteforce", lean="solve_bruteforce_whole",
         params=[("D", "BModel"), ("all_solutions", "Bool"), ("valid", "ValidFn"), ("spin", "Bool"), ("value", "ValueFn")],
         defaults={}, returns="BruteRet", mutates=["D"], join_points=True, normalize=("inline", "pack", "helper"),
         extra_theorems=["scanOrder_setOrder", "methods_eq_solveMethod"], typed={"best": "BestHint", "all_sols": "AllSols"},
         not_translated=BRUTE_NOT),
]
for _k in ("pubo", "qubo", "puso", "quso"):
    REGISTRY.append(dict(
        BRUTE_COMMON, file=BF, func="solve_%s_bruteforce" % _k,
        params=[({"pubo": "P", "qubo": "Q", "puso": "H", "quso": "L"}[_k], "BModel"), ("all_solutions", "Bool"),
                ("valid", "ValidFn")],
        defaults={"all_solutions": "False", "valid": "lambda x: True"}, returns="BruteRet",
        mutates=[{"pubo": "P", "qubo": "Q", "puso": "H", "quso": "L"}[_k]],
        not_translated=["`%s_value` passed as a function is read as the model's value function on assignment dicts "
                        "(pyValueFn; the value functions are tied separately, group Values)" % _k]))
for _k, _cls in (("pubo", "PUBOMatrix"), ("puso", "PUSOMatrix"), ("qubo", "QUBOMatrix"), ("quso", "QUSOMatrix")):
    REGISTRY.append(dict(
        BRUTE_COMMON, file="qubovert/utils/_%smatrix.py" % _k, func="%s.solve_bruteforce" % _cls,
        lean="%smatrix_solve_bruteforce" % _k, params=[("self", "BModel"), ("all_solutions", "Bool")],
        locals=[("self_is_solution_valid", "ValidFn")], defaults={"all_solutions": "False"}, returns="MethodRet",
        mutates=["self"],
        not_translated=["`self.is_solution_valid` is a parameter of the generated function (any predicate; `return True` "
                        "for the eight unconstrained types, the constraint check for PCBO / PCSO)"]))

SG = "qubovert/utils/_subgraph.py"
SG_NOT = ["the argument `G` is the record PyRawCont (its type and its items; a non-tuple key is `none`), the result "
          "container `D = type(G)()` the record PyCont; what `D[key] = value` does per container type is the model's "
          "`Ty.store` (pyContSetItem); `nodes` is any collection tested with `in`"]
REGISTRY += [
    dict(file=SG, func="subgraph", lean="subgraph_fn", unit="Subgraph", group="Subgraph", props=["C18"], monadic=True,
         params=[("G", "RawCont"), ("nodes", "VarSet"), ("connections", "OptAssoc")], defaults={"connections": "None"},
         typed={"connections": "Assoc"}, returns="Cont", extra_theorems=["subgraph_fn_on_dict"], not_translated=SG_NOT,
         normalize=("helper", "fission")),
    dict(file=SG, func="subvalue", lean="subvalue_fn", unit="Subgraph", group="Subgraph", props=["C18"], monadic=True,
         params=[("values", "Assoc"), ("G", "RawCont")], defaults={}, returns="Cont", extra_theorems=["subvalue_fn_on_dict"],
         not_translated=SG_NOT, normalize=("helper", "fission")),
]

DA_FILE = "qubovert/utils/_dict_arithmetic.py"
SUBS_NOT = ["`*args, **kwargs` are one opaque substitution `_py_subst` on sympy expressions (sympy is not translated); a "
            "coefficient is a number or an expression (Qv.Sym.PyCoef); `float` of a number-valued result is that number",
            "`self.__class__()` is a new empty dict whose `d[k] = val` stores the already squashed key `k` unless `val` is falsy "
            "(pyCoefSetItem)", "`finally:` is rendered as the statements following the try on normal completion"]
REGISTRY += [
    dict(file=DA_FILE, func="DictArithmetic.subs", lean="dict_subs", unit="Subs", group="Subs", props=["C16"], monadic=True,
         params=[("self", "CoefItems")], subst=("args", "kwargs"), typed={"val": "PyCoef"}, returns="CoefItems",
         extra_theorems=["dict_subs_general", "subsItems_ofPolyR"], not_translated=SUBS_NOT),
    dict(file="qubovert/_pcbo.py", func="PCBO.subs", lean="pcbo_subs", unit="Subs", group="Subs", props=["C16"], monadic=True,
         params=[("self", "SymObj")], subst=("args", "kwargs"), returns="SymObj", extra_theorems=["subsObj_bridge"],
         not_translated=SUBS_NOT + ["`super(self.__class__, self).subs(…)` is `DictArithmetic.subs` (tied: dict_subs) on the "
                                    "object's terms, returning an object built by `self.__class__()` (ancilla counter 0, no "
                                    "constraints: pyObjOfSubs)"]),
]

INFO_FILE = "qubovert/utils/_info.py"
INFO_NOT = ["the model object is the record Qv.MObj (kind = class name, terms, name, mapping, _ancilla, constraints), the info "
            "dict the record Qv.Info (an optional key absent or None is `none`); which class has which attribute / method "
            "(pyHasAttr, pySetMapping, pyGetConstraintMethod) and what `cls(terms)` and `add_constraint_*_zero(x, lam=0)` do "
            "(pyUConstruct, pyAddConstraintLam0) are read from the model"]
REGISTRY += [
    dict(file=INFO_FILE, func="get_info", lean="get_info_fn", unit="InfoRT", group="InfoRT", props=["C19"], monadic=True,
         params=[("model", "MObj")], defaults={}, returns="Info", extra_theorems=["getInfo_wf"], not_translated=INFO_NOT,
         normalize=("inline",)),
    dict(file=INFO_FILE, func="create_from_info", lean="create_from_info_fn", unit="InfoRT", group="InfoRT", props=["C19"],
         monadic=True, params=[("info", "Info")], defaults={}, returns="MObj", join_points=True, not_translated=INFO_NOT),
]

ENTRY_BY_LEAN = {e.get("lean", e["func"].split(".")[-1]): e for e in REGISTRY}

UNITS = {
    "BruteWhole": ("SourceBruteWhole.lean", ["Qv.Model.Brute", "Qv.Gen.PreludeUtil"]),
    "Subgraph": ("SourceSubgraph.lean", ["Qv.Model.Subst", "Qv.Gen.PreludeUtil"]),
    "InfoRT": ("SourceInfoRT.lean", ["Qv.Model.Info", "Qv.Gen.PreludeUtil"]),
    "Subs": ("SourceSubs.lean", ["Qv.Model.SubsItems", "Qv.Gen.PreludeUtil"]),
}


# ------------------------------------------------------------------------------------------------- real-code replay (gen_search)

from fractions import Fraction
import itertools as _it


def _fs(v):
    v = Fraction(v)
    return str(v.numerator) if v.denominator == 1 else "%d/%d" % (v.numerator, v.denominator)


def _jassign(x):
    return "[" + ", ".join('[%s, "%s"]' % (k, _fs(v)) for k, v in sorted(x.items())) + "]"


def _jpoly(d):
    return "[" + ", ".join('[[%s], "%s"]' % (", ".join(str(i) for i in k), _fs(v)) for k, v in d.items()) + "]"


C09_VALIDS = {
    "always": lambda x: True, "never": lambda x: False,
    "sum_even": lambda x: sum(1 for v in x.values() if v == 1) % 2 == 0,
    "label0_not_one": lambda x: x.get(0) != 1,
}


class C09Result:
    """result of a brute-force call on the real code, printed like the Lean side's canonWhole / canonMethod"""
    def __init__(self, obj, sol, after, with_obj):
        self.obj, self.sol, self.after, self.with_obj = obj, sol, after, with_obj

    def __repr__(self):
        sol = "one" if isinstance(self.sol, dict) else "many [" + ", ".join(sorted(_jassign(x) for x in self.sol)) + "]"
        head = ("None" if self.obj is None else _fs(self.obj)) + " | " if self.with_obj else ""
        return "%s%s | after %s" % (head, sol, _jpoly(self.after))


def _c09_real(wrapper=None, method=None):
    def real(inp):
        D = inp["D"]
        terms = {tuple(k): Fraction(v) for k, v in D["terms"]}
        valid = C09_VALIDS[inp["valid"]]
        import qubovert.utils as u
        import qubovert.utils._solve_bruteforce as sb
        if method is not None:
            if D["kind"] != method or inp["valid"] != "always":
                raise NotImplementedError("the method is replayed on objects of its own class with the default is_solution_valid")
            obj = getattr(u, method)(terms)
            if dict(obj) != terms:
                raise NotImplementedError("terms are not in the class's canonical form")
            sol = obj.solve_bruteforce(inp["all_solutions"])
            return C09Result(None, sol, dict(obj), False)
        if D["kind"] != "dict" or D["book"] is not None:
            raise NotImplementedError("only plain dict inputs are replayed on the free functions")
        d = dict(terms)
        if wrapper is None:
            res = sb._solve_bruteforce(d, inp["all_solutions"], valid, inp["spin"], getattr(u, inp["value"] + "_value"))
        else:
            res = getattr(sb, wrapper)(d, inp["all_solutions"], valid)
        return C09Result(res[0], res[1], d, True)
    return real


def _c09_oracle(spin_of=None, deg2_of=None):
    """C09 from the property text: the objective is the minimum of the model over the valid assignments of its variables,
    the solution(s) are (exactly) the valid minimisers, no valid assignment -> None, a constant model -> its constant and {};
    the model's terms are unchanged as a dict"""
    def oracle(inp, got, names):
        terms = {tuple(k): Fraction(v) for k, v in inp["D"]["terms"]}
        spin = spin_of if spin_of is not None else inp["spin"]
        deg2 = deg2_of if deg2_of is not None else inp.get("value", "pubo") in ("qubo", "quso")
        if deg2 and any(len(k) > 2 for k in terms):
            return None, "a key longer than 2 labels is outside the domain of a degree-2 solver"
        if inp["D"]["kind"] == "dict" and any(len(set(k)) != len(k) for k in terms) and spin:
            return None, "repeated labels in a spin key: the value functions read them differently (outside the property)"
        valid = C09_VALIDS[inp["valid"]]
        if got.after != terms:
            return False, "the model was changed by the call: %s" % _jpoly(got.after)
        labels = sorted({i for k in terms for i in k})
        if not labels:
            want_obj, want = sum(terms.values(), Fraction(0)), [{}]
        else:
            vals = []
            for t in _it.product((1, -1) if spin else (0, 1), repeat=len(labels)):
                x = dict(zip(labels, t))
                if valid(x):
                    e = Fraction(0)
                    for k, c in terms.items():
                        m = Fraction(1)
                        for i in (k if spin else set(k)):
                            m *= x[i]
                        e += c * m
                    vals.append((e, x))
            if not vals:
                want_obj, want = None, [{}]
            else:
                want_obj = min(e for e, _ in vals)
                want = [x for e, x in vals if e == want_obj]
        sols = [got.sol] if isinstance(got.sol, dict) else list(got.sol)
        if isinstance(got.sol, dict) == bool(inp["all_solutions"]):
            return False, "result shape does not match all_solutions=%s" % inp["all_solutions"]
        if got.with_obj and got.obj != want_obj:
            return False, "objective %s, true minimum over valid assignments %s" % (got.obj, want_obj)
        if any(x not in want for x in sols) or len(sols) != len({_jassign(x) for x in sols}):
            return False, "returned solution(s) %s are not (distinct) valid minimisers %s" % (sols, want)
        if inp["all_solutions"] and len(sols) != len(want):
            return False, "all_solutions returned %d of %d minimisers" % (len(sols), len(want))
        return True, "minimum %s with %d minimiser(s)" % (want_obj, len(want))
    return oracle


_C09_FIELDS = ("D", "all_solutions", "valid", "set_order")
REAL = {
    "solve_bruteforce_whole": ("C09", _c09_real(), _C09_FIELDS + ("spin", "value"), _c09_oracle()),
}
for _k in ("pubo", "qubo", "puso", "quso"):
    REAL["solve_%s_bruteforce" % _k] = ("C09", _c09_real(wrapper="solve_%s_bruteforce" % _k), _C09_FIELDS,
                                        _c09_oracle(_k in ("puso", "quso"), _k in ("qubo", "quso")))
    REAL["%smatrix_solve_bruteforce" % _k] = ("C09", _c09_real(method="%sMatrix" % _k.upper()), _C09_FIELDS,
                                              _c09_oracle(_k in ("puso", "quso"), _k in ("qubo", "quso")))


# ---- C18: subgraph / subvalue

class PolyResult:
    """a returned dict, printed like the Lean side's jPoly (items in dict order)"""
    def __init__(self, d):
        self.d = d

    def __repr__(self):
        return _jpoly({k: Fraction(v) for k, v in self.d.items()})


def _c18_build(inp):
    import qubovert as qv
    from qubovert.utils import DictArithmetic
    items = [(None if k is None else tuple(k), Fraction(v)) for k, v in inp["G"]]
    cls = {"dict": dict, "DictArithmetic": DictArithmetic}.get(inp["type"]) or getattr(qv, inp["type"])
    if any(k is None for k, _ in items):
        if cls is not dict:
            raise NotImplementedError("a non-tuple key is replayed in a plain dict only")
        return {(0 if k is None else k): v for k, v in items}, items
    if len({k for k, _ in items}) != len(items):
        raise NotImplementedError("repeated key")
    G = cls(dict(items))
    if list(G.items()) != items:
        raise NotImplementedError("items are not in the class's canonical form")
    return G, items


def _c18_real(which):
    def real(inp):
        from qubovert.utils import subgraph, subvalue
        G, _ = _c18_build(inp)
        if which == "subgraph":
            conn = inp["connections"]
            res = subgraph(G, set(inp["nodes"]), None if conn is None else {i: Fraction(v) for i, v in conn})
        else:
            res = subvalue({i: Fraction(v) for i, v in inp["values"]}, G)
        return PolyResult(res)
    return real


def _c18_oracle(which):
    """C18: the result represents the same function of the remaining variables (plain dicts with duplicate-free tuple keys;
    other inputs are outside this oracle)"""
    def ev(d, x):
        tot = Fraction(0)
        for k, c in d.items():
            m = Fraction(c)
            for i in k:
                m *= x[i]
            tot += m
        return tot

    def oracle(inp, got, names):
        if inp["type"] != "dict" or any(k is None or len(set(k)) != len(k) for k, _ in inp["G"]):
            return None, "outside the oracle's domain (plain dict, duplicate-free tuple keys)"
        G = {tuple(k): Fraction(v) for k, v in inp["G"]}
        labels = sorted({i for k in G for i in k})
        if which == "subgraph":
            nodes = set(inp["nodes"])
            conn = {i: Fraction(v) for i, v in (inp["connections"] or [])}
            fixed = {i: conn.get(i, Fraction(0)) for i in labels if i not in nodes}
            G = {k: v for k, v in G.items() if k}
        else:
            fixed = {i: Fraction(v) for i, v in inp["values"]}
        free = [i for i in labels if i not in fixed]
        if any(i in fixed for k in got.d for i in k):
            return False, "a substituted label is still present in %r" % got
        for t in _it.product((0, 1, -1, 2), repeat=len(free)):
            x = dict(fixed)
            x.update(zip(free, (Fraction(a) for a in t)))
            if ev(got.d, x) != ev(G, x):
                return False, "at %s the result evaluates to %s, the substituted model to %s" % (x, ev(got.d, x), ev(G, x))
        return True, "same function on %d assignments" % (4 ** len(free))
    return oracle


REAL["subgraph_fn"] = ("C18", _c18_real("subgraph"), ("type", "G", "nodes", "connections"), _c18_oracle("subgraph"))
REAL["subvalue_fn"] = ("C18", _c18_real("subvalue"), ("type", "values", "G"), _c18_oracle("subvalue"))


# ---- C16: DictArithmetic.subs

def _c16_real(inp):
    import sympy
    from qubovert.utils import DictArithmetic
    lam = sympy.Symbol("lam")
    keys = [tuple(k) for k, _ in inp["items"]]
    if len(set(keys)) != len(keys):
        raise NotImplementedError("repeated key")
    d = DictArithmetic()
    for k, c in inp["items"]:
        if "num" in c:
            v = Fraction(c["num"])
        else:
            v = sum((sympy.Rational(Fraction(a).numerator, Fraction(a).denominator) * lam ** i for i, a in enumerate(c["sym"])),
                    sympy.Integer(0))
            if not v.free_symbols:
                raise NotImplementedError("a constant expression is a sympy number, not an expression in the symbol")
        dict.__setitem__(d, tuple(k), v)
    c = Fraction(inp["c"])
    res = d.subs({lam: sympy.Rational(c.numerator, c.denominator)})
    return PolyResult({k: Fraction(v).limit_denominator(1 << 40) for k, v in res.items()})


def _c16_oracle(inp, got, names):
    """C16: after subs(lam -> c) every coefficient is the value of the symbolic coefficient at c (a zero is not stored)"""
    c = Fraction(inp["c"])
    want = {}
    for k, co in inp["items"]:
        v = Fraction(co["num"]) if "num" in co else sum((Fraction(a) * c ** i for i, a in enumerate(co["sym"])), Fraction(0))
        if v:
            want[tuple(k)] = v
    return (got.d == want), "direct numeric build %s, subs returned %r" % (_jpoly(want), got)


REAL["dict_subs"] = ("C16", _c16_real, ("items", "c"), _c16_oracle)
