"""Tie extension for qubovert/sim/_anneal_results.py (C13): AnnealResult / AnnealResults with explicit state.

An `AnnealResults` object is the record `ArObj` = (items, best); an `AnnealResult` the record `ArRes` = (state, value, spin)
(lean/Qv/Gen/PreludeResults.lean — trusted reading of the primitives).  A *method* of AnnealResults (registry kind "meth") is
rendered as a function of the receiver returning `ArOut τ` = (returned value or exception, receiver after the call); a plain
function or a method of the immutable AnnealResult (kind "fn") as a function returning `τ`, or `Except Err τ` when some
operation in it may raise.  The translation is structural, one rule per construct, evaluation order left to right; anything
else raises Untranslatable.

Fragment
  values      None, True/False, parameters / locals, `float('inf')`, `float('-inf')`, tuples only in `a, b = e1, e2` and `all((..))`
  attributes  `r.state|value|spin` on a result; the same on a value that may be None -> arAttr (AttributeError on None);
              `o.best` on an AnnealResults; `self.best = e` -> arSetBest
  conditions  `x is None`, `x is not None` (x may be None), `not` (also on a statically decided `isinstance`), `and` / `or` (short circuit; later operands may raise ->
              arAndE / arOrE), `<` `<=` `>` `>=` on numbers -> arLt / arLe, on results -> the generated `AnnealResult.__lt__` /
              `__le__` (left operand that may be None -> arOptOp, TypeError), `==` / `!=` on results -> the generated
              `AnnealResult.__eq__`, on numbers / dicts / bools -> decidable equality, `all((a, b, ..))` -> arAll,
              `isinstance(x, AnnealResults)` / `isinstance(i, slice)`: decided by the registered type of the parameter (each
              form is its own registry entry); an `if` on it keeps the one branch
  calls       `AnnealResult(s, v, f)`, `AnnealResults(it)` -> arConstruct of the generated `__init__`, `_recompute_best(o)`,
              `d.copy()` on a state, `spin_to_boolean` / `boolean_to_spin` (must be imported from qubovert.utils),
              a module-level function that is one `return e` (inlined: `e` on the evaluated arguments), a module-level
              procedure called as a statement on variables (`_adopt_best(self, other)`: its statements with the
              parameters renamed to the arguments, see `procedure_body`),
              `filter(f, it)`, `(e for x in it)`, `lambda x: e`, `f(x)` on a function parameter, methods of a result
              (`r.copy()`, `r.to_boolean()`, `r.to_spin()`), methods of the receiver (`self.append(x)`, ...), and
              `super().m(..)` for the list methods of the prelude — receiver-changing calls only as a whole statement,
              as the right side of `x = ..`, or as the operand of `return`
  statements  `x = e`, `a, b = e1, e2`, `self.best = e`, `if` / `else` (the statements after an `if` are continued in both
              branches), `for x in it:` (in a method the body may only change the receiver -> arForM; in a function the
              locals it rebinds are the accumulator -> arForE), `return e`, `return self` -> ArSelf.self, falling off the end
              of a method -> `()`
"""
import ast
from harness import translate as T
from harness.translate import Untranslatable

SRC = "qubovert/sim/_anneal_results.py"

LEAN_TY = {"Res": "ArRes", "OptRes": "Option ArRes", "Num": "ArNum", "Bool": "Bool", "ArObj": "ArObj", "ListRes": "List ArRes",
           "Int": "Int", "Slice": "ArSlice", "State": "Res.PState", "Unit": "Unit", "Self": "ArSelf",
           "FnResBool": "ArRes → Bool", "FnStateBool": "Res.PState → Bool", "FnResRes": "ArRes → ArRes",
           "FnStateState": "Res.PState → Res.PState"}
FN_TY = {"FnResBool": ("Res", "Bool"), "FnStateBool": ("State", "Bool"), "FnResRes": ("Res", "Res"),
         "FnStateState": ("State", "State")}
FIELDS = {"state": "State", "value": "Num", "spin": "Bool"}

# super().<m>(args): argument types -> (prelude primitive, result type, changes the receiver / may raise -> ArOut)
SUPER = {
    ("__init__", ()): ("arSuperInit", "Unit", "out"),
    ("append", ("Res",)): ("arSuperAppend", "Unit", "out"),
    ("insert", ("Int", "Res")): ("arSuperInsert", "Unit", "out"),
    ("remove", ("Res",)): ("arSuperRemove", "Unit", "out"),
    ("pop", ("Int",)): ("arSuperPop", "Res", "out"),
    ("clear", ()): ("arSuperClear", "Unit", "out"),
    ("extend", ("ListRes",)): ("arSuperExtend", "Unit", "out"),
    ("__iadd__", ("ListRes",)): ("arSuperIAdd", "Self", "out"),
    ("__setitem__", ("Int", "Res")): ("arSuperSetItemInt", "Unit", "out"),
    ("__setitem__", ("Slice", "ListRes")): ("arSuperSetItemSlice", "Unit", "out"),
    ("__delitem__", ("Int",)): ("arSuperDelItemInt", "Unit", "out"),
    ("__delitem__", ("Slice",)): ("arSuperDelItemSlice", "Unit", "out"),
    ("__getitem__", ("Int",)): ("arSuperGetItemInt", "Res", "exc"),
    ("__getitem__", ("Slice",)): ("arSuperGetItemSlice", "ListRes", "exc"),
    ("__add__", ("ListRes",)): ("arSuperAdd", "ListRes", "pure"),
    ("__mul__", ("Int",)): ("arSuperMul", "ListRes", "pure"),
    ("__rmul__", ("Int",)): ("arSuperMul", "ListRes", "pure"),
}

NOTE_ALIAS = "aliasing (`other is self`) — an operand is a value"
NOTE_NUM = "values are rationals or ±inf (`nan`, non-comparable values: not modelled)"


def _e(func, lean, kind, params, **kw):
    d = dict(file=SRC, func=func, lean=lean, unit="Results", group="Results", props=["C13"], kind=kind,
             params=params, not_translated=[NOTE_NUM])
    nt = kw.pop("nt", [])
    d.update(kw)
    d["not_translated"] = [NOTE_NUM] + nt
    return d


REGISTRY = [
    _e("AnnealResult.__eq__", "res_eq", "fn", [("self", "Res"), ("other", "OptRes")]),
    _e("AnnealResult.__lt__", "res_lt", "fn", [("self", "Res"), ("other", "OptRes")]),
    _e("AnnealResult.__le__", "res_le", "fn", [("self", "Res"), ("other", "OptRes")]),
    _e("AnnealResult.copy", "res_copy", "fn", [("self", "Res")], nt=["`dict.copy()` is an equal dict (identity not modelled)"]),
    _e("AnnealResult.to_boolean", "res_to_boolean", "fn", [("self", "Res")],
       nt=["`spin_to_boolean` (qubovert.utils) is the prelude's arSpinToBoolean"]),
    _e("AnnealResult.to_spin", "res_to_spin", "fn", [("self", "Res")],
       nt=["`boolean_to_spin` (qubovert.utils) is the prelude's arBooleanToSpin"]),
    _e("_recompute_best", "recompute_best", "fn", [("results", "ArObj")]),
    _e("AnnealResults.append", "ar_append", "meth", [("result", "Res")]),
    _e("AnnealResults.__init__", "ar_init", "meth", [("iterable", "ListRes")], defaults={"iterable": "()"},
       nt=["the default `iterable=()` (the generated function takes the iterable's elements)"]),
    _e("AnnealResults.add_state", "ar_add_state", "meth", [("state", "State"), ("value", "Num"), ("spin", "Bool")]),
    _e("AnnealResults.insert", "ar_insert", "meth", [("index", "Int"), ("result", "Res")]),
    _e("AnnealResults.remove", "ar_remove", "meth", [("result", "Res")]),
    _e("AnnealResults.pop", "ar_pop", "meth", [("index", "Int")]),
    _e("AnnealResults.extend", "ar_extend_ar", "meth", [("other", "ArObj")], nt=[NOTE_ALIAS, "the other form of `other`"]),
    _e("AnnealResults.extend", "ar_extend_list", "meth", [("other", "ListRes")], nt=["the other form of `other`"]),
    _e("AnnealResults.__iadd__", "ar_iadd_ar", "meth", [("other", "ArObj")], nt=[NOTE_ALIAS, "the other form of `other`"]),
    _e("AnnealResults.__iadd__", "ar_iadd_list", "meth", [("other", "ListRes")], nt=["the other form of `other`"]),
    _e("AnnealResults.__setitem__", "ar_setitem_int", "meth", [("index", "Int"), ("value", "Res")]),
    _e("AnnealResults.__setitem__", "ar_setitem_slice", "meth", [("index", "Slice"), ("value", "ListRes")]),
    _e("AnnealResults.__delitem__", "ar_delitem_int", "meth", [("index", "Int")]),
    _e("AnnealResults.__delitem__", "ar_delitem_slice", "meth", [("index", "Slice")]),
    _e("AnnealResults.clear", "ar_clear", "meth", []),
    _e("AnnealResults.copy", "ar_copy", "meth", []),
    _e("AnnealResults.__getitem__", "ar_getitem_int", "meth", [("index", "Int")]),
    _e("AnnealResults.__getitem__", "ar_getitem_slice", "meth", [("index", "Slice")]),
    _e("AnnealResults.__add__", "ar_add", "meth", [("other", "ListRes")],
       nt=["`other` is the list of its elements (an AnnealResults operand: its items)"]),
    _e("AnnealResults.__mul__", "ar_mul", "meth", [("other", "Int")]),
    _e("AnnealResults.__rmul__", "ar_rmul", "meth", [("other", "Int")]),
    _e("AnnealResults.filter", "ar_filter", "meth", [("func", "FnResBool")], nt=["`func` is a total function to bool"]),
    _e("AnnealResults.filter_states", "ar_filter_states", "meth", [("func", "FnStateBool")],
       nt=["`func` is a total function to bool"]),
    _e("AnnealResults.apply_function", "ar_apply_function", "meth", [("func", "FnResRes")], nt=["`func` is total"]),
    _e("AnnealResults.convert_states", "ar_convert_states", "meth", [("func", "FnStateState")], nt=["`func` is total"]),
    _e("AnnealResults.to_boolean", "ar_to_boolean", "meth", [],
       nt=["the generator is consumed eagerly (an exception inside it discards the object under construction either way)"]),
    _e("AnnealResults.to_spin", "ar_to_spin", "meth", [],
       nt=["the generator is consumed eagerly (an exception inside it discards the object under construction either way)"]),
]

# the chain to Qv.Res (the model of Qv/Props/C13.lean) on finite values: `<lean>_eq_res`, audited with `<lean>_eq_model`
for _e0 in REGISTRY:
    if _e0["lean"] != "ar_apply_function":
        _e0["extra_theorems"] = [_e0["lean"] + "_eq_res"] + (["ar_init_inv"] if _e0["lean"] == "ar_init" else [])

UNITS = {"Results": ("SourceResults.lean", ["Qv.Model.ResultsX", "Qv.Gen.PreludeResults"])}

# lean name -> dict(kind, params, ret, mode) of the functions translated so far in this run ("pure" | "exc" | "out")
SIGS = {}


def forms(func):
    return [e for e in REGISTRY if e["func"] == func]


class FnExt(T.Fn):
    def __init__(self, entry, module_src, fnode, done):
        T.Fn.__init__(self, entry, module_src, fnode, done)
        self.kind = entry["kind"]
        self.tree = ast.parse(module_src)

    # ------------------------------------------------------------------ helpers
    def ty(self, t):
        return LEAN_TY[t]

    def bind(self, action, ty, node=None):
        self.nbind += 1
        self.any_exc = True
        name = "_py_m%d" % self.nbind
        self.pend[-1].append((name, ty, action))
        return name, ty

    def wrap_expr(self, frame, text):
        """inside an expression (Except monad)"""
        for name, ty, action in reversed(frame):
            text = "(%s >>= fun (%s : %s) => %s)" % (action, name, self.ty(ty), text)
        return text

    def wrap_stmt(self, frame, text, pad):
        for name, ty, action in reversed(frame):
            if self.kind == "meth":
                text = "arEval self (%s) (fun (%s : %s) =>\n%s%s)" % (action, name, self.ty(ty), pad, text)
            else:
                text = "(%s) >>= (fun (%s : %s) =>\n%s%s)" % (action, name, self.ty(ty), pad, text)
        return text

    def coerce_to(self, s, frm, to, node):
        if frm == to:
            return s
        if to == "OptRes" and frm == "Res":
            return "(some %s)" % s
        if to == "OptRes" and frm == "None":
            return "none"
        if to == "ListRes" and frm == "ArObj":
            return "%s.items" % s
        raise Untranslatable("a %s where a %s is needed" % (frm, to), node)

    def callee(self, func, argtys, node):
        """the registered form of `func` whose parameter types accept `argtys`"""
        for e in forms(func):
            ptys = [t for p, t in e["params"] if p != "self"] if e["kind"] == "meth" else [t for _, t in e["params"]]
            if len(ptys) != len(argtys):
                continue
            try:
                for a, p in zip(argtys, ptys):
                    self.coerce_to("x", a, p, node)
            except Untranslatable:
                continue
            sig = SIGS.get(e["lean"])
            if sig is None:
                raise Untranslatable("call of %s, which is not translated (%s)" % (func, e["lean"]), node)
            return e, ptys, sig
        raise Untranslatable("call of %s with argument types %s: no registered form" % (func, argtys), node)

    # ------------------------------------------------------------------ expressions -> (pure lean text, type)
    def expr(self, n, env, expected=None):
        if isinstance(n, ast.Constant):
            if n.value is None:
                return "none", "None"
            if n.value is True or n.value is False:
                return ("true" if n.value else "false"), "Bool"
            raise Untranslatable("literal %r" % (n.value,), n)
        if isinstance(n, ast.Name):
            if n.id not in env:
                raise Untranslatable("name %s is not a parameter or an assigned local" % n.id, n)
            return self.alias.get(n.id, T.mangle(n.id)), env[n.id]
        if isinstance(n, ast.Attribute):
            v, t = self.expr(n.value, env)
            if n.attr in FIELDS and t == "Res":
                return "%s.%s" % (v, n.attr), FIELDS[n.attr]
            if n.attr in FIELDS and t == "OptRes":
                return self.bind("arAttr %s (fun _py_o => _py_o.%s)" % (v, n.attr), FIELDS[n.attr], n)
            if n.attr == "best" and t == "ArObj":
                return "%s.best" % v, "OptRes"
            raise Untranslatable("attribute .%s of a %s" % (n.attr, t), n)
        if isinstance(n, ast.UnaryOp) and isinstance(n.op, ast.Not):
            v, t = self.expr(n.operand, env)
            if t == "Static":               # `not isinstance(..)`: decided by the registered type, like isinstance itself
                return {"true": "false", "false": "true"}[v], "Static"
            if t != "Bool":
                raise Untranslatable("`not` on a %s" % t, n)
            return "(!%s)" % v, "Bool"
        if isinstance(n, ast.BoolOp):
            return self.boolop(n, env)
        if isinstance(n, ast.Compare):
            return self.compare(n, env)
        if isinstance(n, ast.Call):
            return self.call(n, env)
        if isinstance(n, ast.Lambda):
            return self.lam(n, env, expected)
        if isinstance(n, ast.GeneratorExp):
            return self.genexp(n, env)
        raise Untranslatable("expression %s" % type(n).__name__, n)

    def boolop(self, n, env):
        op = "arOrE" if isinstance(n.op, ast.Or) else "arAndE"
        sym = "||" if isinstance(n.op, ast.Or) else "&&"

        def go(vals):
            v, t = self.expr(vals[0], env)
            if t != "Bool":
                raise Untranslatable("operand of and/or that is a %s" % t, vals[0])
            if len(vals) == 1:
                return v
            self.pend.append([])
            try:
                r = go(vals[1:])
            finally:
                frame = self.pend.pop()
            if not frame:
                return "(%s %s %s)" % (v, sym, r)
            return self.bind("%s %s (fun _ => %s)" % (op, v, self.wrap_expr(frame, "pure %s" % r)), "Bool", n)[0]
        return go(n.values), "Bool"

    def compare(self, n, env):
        if len(n.ops) != 1:
            raise Untranslatable("comparison chain", n)
        op, right = n.ops[0], n.comparators[0]
        if isinstance(op, (ast.Is, ast.IsNot)):
            if not (isinstance(right, ast.Constant) and right.value is None):
                raise Untranslatable("`is` with something other than None", n)
            v, t = self.expr(n.left, env)
            if t != "OptRes":
                raise Untranslatable("`is None` on a %s" % t, n)
            return ("%s.isNone" if isinstance(op, ast.Is) else "%s.isSome") % v, "Bool"
        a, ta = self.expr(n.left, env)
        b, tb = self.expr(right, env)
        if isinstance(op, (ast.Gt, ast.GtE)) and ta == "Num" and tb == "Num":
            return "(%s %s %s)" % ("arLt" if isinstance(op, ast.Gt) else "arLe", b, a), "Bool"
        if isinstance(op, (ast.Lt, ast.LtE)):
            if ta == "Num" and tb == "Num":
                return "(%s %s %s)" % ("arLt" if isinstance(op, ast.Lt) else "arLe", a, b), "Bool"
            meth = "AnnealResult.__lt__" if isinstance(op, ast.Lt) else "AnnealResult.__le__"
            return self.dunder(meth, a, ta, b, tb, n)
        if isinstance(op, (ast.Eq, ast.NotEq)):
            if ta in ("Res", "OptRes"):
                v, t = self.dunder("AnnealResult.__eq__", a, ta, b, tb, n)
            elif ta == tb and ta in ("Num", "State", "Bool"):
                v, t = "(decide (%s = %s))" % (a, b), "Bool"
            else:
                raise Untranslatable("== between %s and %s" % (ta, tb), n)
            return (v if isinstance(op, ast.Eq) else "(!%s)" % v), "Bool"
        raise Untranslatable("comparison %s between %s and %s" % (type(op).__name__, ta, tb), n)

    def dunder(self, meth, a, ta, b, tb, node):
        """`a OP b` dispatched to the operator method of a's class"""
        if ta not in ("Res", "OptRes") or tb not in ("Res", "OptRes", "None"):
            raise Untranslatable("%s between %s and %s" % (meth, ta, tb), node)
        e, ptys, sig = self.callee(meth, ["Res", "OptRes"], node)
        b = self.coerce_to(b, tb, "OptRes", node)
        lift = (lambda s: s) if sig["mode"] == "exc" else (lambda s: "(pure (%s))" % s)
        if ta == "Res":
            if sig["mode"] == "pure":
                return "(%s %s %s)" % (e["lean"], a, b), sig["ret"]
            return self.bind("%s %s %s" % (e["lean"], a, b), sig["ret"], node)
        return self.bind("arOptOp %s (fun _py_a => %s)" % (a, lift("%s _py_a %s" % (e["lean"], b))), sig["ret"], node)

    def lam(self, n, env, expected):
        if expected not in FN_TY:
            raise Untranslatable("lambda where no function type is expected", n)
        a = n.args
        if len(a.args) != 1 or a.vararg or a.kwarg or a.kwonlyargs or a.defaults:
            raise Untranslatable("lambda signature", n)
        x = a.args[0].arg
        at, rt = FN_TY[expected]
        self.pend.append([])
        try:
            v, t = self.expr(n.body, dict(env, **{x: at}))
        finally:
            frame = self.pend.pop()
        if frame:
            raise Untranslatable("an operation that may raise inside a lambda", n)
        if t != rt:
            raise Untranslatable("lambda returning a %s where a %s is expected" % (t, rt), n)
        return "(fun (%s : %s) => %s)" % (T.mangle(x), self.ty(at), v), expected

    def iterable(self, n, env):
        """an expression in iterable position -> (lean list of results, element type)"""
        v, t = self.expr(n, env)
        return self.coerce_to(v, t, "ListRes", n), "Res"

    def genexp(self, n, env):
        if len(n.generators) != 1:
            raise Untranslatable("generator with several `for`", n)
        g = n.generators[0]
        if g.ifs or g.is_async or not isinstance(g.target, ast.Name):
            raise Untranslatable("generator with a condition / a pattern target", n)
        it, et = self.iterable(g.iter, env)
        x = g.target.id
        self.pend.append([])
        try:
            v, t = self.expr(n.elt, dict(env, **{x: et}))
        finally:
            frame = self.pend.pop()
        if t != "Res":
            raise Untranslatable("generator of %s" % t, n)
        if not frame:
            return "(List.map (fun (%s : ArRes) => %s) %s)" % (T.mangle(x), v, it), "ListRes"
        return self.bind("arMapE (fun (%s : ArRes) => %s) %s" % (T.mangle(x), self.wrap_expr(frame, "pure %s" % v), it),
                         "ListRes", n)

    def imported_from_utils(self, name, node):
        for s in self.tree.body:
            if isinstance(s, ast.ImportFrom) and s.module == "qubovert.utils" and s.level == 0:
                if any(a.name == name and a.asname is None for a in s.names):
                    return
        for s in ast.walk(self.tree):
            if isinstance(s, (ast.FunctionDef, ast.ClassDef)) and s.name == name:
                raise Untranslatable("%s is redefined in the module" % name, node)
        raise Untranslatable("%s is not imported from qubovert.utils" % name, node)

    def one_line_helper(self, name):
        hits = [x for x in self.tree.body if isinstance(x, ast.FunctionDef) and x.name == name]
        if len(hits) != 1:
            return None
        h, a = hits[0], hits[0].args
        body = [x for x in h.body if not (isinstance(x, ast.Expr) and isinstance(x.value, ast.Constant)
                                          and isinstance(x.value.value, str))]
        if h.decorator_list or a.vararg or a.kwarg or a.kwonlyargs or a.posonlyargs or a.defaults:
            return None
        if len(body) != 1 or not isinstance(body[0], ast.Return) or body[0].value is None:
            return None
        return h

    def procedure_body(self, n, env):
        """`helper(x, y)` where `helper` is a module-level function of this file that is not in the registry, has plain
        positional parameters, no `return`, binds no local (its statements only assign attributes, branch and call) and
        every argument is a distinct variable of the caller: the body with each parameter renamed to its argument
        (Python passes the objects themselves, so `results.best = e` in the helper is `self.best = e` in the caller);
        None when `n` is not such a call"""
        import copy
        if not (isinstance(n, ast.Call) and isinstance(n.func, ast.Name)) or n.keywords or forms(n.func.id):
            return None
        hits = [x for x in self.tree.body if isinstance(x, ast.FunctionDef) and x.name == n.func.id]
        if len(hits) != 1:
            return None
        h, a = hits[0], hits[0].args
        if h.decorator_list or a.vararg or a.kwarg or a.kwonlyargs or a.posonlyargs or a.defaults:
            return None
        if len(a.args) != len(n.args) or not all(isinstance(x, ast.Name) and x.id in env for x in n.args):
            return None
        if len({x.id for x in n.args}) != len(n.args):
            return None
        body = [x for x in h.body if not (isinstance(x, ast.Expr) and isinstance(x.value, ast.Constant)
                                          and isinstance(x.value.value, str))]
        params = [p.arg for p in a.args]
        for x in body:
            for y in ast.walk(x):
                if isinstance(y, (ast.Return, ast.Yield, ast.YieldFrom, ast.Global, ast.Nonlocal, ast.Lambda,
                                  ast.FunctionDef, ast.ListComp, ast.GeneratorExp, ast.SetComp, ast.DictComp)):
                    return None
                if isinstance(y, ast.Name) and isinstance(y.ctx, (ast.Store, ast.Del)):
                    return None
                if isinstance(y, ast.Name) and y.id not in params and y.id in env:
                    return None              # a global of the helper that a variable of the caller would capture
        ren = dict(zip(params, [x.id for x in n.args]))
        out = copy.deepcopy(body)
        for x in out:
            for y in ast.walk(x):
                if isinstance(y, ast.Name) and y.id in ren:
                    y.id = ren[y.id]
        return out

    def args_of(self, n):
        if n.keywords or any(isinstance(a, ast.Starred) for a in n.args):
            raise Untranslatable("keyword / starred arguments", n)
        return n.args

    def is_super(self, f):
        return (isinstance(f, ast.Attribute) and isinstance(f.value, ast.Call) and isinstance(f.value.func, ast.Name)
                and f.value.func.id == "super" and not f.value.args and not f.value.keywords)

    def out_call(self, n, env):
        """a call whose value is an `ArOut τ` (it may change the receiver) -> (lean text, τ), or None"""
        if not isinstance(n, ast.Call) or self.kind != "meth":
            return None
        f = n.func
        if self.is_super(f):
            args = [self.expr(a, env) for a in self.args_of(n)]
            for (m, ptys), (prim, rt, mode) in SUPER.items():
                if m == f.attr and len(ptys) == len(args) and mode == "out":
                    try:
                        vs = [self.coerce_to(v, t, p, n) for (v, t), p in zip(args, ptys)]
                    except Untranslatable:
                        continue
                    return " ".join([prim, "self"] + vs), rt
            return None
        if isinstance(f, ast.Attribute) and isinstance(f.value, ast.Name) and f.value.id == "self" and \
                forms("AnnealResults." + f.attr):
            lam_ix = [i for i, a in enumerate(n.args) if isinstance(a, ast.Lambda)]
            args = [None if i in lam_ix else self.expr(a, env) for i, a in enumerate(self.args_of(n))]
            if lam_ix:                 # the callee's parameter type tells what the lambda takes
                cands = [e for e in forms("AnnealResults." + f.attr) if len(e["params"]) == len(args)]
                if len(cands) != 1:
                    raise Untranslatable("lambda argument of an overloaded method", n)
                for i in lam_ix:
                    args[i] = self.expr(n.args[i], env, expected=cands[0]["params"][i][1])
            e, ptys, sig = self.callee("AnnealResults." + f.attr, [t for _, t in args], n)
            vs = [self.coerce_to(v, t, p, n) for (v, t), p in zip(args, ptys)]
            return " ".join([e["lean"], "self"] + vs), sig["ret"]
        return None

    def call(self, n, env):
        f = n.func
        if self.out_call(n, env) is not None:
            raise Untranslatable("a call that may change the receiver inside an expression", n)
        args = self.args_of(n)
        if isinstance(f, ast.Name):
            if f.id == "float" and len(args) == 1 and isinstance(args[0], ast.Constant) and args[0].value in ("inf", "-inf"):
                return ("arInf" if args[0].value == "inf" else "arNegInf"), "Num"
            if f.id == "all" and len(args) == 1 and isinstance(args[0], (ast.Tuple, ast.List)):
                vs = [self.expr(a, env) for a in args[0].elts]
                if any(t != "Bool" for _, t in vs):
                    raise Untranslatable("all(..) on something that is not a bool", n)
                return "(arAll [%s])" % ", ".join(v for v, _ in vs), "Bool"
            if f.id == "isinstance" and len(args) == 2 and isinstance(args[0], ast.Name) and isinstance(args[1], ast.Name):
                t = env.get(args[0].id)
                table = {"AnnealResults": {"ArObj": "true", "ListRes": "false"}, "slice": {"Slice": "true", "Int": "false"}}
                if args[1].id in table and t in table[args[1].id]:
                    return table[args[1].id][t], "Static"
                raise Untranslatable("isinstance(%s, %s)" % (args[0].id, args[1].id), n)
            if f.id == "AnnealResult" and len(args) == 3:
                vs = [self.expr(a, env) for a in args]
                if [t for _, t in vs] != ["State", "Num", "Bool"]:
                    raise Untranslatable("AnnealResult(%s)" % ", ".join(t for _, t in vs), n)
                return "(ResX.Result.mk %s)" % " ".join(v for v, _ in vs), "Res"
            if f.id == "AnnealResults" and len(args) == 1:
                it, _ = self.iterable(args[0], env)
                e, ptys, sig = self.callee("AnnealResults.__init__", ["ListRes"], n)
                return self.bind("arConstruct (fun _py_o => %s _py_o %s)" % (e["lean"], it), "ArObj", n)
            if f.id in ("spin_to_boolean", "boolean_to_spin") and len(args) == 1:
                self.imported_from_utils(f.id, n)
                v, t = self.expr(args[0], env)
                if t != "State":
                    raise Untranslatable("%s of a %s" % (f.id, t), n)
                return self.bind("%s %s" % ({"spin_to_boolean": "arSpinToBoolean", "boolean_to_spin": "arBooleanToSpin"}[f.id], v),
                                 "State", n)
            if f.id == "filter" and len(args) == 2:
                it, et = self.iterable(args[1], env)
                if isinstance(args[0], ast.Lambda):
                    fv, ft = self.expr(args[0], env, expected="FnResBool")
                else:
                    fv, ft = self.expr(args[0], env)
                if ft != "FnResBool":
                    raise Untranslatable("filter with a %s" % ft, n)
                return "(arFilter %s %s)" % (fv, it), "ListRes"
            if f.id in env and env[f.id] in FN_TY and len(args) == 1:
                at, rt = FN_TY[env[f.id]]
                v, t = self.expr(args[0], env)
                if t != at:
                    raise Untranslatable("%s applied to a %s" % (f.id, t), n)
                return "(%s %s)" % (T.mangle(f.id), v), rt
            if forms(f.id):             # a module-level function of this file
                vs = [self.expr(a, env) for a in args]
                e, ptys, sig = self.callee(f.id, [t for _, t in vs], n)
                txt = " ".join([e["lean"]] + [self.coerce_to(v, t, p, n) for (v, t), p in zip(vs, ptys)])
                return ("(%s)" % txt, sig["ret"]) if sig["mode"] == "pure" else self.bind(txt, sig["ret"], n)
            helper = self.one_line_helper(f.id)
            if helper is not None and len(helper.args.args) == len(args):
                # a module-level function that is one `return e`: `e` with the parameters bound to the (already evaluated)
                # arguments
                vs = [self.expr(a, env) for a in args]
                saved = self.alias
                self.alias = dict(saved, **{p.arg: v for p, (v, _) in zip(helper.args.args, vs)})
                self.inlining = getattr(self, "inlining", 0) + 1
                try:
                    if self.inlining > 3:
                        raise Untranslatable("nested helper calls", n)
                    return self.expr(helper.body[-1].value, {p.arg: t for p, (_, t) in zip(helper.args.args, vs)})
                finally:
                    self.alias, self.inlining = saved, self.inlining - 1
            raise Untranslatable("call of %s" % f.id, n)
        if self.is_super(f):
            if self.kind != "meth":
                raise Untranslatable("super() outside a method of AnnealResults", n)
            vs = [self.expr(a, env) for a in args]
            for (m, ptys), (prim, rt, mode) in SUPER.items():
                if m == f.attr and len(ptys) == len(vs) and mode != "out":
                    try:
                        ws = [self.coerce_to(v, t, p, n) for (v, t), p in zip(vs, ptys)]
                    except Untranslatable:
                        continue
                    txt = " ".join([prim, "self"] + ws)
                    return ("(%s)" % txt, rt) if mode == "pure" else self.bind(txt, rt, n)
            raise Untranslatable("super().%s(%s)" % (f.attr, ", ".join(t for _, t in vs)), n)
        if isinstance(f, ast.Attribute):
            v, t = self.expr(f.value, env)
            if t == "State" and f.attr == "copy" and not args:
                return "(arDictCopy %s)" % v, "State"
            if t == "Res" and forms("AnnealResult." + f.attr):
                vs = [self.expr(a, env) for a in args]
                e, ptys, sig = self.callee("AnnealResult." + f.attr, ["Res"] + [t2 for _, t2 in vs], n)
                txt = " ".join([e["lean"], v] + [self.coerce_to(a, t2, p, n) for (a, t2), p in zip(vs, ptys[1:])])
                return ("(%s)" % txt, sig["ret"]) if sig["mode"] == "pure" else self.bind(txt, sig["ret"], n)
            raise Untranslatable("method .%s of a %s" % (f.attr, t), n)
        raise Untranslatable("call", n)

    # ------------------------------------------------------------------ statements
    def ret_text(self, v, t):
        self.ret_seen.append(t)
        if self.kind == "meth":
            return "arRet self %s" % v
        return ("pure %s" % v) if self.exc else v

    def assigned_names(self, stmts):
        out = []
        for s in stmts:
            for x in ast.walk(s):
                if isinstance(x, ast.Name) and isinstance(x.ctx, ast.Store) and x.id not in out:
                    out.append(x.id)
        return out

    def block(self, stmts, env, k, ind):
        """stmts then the continuation k(env) (what follows the enclosing construct)"""
        pad = "  " * ind
        if not stmts:
            return k(env)
        s, rest = stmts[0], stmts[1:]
        if isinstance(s, ast.Expr) and isinstance(s.value, ast.Constant) and isinstance(s.value.value, str):
            return self.block(rest, env, k, ind)
        if isinstance(s, ast.Pass):
            return self.block(rest, env, k, ind)
        self.pend.append([])
        try:
            text = self.stmt(s, rest, env, k, ind)
        finally:
            frame = self.pend.pop()
        return self.wrap_stmt(frame, text, pad)

    def stmt(self, s, rest, env, k, ind):
        pad = "  " * ind
        cont = lambda env2: self.block(rest, env2, k, ind)         # noqa: E731
        if isinstance(s, ast.Return):
            if s.value is None:
                return self.ret_text("()", "Unit")
            if isinstance(s.value, ast.Name) and s.value.id == "self" and self.kind == "meth":
                return self.ret_text("ArSelf.self", "Self")
            oc = self.out_call(s.value, env)
            if oc is not None:
                self.ret_seen.append(oc[1])
                return "arSeq (%s) (fun (_py_r : %s) (self : ArObj) =>\n%sarRet self _py_r)" % (oc[0], self.ty(oc[1]), pad)
            v, t = self.expr(s.value, env)
            if t == "None":
                raise Untranslatable("return None", s)
            return self.ret_text(v, t)
        if isinstance(s, ast.Expr):
            oc = self.out_call(s.value, env)
            if oc is None:
                inl = self.procedure_body(s.value, env)
                if inl is not None:
                    # `helper(a, b)` as a statement, `helper` a module-level procedure: its statements, with the
                    # parameters renamed to the argument variables, then what follows the call
                    self.inlining = getattr(self, "inlining", 0) + 1
                    try:
                        if self.inlining > 3:
                            raise Untranslatable("nested helper calls", s)
                        return self.block(inl + rest, env, k, ind)
                    finally:
                        self.inlining -= 1
                raise Untranslatable("expression statement that is not a call on the receiver", s)
            return "arSeq (%s) (fun (_ : %s) (self : ArObj) =>\n%s%s)" % (oc[0], self.ty(oc[1]), pad, cont(env))
        if isinstance(s, ast.Assign) and len(s.targets) == 1:
            tg = s.targets[0]
            if isinstance(tg, ast.Attribute) and isinstance(tg.value, ast.Name) and tg.value.id == "self" and \
                    tg.attr == "best" and self.kind == "meth":
                v, t = self.expr(s.value, env)
                return "let self : ArObj := arSetBest self %s;\n%s%s" % (self.coerce_to(v, t, "OptRes", s), pad, cont(env))
            if isinstance(tg, ast.Name):
                if tg.id == "self":
                    raise Untranslatable("assignment to self", s)
                oc = self.out_call(s.value, env)
                if oc is not None:
                    return "arSeq (%s) (fun (%s : %s) (self : ArObj) =>\n%s%s)" % (
                        oc[0], T.mangle(tg.id), self.ty(oc[1]), pad, cont(dict(env, **{tg.id: oc[1]})))
                v, t = self.expr(s.value, env)
                return self.let(tg.id, v, t, env, cont, pad, s)
            if isinstance(tg, ast.Tuple) and isinstance(s.value, ast.Tuple) and len(tg.elts) == len(s.value.elts) and \
                    all(isinstance(x, ast.Name) for x in tg.elts):
                names = [x.id for x in tg.elts]
                used = {x.id for v in s.value.elts for x in ast.walk(v) if isinstance(x, ast.Name)}
                if used & set(names) or len(set(names)) != len(names) or "self" in names:
                    raise Untranslatable("tuple assignment whose right side reads its targets", s)
                vals = [self.expr(v, env) for v in s.value.elts]

                def chain(i, env2):
                    if i == len(names):
                        return cont(env2)
                    return self.let(names[i], vals[i][0], vals[i][1], env2, lambda e3: chain(i + 1, e3), pad, s)
                return chain(0, env)
            raise Untranslatable("assignment target", s)
        if isinstance(s, ast.If):
            c, t = self.expr(s.test, env)
            if t == "Static":
                return self.block((s.body if c == "true" else s.orelse) + rest, env, k, ind)
            if t != "Bool":
                raise Untranslatable("condition that is a %s" % t, s)
            a = self.block(s.body + rest, env, k, ind + 1)
            b = self.block(s.orelse + rest, env, k, ind + 1)
            return "if %s then\n%s  (%s)\n%selse\n%s  (%s)" % (c, pad, a, pad, pad, b)
        if isinstance(s, ast.For):
            return self.for_(s, env, cont, ind)
        raise Untranslatable("statement %s" % type(s).__name__, s)

    def let(self, name, v, t, env, cont, pad, node):
        if t == "None":                      # a local initialised with None: a result or None
            t, v = "OptRes", "none"
        if env.get(name) == "OptRes" and t == "Res":      # a local that may be None keeps that type (loop accumulators)
            v, t = "(some %s)" % v, "OptRes"               # any other rebinding takes the type of the new value
        if t not in LEAN_TY:
            raise Untranslatable("a local of type %s" % t, node)
        return "let %s : %s := %s;\n%s%s" % (T.mangle(name), self.ty(t), v, pad, cont(dict(env, **{name: t})))

    def for_(self, s, env, cont, ind):
        pad = "  " * ind
        if s.orelse or not isinstance(s.target, ast.Name):
            raise Untranslatable("for with else / a pattern target", s)
        if any(isinstance(x, (ast.Return, ast.Break, ast.Continue)) for b in s.body for x in ast.walk(b)):
            raise Untranslatable("return / break / continue inside a loop", s)
        it, et = self.iterable(s.iter, env)
        x = s.target.id
        assigned = [a for a in self.assigned_names(s.body) if a != x]
        if self.kind == "meth":
            if assigned:
                raise Untranslatable("a loop in a method that rebinds the locals %s" % assigned, s)
            body = self.block(s.body, dict(env, **{x: et}), lambda e2: "arRet self ()", ind + 1)
            return "arSeq (arForM %s self (fun (self : ArObj) (%s : %s) =>\n%s  %s)) (fun (_ : Unit) (self : ArObj) =>\n%s%s)" % (
                it, T.mangle(x), self.ty(et), pad, body, pad, cont(env))
        accs = [a for a in assigned if a in env]
        if not accs or len(accs) != len(assigned):
            raise Untranslatable("a loop whose body binds new locals or none", s)
        self.any_exc = True
        aty = " × ".join(self.ty(env[a]) if " " not in self.ty(env[a]) else "(%s)" % self.ty(env[a]) for a in accs)
        tup = "(%s)" % ", ".join(T.mangle(a) for a in accs)
        unpack = "".join("let %s : %s := %s;\n%s  " % (T.mangle(a), self.ty(env[a]), T.proj("_py_acc", i, len(accs)), pad)
                         for i, a in enumerate(accs))
        body = self.block(s.body, dict(env, **{x: et}), lambda e2: "pure %s" % tup, ind + 1)
        after = "".join("let %s : %s := %s;\n%s" % (T.mangle(a), self.ty(env[a]), T.proj("_py_acc", i, len(accs)), pad)
                        for i, a in enumerate(accs))
        return "(arForE %s %s (fun (_py_acc : %s) (%s : %s) =>\n%s  %s%s)) >>= (fun (_py_acc : %s) =>\n%s%s%s)" % (
            it, tup, aty, T.mangle(x), self.ty(et), pad, unpack, body, aty, pad, after, cont(env))

    # ------------------------------------------------------------------ whole function
    def check_sig(self):
        e, a = self.e, self.fnode.args
        if self.fnode.decorator_list or a.vararg or a.kwarg or a.kwonlyargs or a.posonlyargs:
            raise Untranslatable("decorators / *args / **kwargs / keyword-only parameters", self.fnode)
        got = [x.arg for x in a.args]
        want = ([] if e["kind"] == "fn" else ["self"]) + [p for p, _ in e["params"]]
        if got != want:
            raise Untranslatable("signature changed: parameters %s, registry expects %s" % (got, want), self.fnode)
        dflt = dict(zip(got[len(got) - len(a.defaults):], a.defaults))
        exp = e.get("defaults", {})
        if set(dflt) != set(exp) or any(ast.dump(dflt[p]) != ast.dump(ast.parse(exp[p]).body[0].value) for p in exp):
            raise Untranslatable("parameter defaults changed (registry expects %s)" % exp, self.fnode)

    def once(self):
        e = self.e
        self.pend, self.nbind, self.ret_seen, self.alias = [[]], 0, [], {}
        env = {p: t for p, t in e["params"]}
        if e["kind"] == "meth":
            env["self"] = "ArObj"

        def fall_off(env2):
            if self.kind == "meth":
                return self.ret_text("()", "Unit")
            raise Untranslatable("control can reach the end of the function without return", self.fnode)
        return self.block(list(self.fnode.body), env, fall_off, 1)

    def translate(self):
        e = self.e
        SIGS.pop(e["lean"], None)
        self.check_sig()
        self.exc, self.any_exc = True, False
        self.once()                                  # first pass: does anything in it raise?
        self.exc = self.any_exc
        body = self.once()
        tys = set(self.ret_seen)
        if len(tys) != 1:
            raise Untranslatable("returns values of types %s" % sorted(tys), self.fnode)
        rt = tys.pop()
        if rt not in LEAN_TY:
            raise Untranslatable("returns a %s" % rt, self.fnode)
        binders = (["(self : ArObj)"] if self.kind == "meth" else []) + \
            ["(%s : %s)" % (T.mangle(p), self.ty(t)) for p, t in e["params"]]
        if self.kind == "meth":
            rty, mode = "ArOut %s" % (self.ty(rt) if " " not in self.ty(rt) else "(%s)" % self.ty(rt)), "out"
        elif self.exc:
            rty, mode = "Except Err (%s)" % self.ty(rt), "exc"
        else:
            rty, mode = self.ty(rt), "pure"
        self.ret_ty, self.raises = None, False
        SIGS[e["lean"]] = dict(ret=rt, mode=mode)
        return binders, [], rty, body


# ------------------------------------------------------------------ replay of a distinguishing input on the real code

def _num(s):
    from fractions import Fraction
    return float(s) if s in ("inf", "-inf") else Fraction(s)


def _res(j):
    from qubovert.sim import AnnealResult
    return None if j is None else AnnealResult({int(k): int(v) for k, v in j["state"]}, _num(j["value"]), bool(j["spin"]))


def _coll(j):
    """an AnnealResults holding the given items, with the `best` attribute set as given (possibly stale)"""
    from qubovert.sim import AnnealResults
    c = AnnealResults()
    list.extend(c, [_res(x) for x in j["items"]])
    c.best = None
    if j["best"] is not None:
        b = _res(j["best"])
        c.best = next((x for x in c if x is not None and x == b), b)
    return c


def _num_str(v):
    from fractions import Fraction
    if isinstance(v, float) and v in (float("inf"), float("-inf")):
        return "inf" if v > 0 else "-inf"
    v = Fraction(v)
    return str(v.numerator) if v.denominator == 1 else "%d/%d" % (v.numerator, v.denominator)


def _res_str(r):
    if r is None:
        return "None"
    return "({%s},%s,%s)" % (",".join("%d:%d" % (k, r.state[k]) for k in sorted(r.state)), _num_str(r.value),
                             "true" if r.spin else "false")


def _coll_str(c):
    return "[%s]best=%s" % (",".join(_res_str(x) for x in c), _res_str(getattr(c, "best", None)))


class Shown:
    """the outcome of a replay in the textual form of lean/Qv/Gen/Search/Results.lean (`outStr` / `exStr`)"""
    def __init__(self, text, recv=None, sound_before=None, derived=None):
        self.text, self.recv, self.sound_before, self.derived = text, recv, sound_before, derived

    def __repr__(self):
        return self.text


def _val_str(v, recv):
    from qubovert.sim import AnnealResults, AnnealResult
    if v is None:
        return "None"
    if v is recv:
        return "self"
    if isinstance(v, bool):
        return "true" if v else "false"
    if isinstance(v, AnnealResults):
        return _coll_str(v)
    if isinstance(v, AnnealResult):
        return _res_str(v)
    return repr(v)


def _sound(c):
    """the invariant of C13 on one collection"""
    if len(c) == 0:
        return c.best is None
    return c.best is not None and any(x is c.best or x == c.best for x in c) and all(not (x.value < c.best.value) for x in c)


def _slice(j):
    return slice(*j)


def _method(call):
    """real(inp) for a method of AnnealResults: build the receiver, call, show outcome and receiver"""
    def real(inp):
        from harness import common
        from qubovert.sim import AnnealResults
        c = _coll(inp["self"]) if "self" in inp else None
        before = _sound(c) if c is not None else True
        derived = None
        try:
            v = call(c, inp)
            head = "ok " + _val_str(v, c)
            if isinstance(v, AnnealResults) and v is not c:
                derived = v
        except Exception as e:                 # noqa: BLE001 — the exception is the observable outcome
            head = "raise " + common.exc_name(e)
        if c is None:                          # the constructor: the receiver is the new object
            return Shown(head, None, True, derived)
        return Shown(head + " | " + _coll_str(c), c, before, derived)
    return real


def _init(c, inp):
    from qubovert.sim import AnnealResults
    return AnnealResults([_res(x) for x in inp["iterable"]])


def _real_init(inp):
    from qubovert.sim import AnnealResults
    c = AnnealResults([_res(x) for x in inp["iterable"]])
    return Shown("ok None | " + _coll_str(c), c, True, None)


def _real_recompute(inp):
    from harness import common
    from qubovert.sim import _anneal_results as m
    c = _coll(inp["self"])
    try:
        b = m._recompute_best(c)
    except Exception as e:                     # noqa: BLE001
        return Shown("raise " + common.exc_name(e))
    c2 = _coll(dict(inp["self"], best=None))
    c2.best = b
    return Shown(_res_str(b), c2, True, None)


def _real_cmp(op):
    def real(inp):
        from harness import common
        a, b = _res(inp["a"]), _res(inp["b"])
        try:
            return Shown("true" if op(a, b) else "false")
        except Exception as e:                 # noqa: BLE001
            return Shown("raise " + common.exc_name(e))
    return real


def _oracle(inp, got, names):
    """C13 on the receiver (and the derived collection): `best` is None exactly when empty, else a least element —
    judged only when the receiver satisfied it before the call"""
    if not isinstance(got, Shown) or (got.recv is None and got.derived is None):
        return None, "no collection to judge"
    if not got.sound_before:
        return None, "the receiver's `best` was already stale before the call (outside the property's premise)"
    for what, c in (("receiver", got.recv), ("derived collection", got.derived)):
        if c is not None and not _sound(c):
            return False, "%s after the call: items %s, best %s — `best` is not None-iff-empty / a least element" % (
                what, [_num_str(x.value) for x in c], _res_str(c.best))
    return True, "best is None iff empty, else a least element"


def _iadd(c, i, other):
    c0 = c
    c += other
    return c if c is c0 else ("not self", c)


_M = {
    "ar_append": lambda c, i: c.append(_res(i["result"])),
    "ar_insert": lambda c, i: c.insert(i["index"], _res(i["result"])),
    "ar_remove": lambda c, i: c.remove(_res(i["result"])),
    "ar_pop": lambda c, i: c.pop(i["index"]),
    "ar_extend_ar": lambda c, i: c.extend(_coll(i["other"])),
    "ar_extend_list": lambda c, i: c.extend([_res(x) for x in i["other"]]),
    "ar_iadd_ar": lambda c, i: _iadd(c, i, _coll(i["other"])),
    "ar_iadd_list": lambda c, i: _iadd(c, i, [_res(x) for x in i["other"]]),
    "ar_setitem_int": lambda c, i: c.__setitem__(i["index"], _res(i["value"])),
    "ar_delitem_int": lambda c, i: c.__delitem__(i["index"]),
    "ar_setitem_slice": lambda c, i: c.__setitem__(_slice(i["index"]), [_res(x) for x in i["value"]]),
    "ar_delitem_slice": lambda c, i: c.__delitem__(_slice(i["index"])),
    "ar_clear": lambda c, i: c.clear(),
    "ar_copy": lambda c, i: c.copy(),
    "ar_mul": lambda c, i: c * i["other"],
    "ar_rmul": lambda c, i: i["other"] * c,
    "ar_add": lambda c, i: c + [_res(x) for x in i["other"]],
    "ar_to_boolean": lambda c, i: c.to_boolean(),
    "ar_to_spin": lambda c, i: c.to_spin(),
}

REAL = {n: ("C13", _method(f), ("self",), _oracle) for n, f in _M.items()}
REAL["ar_init"] = ("C13", _real_init, ("iterable",), _oracle)
REAL["recompute_best"] = ("C13", _real_recompute, ("self",), _oracle)
REAL["res_lt"] = ("C13", _real_cmp(lambda a, b: a < b), ("a", "b"), None)
REAL["res_le"] = ("C13", _real_cmp(lambda a, b: a <= b), ("a", "b"), None)
REAL["res_eq"] = ("C13", _real_cmp(lambda a, b: a == b), ("a", "b"), None)
