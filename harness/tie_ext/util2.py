"""Tie extension `util2` — second utility tie (C15, C16, C03, C06/C02); continues harness/tie_ext/util.py.

Units / groups (one per item, so that a source edit in one breaks only its properties' obligations):

  TempRange  (C15)  qubovert/sim/_anneal_temperature_range.py: `anneal_temperature_range`, the whole function (the floats
                    `-dE / log(p)` kept symbolically)
  Simplify   (C16)  `DictArithmetic.simplify` (qubovert/utils/_dict_arithmetic.py)
  PcsoGlue   (C03)  qubovert/_pcso.py: `PCSO._empty_pcbo` (module function `_empty_pcbo`), `PCSO.is_solution_valid`
  ConsLoops  (C02, C03, C06)  qubovert/_pcbo.py: `PCBO._pop_constraint`, the bookkeeping step of the comparison-constraint
                    chains that the first-generation tie names (`CEff.pop`) but does not translate

Meaning of the primitives: lean/Qv/Gen/PreludeUtil2.lean (trusted).  Construct rules added here (class FnExt, a subclass of
util.FnExt; "one rule per construct, reject what is not understood"):

  temprange  `any((c1, …, cn))` of a tuple / list display of pure conditions -> the disjunction (all operands are evaluated
             by Python; they are pure); `set(e for a in A for b in B)` -> pySetOfList of the flatMap; `x in k` on a tuple of
             labels -> pyKeyInU2; a function registered in the entry's `callees` (imported by name from the given module) is
             an opaque parameter of the generated function; `log(p)` (`from math import log`) -> pyLogU2 (ValueError for
             p <= 0), `a / l` with `l` such a logarithm -> pyDivLogU2 (ZeroDivisionError for log 1); the literals `0` / `0.`
             where such a float is expected -> PyTempU2.lit0; `a if c else b` one of whose operands is such a float
  simplify   registry `inplace="self"`: a procedure that updates `self` and falls off its end returns the final `self`;
             registry `sym_simplify=True`: `v.simplify()` on a coefficient -> pySimplifyU2 with the opaque parameter
             `_py_simplify` (AttributeError on a number); `e * 1.` (a float literal with an integer value, read as that
             rational) on an expression / a coefficient -> pyExprMulU2 / pyCoefMulU2; `D[k] *= c` on a DictArithmetic ->
             pyCoefSetItem D k (D[k] * c) with `D[k]` = pyCoefGetItemU2; `tuple(X.items())` as a loop source = the snapshot
             (the same list); `try: [x = e …] D[k] = E  except Exc: H` (the only mutation of the body is its
             last statement, an item store on a DictArithmetic, which cannot raise for
             an already squashed key, so every exception of the body precedes its only mutation and the handler starts from the
             unmodified dict; locals assigned inside are not visible afterwards) -> pyTryHandlers on the dict
  pcsoglue   a parameter of type `U2PSt` is a PCSO as the model's record Qv.Pcso.PSt: `pcso._ancilla` -> its field `anc`;
             `PCBO()` with `PCBO` bound by `from . import …` -> pyNewPCBO (the empty Qv.St); `h._ancilla = e` on such a local ->
             record update of `anc`; `PCBO.is_solution_valid(self, solution)` -> the registered (translated) method of PCBO
  consloops  `self` of type `Cons` is `self._constraints` (ONE list of (relation, PUBO) pairs in append order):
             `self._constraints.get(key, [])` -> pyConsRelU2; inside `if self._constraints.get(key, []):` (same `key`, a
             parameter that is not re-assigned) `self._constraints[key]` -> pyConsRelU2 (the key is present),
             `self._constraints[key].pop()` as a statement -> pyConsPopLastU2, `self._constraints.pop(key)` as a statement ->
             pyConsDelKeyU2 (`del self._constraints[key]` is read as that statement); elsewhere these are rejected;
             registry `normalize=("alias",)`: `X = self._constraints.get(key); if X: … X …` is first written back as the
             lookups above (util.expand_guarded_alias)
"""
import ast
from .. import translate as T
from ..translate import (Simple, TTuple, TOpt, TList, res, same, lean_ty, is_num, proj, mangle, Untranslatable,
                         RAT, INT, NAT, BOOL, PROP, VAR, KEY, POLY, UNIT, OPAQUE, PARAM_TYPES, EXC)
from . import util as U
from .util import PSET
from .reduce import CONS

TEMP = Simple("U2Temp", "PyTempU2")          # a temperature: literal 0 or a / log(p)
LOGV = Simple("U2Log", "PyLogU2")            # math.log(p), symbolically
POLYFN = Simple("U2PolyFn", "(Poly → Except Err Poly)")
SYMEXPR = Simple("U2Expr", "R")              # a sympy expression
PYCOEF, COEFDICT = U.PYCOEF, U.COEFDICT
RELT = Simple("U2Rel", "Qv.Rel")
PST = Simple("U2PSt", "Pcso.PSt")            # a PCSO object: terms, _ancilla, recorded constraints
ST = T.ST

PARAM_TYPES.update({
    "U2PSt": lambda: PST, "U2Rel": lambda: RELT,
    "U2Temp": lambda: TEMP, "U2TempPair": lambda: TTuple([TEMP, TEMP]), "U2PolyFn": lambda: POLYFN,
})


def _wrap_coerce(prev):
    def coerce(s, frm, to, node=None):
        f, t = res(frm), res(to)
        if t is PYCOEF and f is SYMEXPR:
            return "(Sym.PyCoef.sym %s)" % s
        return prev(s, frm, to, node)
    return coerce


# the rules of harness/translate.py look `coerce` up in that module, those of tie_ext/util.py in util: extend both
T.coerce = _wrap_coerce(T.coerce)
U.coerce = _wrap_coerce(U.coerce)


def _float_literal(n):
    """a float literal with an integer value (`1.`): that rational"""
    if isinstance(n, ast.Constant) and isinstance(n.value, float) and n.value == int(n.value) and abs(n.value) < 2 ** 31:
        v = int(n.value)
        return "(%d : Rat)" % v if v >= 0 else "(-%d : Rat)" % -v
    return None


def _is_zero_literal(n):
    return isinstance(n, ast.Constant) and not isinstance(n.value, bool) and isinstance(n.value, (int, float)) and n.value == 0


class FnExt(U.FnExt):

    # ------------------------------------------------------------------ expressions

    def cons_attr(self, n, env):
        """`self._constraints` on a parameter of type Cons -> its lean name, else None"""
        if isinstance(n, ast.Attribute) and n.attr == "_constraints" and isinstance(n.value, ast.Name) and n.value.id in env \
                and res(env[n.value.id]) is CONS:
            return mangle(n.value.id)
        return None

    def cons_get(self, n, env):
        """`self._constraints.get(key, [])` -> (self, key) or None"""
        if isinstance(n, ast.Call) and isinstance(n.func, ast.Attribute) and n.func.attr == "get" and len(n.args) == 2 \
                and not n.keywords and self.cons_attr(n.func.value, env) and isinstance(n.args[1], ast.List) \
                and not n.args[1].elts and isinstance(n.args[0], ast.Name) and n.args[0].id in env \
                and res(env[n.args[0].id]) is RELT:
            return self.cons_attr(n.func.value, env), n.args[0].id
        return None

    def cons_item(self, n, env):
        """`self._constraints[key]` inside the guard `if self._constraints.get(key, []):` -> (self, key) or None"""
        if isinstance(n, ast.Subscript) and self.cons_attr(n.value, env) and isinstance(n.slice, ast.Name) \
                and n.slice.id in env and res(env[n.slice.id]) is RELT:
            if getattr(n, "_u2_guard", None) != n.slice.id:
                raise Untranslatable("self._constraints[%s] outside `if self._constraints.get(%s, []):`" % (
                    n.slice.id, n.slice.id), n)
            return self.cons_attr(n.value, env), n.slice.id
        return None

    def if_(self, test, body, orelse, env, cont, ind, flow, node):
        g = self.cons_get(test, env)
        if g and g[1] not in self.assigned(self.fnode.body):
            for b in body:                      # the key is present throughout the body of this `if`
                for x in ast.walk(b):
                    if isinstance(x, ast.Subscript) and isinstance(x.slice, ast.Name) and x.slice.id == g[1]:
                        x._u2_guard = g[1]
        return U.FnExt.if_(self, test, body, orelse, env, cont, ind, flow, node)

    def expr(self, n, env, expected=None):
        exp = res(expected) if expected is not None else None
        g = self.cons_get(n, env)
        if g:
            return "(pyConsRelU2 %s %s)" % (g[0], mangle(g[1])), TList(POLY)
        g = self.cons_item(n, env) if isinstance(n, ast.Subscript) else None
        if g:
            return "(pyConsRelU2 %s %s)" % (g[0], mangle(g[1])), TList(POLY)
        if exp is TEMP and _is_zero_literal(n):
            return "PyTempU2.lit0", TEMP
        if isinstance(n, ast.Attribute) and isinstance(n.value, ast.Name) and n.value.id in env \
                and res(env[n.value.id]) is PST:
            if n.attr == "_ancilla":
                return "(Pcso.PSt.anc %s)" % mangle(n.value.id), NAT
            raise Untranslatable("attribute .%s of the PCSO object" % n.attr, n)
        if isinstance(n, ast.IfExp) and exp is None:
            # `a if c else b` one of whose operands is a float made with log: the other operand is read as such a float too
            for br in (n.body, n.orelse):
                nb = self.nbind
                try:
                    (_, tb), _ = self.framed(lambda br=br: self.expr(br, env))
                except Untranslatable:
                    tb = None
                self.nbind = nb
                if tb is not None and res(tb) is TEMP:
                    return U.FnExt.expr(self, n, env, TEMP)
        return U.FnExt.expr(self, n, env, expected)

    def binop(self, op, left, right, env, node):
        if isinstance(op, ast.Div) and isinstance(right, ast.Call) and isinstance(right.func, ast.Name) \
                and right.func.id == "log":
            a, ta = self.expr(left, env)                # left operand first, then the right one, then the division
            b, tb = self.expr(right, env)
            if res(tb) is LOGV and is_num(ta):
                return self.bind("(pyDivLogU2 %s %s)" % (T.coerce(a, ta, RAT, node), b), TEMP, node)
            raise Untranslatable("division of a %s by a %s" % (lean_ty(ta), lean_ty(tb)), node)
        if isinstance(op, ast.Mult) and _float_literal(right) is not None:
            a, ta = self.expr(left, env)
            if res(ta) is SYMEXPR:
                return "(pyExprMulU2 %s %s)" % (a, _float_literal(right)), SYMEXPR
            if res(ta) is PYCOEF:
                return "(pyCoefMulU2 %s %s)" % (a, _float_literal(right)), PYCOEF
            raise Untranslatable("a %s times a float literal" % lean_ty(ta), node)
        return U.FnExt.binop(self, op, left, right, env, node)

    def subscript(self, n, env):
        if self.coef_dict_name(n, env) and isinstance(n.ctx, ast.Load) and not isinstance(n.slice, ast.Slice):
            key, tk = self.expr(n.slice, env)
            if res(tk) is not KEY:
                raise Untranslatable("item read with a key that is not a tuple of labels", n)
            return "(pyCoefGetItemU2 %s %s)" % (mangle(n.value.id), key), PYCOEF       # DictArithmetic.__getitem__: get(k, 0)
        return U.FnExt.subscript(self, n, env)

    def iter_source(self, n, env):
        if isinstance(n, ast.Call) and isinstance(n.func, ast.Name) and n.func.id in ("tuple", "list") and n.func.id not in env \
                and len(n.args) == 1 and not n.keywords and isinstance(n.args[0], ast.Call) \
                and isinstance(n.args[0].func, ast.Attribute) and n.args[0].func.attr == "items":
            self.builtin(n.func.id, env, n)
            return self.iter_source(n.args[0], env)          # a snapshot of the items: the same list
        return U.FnExt.iter_source(self, n, env)

    def compare(self, n, env):
        if len(n.ops) == 1 and isinstance(n.ops[0], (ast.In, ast.NotIn)):
            nb = self.nbind
            (b, tb), fr = self.framed(lambda: self.expr(n.comparators[0], env))
            if res(tb) is KEY and not fr:
                a, ta = self.expr(n.left, env)
                if res(ta) is not VAR:
                    raise Untranslatable("`in` on a tuple of labels with something that is not a label", n)
                return "((pyKeyInU2 %s %s) = %s)" % (b, a, "true" if isinstance(n.ops[0], ast.In) else "false")
            self.nbind = nb
        return U.FnExt.compare(self, n, env)

    def gen_list(self, g, env):
        """a generator expression with one or two `for` clauses (no filters) as the list of its elements, in order"""
        gens = g.generators
        if not (1 <= len(gens) <= 2) or any(x.is_async or x.ifs for x in gens):
            raise Untranslatable("generator expression with filters / more than two for clauses", g)
        src1, et1 = self.iter_source(gens[0].iter, env)
        if not isinstance(gens[0].target, ast.Name) or gens[0].target.id in env:
            raise Untranslatable("generator target that is not a fresh name", g)
        env1 = dict(env)
        env1[gens[0].target.id] = et1
        x1 = mangle(gens[0].target.id)
        if len(gens) == 1:
            e, te = self.pure_only(lambda: self.expr(g.elt, env1), "a generator expression", g)
            return "(List.map (fun (%s : %s) => %s) %s)" % (x1, lean_ty(et1), e, src1), te
        src2, et2 = self.pure_only(lambda: self.iter_source(gens[1].iter, env1), "a generator expression", g)
        if not isinstance(gens[1].target, ast.Name) or gens[1].target.id in env1:
            raise Untranslatable("generator target that is not a fresh name", g)
        env2 = dict(env1)
        env2[gens[1].target.id] = et2
        x2 = mangle(gens[1].target.id)
        e, te = self.pure_only(lambda: self.expr(g.elt, env2), "a generator expression", g)
        return "(List.flatMap (fun (%s : %s) => List.map (fun (%s : %s) => %s) %s) %s)" % (
            x1, lean_ty(et1), x2, lean_ty(et2), e, src2, src1), te

    def call(self, n, env):
        f = n.func
        callees = self.e.get("callees", {})
        if isinstance(f, ast.Name) and f.id in callees and f.id not in env:
            module, tyname = callees[f.id]
            self.need_import(module, f.id, n)
            if sum(1 for x in self.module_names() if x == f.id) != 1 or f.id in self.assigned(self.fnode.body):
                raise Untranslatable("%s is rebound" % f.id, n)
            if PARAM_TYPES[tyname]() is not POLYFN or len(n.args) != 1 or n.keywords:
                raise Untranslatable("call of the opaque callee %s with these arguments" % f.id, n)
            a, ta = self.expr(n.args[0], env)
            if res(ta) is not POLY:
                raise Untranslatable("%s applied to a %s" % (f.id, lean_ty(ta)), n)
            return self.bind("(%s %s)" % (mangle(f.id), a), POLY, n)
        if isinstance(f, ast.Name) and f.id == "PCBO" and f.id not in env and not n.args and not n.keywords \
                and self.e.get("dot_classes"):
            self.need_dot_import("PCBO", n)
            return "(pyNewPCBO)", ST
        if isinstance(f, ast.Attribute) and isinstance(f.value, ast.Name) and f.value.id == "PCBO" and f.value.id not in env \
                and self.e.get("dot_classes") and not n.keywords:
            self.need_dot_import("PCBO", n)
            callee = self.done.get("PCBO.%s" % f.attr)
            if callee is None or callee.get("func") != "PCBO.%s" % f.attr or callee["file"] != "qubovert/_pcbo.py":
                raise Untranslatable("PCBO.%s is not a registered method of PCBO" % f.attr, n)
            if callee["status"] != "translated" or callee["raises"]:
                raise Untranslatable("call of PCBO.%s, which is itself %s" % (f.attr, callee["status"]), n)
            args = self.pass_args(f.attr, n, env, callee["param_tys"], False)
            return "(%s %s)" % (callee["lean"], " ".join(args)), callee["ret_ty"]
        if isinstance(f, ast.Attribute) and f.attr == "simplify" and not n.args and not n.keywords and self.e.get("sym_simplify"):
            r, tr = self.expr(f.value, env)
            if res(tr) is PYCOEF:
                return self.bind("(pySimplifyU2 _py_simplify %s)" % r, SYMEXPR, n)
            raise Untranslatable(".simplify() of a %s" % lean_ty(tr), n)
        if isinstance(f, ast.Name) and f.id == "log" and f.id not in env and len(n.args) == 1 and not n.keywords:
            self.need_import("math", "log", n)
            a, ta = self.expr(n.args[0], env)
            if not is_num(ta):
                raise Untranslatable("log of a %s" % lean_ty(ta), n)
            return self.bind("(pyLogU2 %s)" % T.coerce(a, ta, RAT, n), LOGV, n)
        if isinstance(f, ast.Name) and f.id == "any" and f.id not in env and len(n.args) == 1 and not n.keywords \
                and isinstance(n.args[0], (ast.Tuple, ast.List)) and n.args[0].elts:
            self.builtin("any", env, n)
            parts = [self.pure_only(lambda x=x: self.cond(x, env), "an operand of any((…))", n) for x in n.args[0].elts]
            return "(" + " ∨ ".join(parts) + ")", PROP
        if isinstance(f, ast.Name) and f.id == "set" and f.id not in env and len(n.args) == 1 and not n.keywords \
                and isinstance(n.args[0], ast.GeneratorExp):
            self.builtin("set", env, n)
            l, te = self.gen_list(n.args[0], env)
            if res(te) is not VAR:
                raise Untranslatable("set() of a generator of %s" % lean_ty(te), n)
            return "(pySetOfList %s)" % l, PSET
        return U.FnExt.call(self, n, env)

    # ------------------------------------------------------------------ statements

    def coef_dict_name(self, n, env):
        return isinstance(n, ast.Subscript) and isinstance(n.value, ast.Name) and n.value.id in env \
            and res(env[n.value.id]) is COEFDICT

    def stmt(self, stmts, env, k, ind, flow):
        s, rest = stmts[0], stmts[1:]
        pad = " " * ind
        # D[k] *= c   on a DictArithmetic: D[k] = D[k] * c  (__getitem__, then __setitem__)
        if isinstance(s, ast.AugAssign) and self.coef_dict_name(s.target, env) and isinstance(s.op, ast.Mult):
            d = mangle(s.target.value.id)
            key, tk = self.expr(s.target.slice, env)
            if res(tk) is not KEY:
                raise Untranslatable("item update with a key that is not a tuple of labels", s)
            c = _float_literal(s.value)
            if c is None:
                raise Untranslatable("D[k] *= something that is not a float literal", s)
            return "let %s : Sym.CoefItems R := (pyCoefSetItem %s %s (pyCoefMulU2 (pyCoefGetItemU2 %s %s) %s));\n%s%s" % (
                d, d, key, d, key, c, pad, self.block(rest, env, k, ind, flow))
        # del self._constraints[key]  ==  self._constraints.pop(key) as a statement (a builtin dict: both remove the entry,
        # both raise KeyError when it is absent; the popped value is discarded)
        if isinstance(s, ast.Delete) and len(s.targets) == 1 and isinstance(s.targets[0], ast.Subscript) \
                and self.cons_attr(s.targets[0].value, env) and isinstance(s.targets[0].slice, ast.Name):
            t0 = s.targets[0]
            call = ast.Expr(value=ast.Call(func=ast.Attribute(value=t0.value, attr="pop", ctx=ast.Load()),
                                           args=[ast.Name(id=t0.slice.id, ctx=ast.Load())], keywords=[]))
            ast.copy_location(call, s)
            ast.fix_missing_locations(call)
            return self.stmt([call] + list(rest), env, k, ind, flow)
        # self._constraints[key].pop()  /  self._constraints.pop(key)   as statements
        if isinstance(s, ast.Expr) and isinstance(s.value, ast.Call) and isinstance(s.value.func, ast.Attribute) \
                and s.value.func.attr == "pop" and not s.value.keywords:
            c = s.value
            recv = c.func.value
            if not c.args and isinstance(recv, ast.Subscript) and self.cons_attr(recv.value, env):
                d, key = self.cons_item(recv, env)
                return "let %s : List (Qv.Rel × Poly) := (pyConsPopLastU2 %s %s);\n%s%s" % (
                    d, d, mangle(key), pad, self.block(rest, env, k, ind, flow))
            if len(c.args) == 1 and self.cons_attr(recv, env) and isinstance(c.args[0], ast.Name) and c.args[0].id in env \
                    and res(env[c.args[0].id]) is RELT:
                d = self.cons_attr(recv, env)
                if any(getattr(x, "_u2_guard", None) == c.args[0].id for b in rest for x in ast.walk(b)):
                    raise Untranslatable("self._constraints[%s] after self._constraints.pop(%s)" % (c.args[0].id, c.args[0].id), s)
                return "let %s : List (Qv.Rel × Poly) := (pyConsDelKeyU2 %s %s);\n%s%s" % (
                    d, d, mangle(c.args[0].id), pad, self.block(rest, env, k, ind, flow))
        # h._ancilla = e   on a local PCBO
        if isinstance(s, ast.Assign) and len(s.targets) == 1 and isinstance(s.targets[0], ast.Attribute) \
                and isinstance(s.targets[0].value, ast.Name) and s.targets[0].value.id in env \
                and res(env[s.targets[0].value.id]) is ST and s.targets[0].attr == "_ancilla":
            h = mangle(s.targets[0].value.id)
            v, tv = self.expr(s.value, env)
            return "let %s : St := { %s with anc := %s };\n%s%s" % (h, h, T.coerce(v, tv, NAT, s), pad,
                                                                    self.block(rest, env, k, ind, flow))
        return U.FnExt.stmt(self, stmts, env, k, ind, flow)

    def try_(self, s, env, cont, ind):
        body = s.body
        last = body[-1] if body else None
        if not (isinstance(last, ast.Assign) and len(last.targets) == 1 and self.coef_dict_name(last.targets[0], env)
                and all(isinstance(b, ast.Assign) and len(b.targets) == 1 and isinstance(b.targets[0], ast.Name)
                        for b in body[:-1])):
            return U.FnExt.try_(self, s, env, cont, ind)
        # `try: D[k] = E  except Exc: H`: the store cannot raise (already squashed key), so every exception of the body is
        # raised before its only mutation and the handlers start from the unmodified dict
        pad = " " * ind
        dname = last.targets[0].value.id
        d = mangle(dname)
        if not s.handlers or s.orelse or s.finalbody:
            raise Untranslatable("try without except clause / with else / finally", s)
        for h in s.handlers:
            if not (isinstance(h.type, ast.Name) and h.type.id in EXC and h.name is None) or h.type.id in self.module_names():
                raise Untranslatable("except clause that is not a plain builtin exception of the model's enum", s)
        if len({h.type.id for h in s.handlers}) != len(s.handlers):
            raise Untranslatable("two except clauses for the same exception", s)
        for part in [s.body] + [h.body for h in s.handlers]:
            for b in part:
                for x in ast.walk(b):
                    if isinstance(x, (ast.Return, ast.Continue, ast.Break, ast.Raise, ast.Try)):
                        raise Untranslatable("%s inside try / except" % type(x).__name__, x)
            if [x for x in self.assigned(part) if x in env] or [x for x in self.mutated(part) if x != dname]:
                raise Untranslatable("try / except parts that re-assign outer locals or mutate another object", s)
        if self.mutated(body[:-1]):
            raise Untranslatable("try body that mutates the dict before its last statement", s)

        def k_body(env2):
            return "(Except.ok %s)" % d

        text = self.block(s.body, env, k_body, ind + 4, None)
        hs = (",\n%s     " % pad).join("(%s, (%s))" % (EXC[h.type.id], self.block(h.body, env, k_body, ind + 4, None))
                                        for h in s.handlers)
        return "((pyTryHandlers\n%s    (%s)\n%s    [%s]) >>= fun (_py_try : Sym.CoefItems R) =>\n%slet %s : Sym.CoefItems R := _py_try;\n%s%s)" % (
            pad, text, pad, hs, pad, d, pad, cont(env))

    # ------------------------------------------------------------------ the function

    def body_statements(self):
        stmts = U.FnExt.body_statements(self)
        ip = self.e.get("inplace")
        if ip:
            if any(isinstance(x, ast.Return) for x in ast.walk(self.fnode)):
                raise Untranslatable("return in a procedure registered as updating %s in place" % ip, self.fnode)
            stmts = list(stmts) + [ast.Return(value=ast.Name(id=ip, ctx=ast.Load(), lineno=self.fnode.end_lineno),
                                              lineno=self.fnode.end_lineno)]
        return stmts

    def translate_once(self):
        binders, ptys, body = U.FnExt.translate_once(self)
        if self.e.get("sym_simplify"):
            binders = ["{R : Type} [Sym.Coef R]"] + binders + ["(_py_simplify : R → R)"]
        extra = ["(%s : %s)" % (mangle(name), lean_ty(PARAM_TYPES[ty]())) for name, (_, ty) in self.e.get("callees", {}).items()]
        if extra:
            if self.e.get("set_order"):
                binders = binders[:-1] + extra + binders[-1:]
            else:
                binders = binders + extra
        return binders, ptys, body


# ------------------------------------------------------------------------------------------------- registry

REGISTRY = [
    dict(file="qubovert/sim/_anneal_temperature_range.py", func="anneal_temperature_range", lean="anneal_temperature_range_u2",
         unit="TempRange", group="TempRange", props=["C15"], monadic=True, set_order=True, join_points=True,
         params=[("model", "Poly"), ("start_flip_prob", "Rat"), ("end_flip_prob", "Rat"), ("spin", "Bool")],
         defaults={"start_flip_prob": "0.5", "end_flip_prob": "0.01", "spin": "False"},
         callees={"pubo_to_puso": ("qubovert.utils", "U2PolyFn")}, returns="U2TempPair", normalize=("setcomp", "helper"),
         extra_theorems=["tempRange_raw_u2", "tempRange_obj_u2"],
         not_translated=["`pubo_to_puso` is an opaque parameter of the generated function (any function dict -> dict that may "
                         "raise; instantiated with the model's `puboToPusoV` in the bridge theorems; the conversion itself is "
                         "tied in the groups ConvGen / Conv2Free)",
                         "`model` is the list of its items (a dict / model object is read only through iteration and "
                         "`.items()`); the iteration order of the Python set `variables` is the abstract parameter `_py_ord`",
                         "floats: `math.log(p)` is kept symbolically (its argument), `a / log(p)` as the pair (a, p); the two "
                         "exceptions they can raise (ValueError for p <= 0, ZeroDivisionError for p = 1) are modelled, "
                         "rounding is not"]),
]

REGISTRY += [
    dict(file=U.DA_FILE, func="DictArithmetic.simplify", lean="dict_simplify_u2", unit="Simplify", group="Simplify", props=["C16"],
         monadic=True, params=[("self", "CoefItems")], inplace="self", sym_simplify=True, returns="CoefItems",
         extra_theorems=["subs_simplifyItems_u2"],
         not_translated=["sympy's `simplify` is one opaque function `_py_simplify` on expressions; a coefficient is a number or an "
                         "expression (Qv.Sym.PyCoef); the float literal `1.` is the rational 1 (floats are exact in the model)",
                         "`self[k] = val` stores the already squashed key `k` unless `val` is falsy (pyCoefSetItem); the procedure "
                         "returns None: the generated function returns the updated `self`"]),
]

PCSO_FILE = "qubovert/_pcso.py"
REGISTRY += [
    dict(file=PCSO_FILE, func="_empty_pcbo", lean="empty_pcbo_u2", unit="PcsoGlue", group="PcsoGlue", props=["C03"],
         params=[("pcso", "U2PSt")], defaults={}, dot_classes=True, extra_theorems=["pcso_bodies_chain_u2"],
         not_translated=["the PCSO is the model's record Qv.Pcso.PSt (only `_ancilla` is read); `PCBO()` is the empty model state "
                         "(pyNewPCBO = St.fresh)"]),
    dict(file=PCSO_FILE, func="PCSO.is_solution_valid", lean="pcso_is_solution_valid_u2", unit="PcsoGlue", group="PcsoGlue",
         props=["C03"], params=[("self", "Cons"), ("solution", "Assign")], defaults={}, dot_classes=True,
         not_translated=["`self` is its recorded-constraint list (all `PCBO.is_solution_valid` reads); the callee is the generated "
                         "`PCBO.is_solution_valid` (group Valid), not a prelude primitive"]),
]

REGISTRY += [
    dict(file="qubovert/_pcbo.py", func="PCBO._pop_constraint", lean="pcbo_pop_constraint_u2", unit="ConsLoops", group="ConsLoops",
         props=["C02", "C03", "C06"], params=[("self", "Cons"), ("key", "U2Rel")], defaults={}, inplace="self", returns="Cons",
         normalize=("alias",),
         extra_theorems=["pop_chain_u2"],
         not_translated=["`self` is `self._constraints`, read as ONE list of (relation, PUBO) pairs in append order (the dict "
                         "of per-relation lists is its grouping: pyConsRelU2 / pyConsPopLastU2 / pyConsDelKeyU2); "
                         "`self._constraints[key]` is accepted only under the guard `if self._constraints.get(key, []):`; the "
                         "procedure returns None: the generated function returns the updated list"]),
]

UNITS = {
    "ConsLoops": ("SourceConsLoops.lean", ["Qv.Model.Pcbo", "Qv.Gen.PreludeUtil2"]),
    "PcsoGlue": ("SourcePcsoGlue.lean", ["Qv.Model.Pcso", "Qv.Gen.PreludePcbo", "Qv.Gen.SourceValid", "Qv.Gen.PreludeUtil2"]),
    "Simplify": ("SourceSimplify.lean", ["Qv.Model.SimplifyItems", "Qv.Gen.PreludeUtil2"]),
    "TempRange": ("SourceTempRange.lean", ["Qv.Model.TempRange", "Qv.Gen.PreludeUtil2"]),
}

ENTRY_BY_LEAN = {e.get("lean", e["func"].split(".")[-1]): e for e in REGISTRY}


# ------------------------------------------------------------------------------------------------- real-code replay (gen_search)

from fractions import Fraction
import math as _math

_fs, _jpoly = U._fs, U._jpoly


class TempResultU2:
    """the pair returned by anneal_temperature_range, printed like the Lean side's showTempPairU2: a temperature is `0` or
    `a/log(p)` with the rational `a = T * log(p)` recovered from the float"""
    def __init__(self, T0, Tf, ps, pe):
        self.T = (T0, Tf)
        self.p = (ps, pe)

    def one(self, T, p):
        if T == 0:
            return "0"
        if p <= 0 or p == 1:
            return repr(T)
        a = Fraction(T * _math.log(p)).limit_denominator(10 ** 6)
        return "%s/log(%s)" % (_fs(a), _fs(p))

    def __repr__(self):
        return "(%s, %s)" % (self.one(self.T[0], self.p[0]), self.one(self.T[1], self.p[1]))


def _c15_real(inp):
    from qubovert.sim import anneal_temperature_range
    model = {tuple(k): Fraction(v) for k, v in inp["model"]}
    if len(model) != len(inp["model"]):
        raise NotImplementedError("repeated key")
    ps, pe = Fraction(inp["start_flip_prob"]), Fraction(inp["end_flip_prob"])
    T0, Tf = anneal_temperature_range(model, ps, pe, inp["spin"])
    return TempResultU2(T0, Tf, ps, pe)


def _c15_oracle(inp, got, names):
    """C15 (T15.4): the returned temperatures satisfy T0 >= Tf >= 0, and a model without variables gives (0, 0)"""
    T0, Tf = got.T
    if not (T0 >= Tf >= 0):
        return False, "T0 = %r, Tf = %r: not T0 >= Tf >= 0" % (T0, Tf)
    if all(not k for k, _ in inp["model"]) and (T0, Tf) != (0, 0):
        return False, "no variables but the result is (%r, %r)" % (T0, Tf)
    return True, "T0 = %r >= Tf = %r >= 0" % (T0, Tf)


REAL = {
    "anneal_temperature_range_u2": ("C15", _c15_real, ("model", "start_flip_prob", "end_flip_prob", "spin"), _c15_oracle),
}


# ---- C16: DictArithmetic.simplify

def _c16_build_u2(inp):
    import sympy
    from qubovert.utils import DictArithmetic
    lam = sympy.Symbol("lam")
    keys = [tuple(k) for k, _ in inp["items"]]
    if len(set(keys)) != len(keys):
        raise NotImplementedError("repeated key")
    d = DictArithmetic()
    for k, c in inp["items"]:
        if "num" in c:
            v = Fraction(c["num"])
            if not v:
                raise NotImplementedError("a stored zero")
        else:
            v = sum((sympy.Rational(Fraction(a).numerator, Fraction(a).denominator) * lam ** i for i, a in enumerate(c["sym"])),
                    sympy.Integer(0))
            if not v.free_symbols:
                raise NotImplementedError("a constant expression is a sympy number, not an expression in the symbol")
        dict.__setitem__(d, tuple(k), v)
    return d, lam


def _c16_real_u2(inp):
    import sympy
    d, lam = _c16_build_u2(inp)
    c = Fraction(inp["c"])
    d.simplify()
    cc = sympy.Rational(c.numerator, c.denominator)
    return U.PolyResult({k: Fraction(float(sympy.sympify(v).subs({lam: cc}))).limit_denominator(1 << 40) for k, v in d.items()})


def _c16_oracle_u2(inp, got, names):
    """C16: simplify() keeps the substituted model — subs(lam -> c) of the simplified dict equals subs of the original"""
    import sympy
    d, lam = _c16_build_u2(inp)
    c = Fraction(inp["c"])
    cc = sympy.Rational(c.numerator, c.denominator)
    want = {k: Fraction(float(v)).limit_denominator(1 << 40) for k, v in d.subs({lam: cc}).items()}
    have = {k: v for k, v in got.d.items() if v}
    return (have == want), "subs of the original %s, simplified dict at lam=c %r" % (_jpoly(want), got)


REAL["dict_simplify_u2"] = ("C16", _c16_real_u2, ("items", "c"), _c16_oracle_u2)


# ---- C03: _empty_pcbo, PCSO.is_solution_valid

class StResultU2:
    """a PCBO printed like the Lean side's showStU2"""
    def __init__(self, h):
        self.h = h

    def __repr__(self):
        cons = "[" + ", ".join('["%s", %s]' % (r, _jpoly({k: Fraction(v) for k, v in P.items()}))
                                for r, Ps in self.h.constraints.items() for P in Ps) + "]"
        return "anc %d | terms %s | constraints %s | warnings 0" % (
            self.h.num_ancillas, _jpoly({k: Fraction(v) for k, v in self.h.items()}), cons)


def _c03_pcso(inp):
    import warnings
    from qubovert import PCSO
    H = PCSO({tuple(k): Fraction(v) for k, v in inp.get("terms", [])})
    with warnings.catch_warnings():
        warnings.simplefilter("ignore")
        for rel, P in inp["constraints"]:
            getattr(H, "add_constraint_%s_zero" % rel)({tuple(k): Fraction(v) for k, v in P}, lam=0)
    return H


def _c03_real_empty(inp):
    from qubovert._pcso import _empty_pcbo
    H = _c03_pcso(inp)
    if dict(H) != {tuple(k): Fraction(v) for k, v in inp["terms"]}:
        raise NotImplementedError("terms are not in the class's canonical form")
    H._ancilla = inp["ancilla"]
    return StResultU2(_empty_pcbo(H))


def _c03_oracle_empty(inp, got, names):
    """C03 (T3.5): the helper PCBO starts empty with the PCSO's ancilla counter, so new ancilla names do not repeat old ones"""
    h = got.h
    ok = h.num_ancillas == inp["ancilla"] and not dict(h) and not h.constraints
    return ok, "helper PCBO: %r; the PCSO's counter is %d" % (got, inp["ancilla"])


def _c03_real_valid(inp):
    H = _c03_pcso(inp)
    return bool(H.is_solution_valid({0: inp["z0"]}))


def _c03_oracle_valid(inp, got, names):
    """C03 (T3.4): is_solution_valid(z) is true exactly when every recorded spin constraint holds at z"""
    import operator
    ops = dict(eq=operator.eq, ne=operator.ne, lt=operator.lt, le=operator.le, gt=operator.gt, ge=operator.ge)
    z = {0: Fraction(inp["z0"])}
    want = True
    for rel, P in inp["constraints"]:
        val = Fraction(0)
        for k, v in P:
            m = Fraction(v)
            for i in k:
                m *= z[i]
            val += m
        want = want and ops[rel](val, 0)
    return (got == want), "every recorded constraint holds: %s, is_solution_valid returned %s" % (want, got)


REAL["empty_pcbo_u2"] = ("C03", _c03_real_empty, ("ancilla", "terms", "constraints"), _c03_oracle_empty)
REAL["pcso_is_solution_valid_u2"] = ("C03", _c03_real_valid, ("constraints", "z0"), _c03_oracle_valid)


# ---- C02: PCBO._pop_constraint

class ConsResultU2:
    """the recorded constraints as (relation, PUBO) pairs, printed like the Lean side's jConsCL.  The real object keeps one list
    per relation; the pairs are listed in the order of the input with the popped one removed (relations compared list-wise)"""
    def __init__(self, cons, order):
        self.cons, self.order = cons, order

    def __repr__(self):
        left = {r: list(Ps) for r, Ps in self.cons.items()}
        out = []
        for r, P in self.order:
            if left.get(r) and left[r][0] == P:
                out.append('["%s", %s]' % (r, _jpoly(P)))
                left[r].pop(0)
        rest = ['["%s", %s]' % (r, _jpoly(P)) for r, Ps in left.items() for P in Ps]
        return "[" + ", ".join(out + ["EXTRA"] * bool(rest) + rest) + "]"


def _c02_real_pop(inp):
    import warnings
    from qubovert import PCBO
    H = PCBO()
    order = []
    with warnings.catch_warnings():
        warnings.simplefilter("ignore")
        for rel, P in inp["constraints"]:
            P = {tuple(k): Fraction(v) for k, v in P}
            getattr(H, "add_constraint_%s_zero" % rel)(P, lam=0)
            order.append((rel, P))
    H._pop_constraint(inp["key"])
    return ConsResultU2({r: [{k: Fraction(v) for k, v in P.items()} for P in Ps] for r, Ps in H._constraints.items()}, order)


def _c02_oracle_pop(inp, got, names):
    """C02 (T2.4): after an inner call and `_pop_constraint(rel)` exactly the inner call's record is gone — the LAST constraint
    recorded under `rel` is removed, every other one stays, and no empty list is left behind"""
    want = {}
    for rel, P in inp["constraints"]:
        want.setdefault(rel, []).append({tuple(k): Fraction(v) for k, v in P})
    if want.get(inp["key"]):
        want[inp["key"]].pop()
        if not want[inp["key"]]:
            del want[inp["key"]]
    return (got.cons == want), "expected %s, got %s" % (want, got.cons)


REAL["pcbo_pop_constraint_u2"] = ("C02", _c02_real_pop, ("constraints", "key"), _c02_oracle_pop)
