"""Tie extension for the annealer front ends `qubovert/sim/_anneal.py` (C11, C12, C17).

Each registered function is cut into *segments* of consecutive top-level statements (CUTS: the boundaries are found by what
a statement is, not by its text; they must occur in the listed order, so the segments partition the body).  A segment is
rendered as one Lean definition `Qv.Gen.<func>_<segment>` in the `Except Err` monad: its parameters are the Python
parameters / locals it reads (registry `live`), its result the locals the later segments read (`outs`), or — when the
segment can `return` — `Flow.ret <returned value>` / `Flow.next <outs>`.  `Qv/Proofs/GenEq/Anneal*.lean` proves every
segment equal to the corresponding function of `Qv/Model/AnnealFront.lean` (through `Qv/Model/AnnealSrc.lean`).

Rules (one per construct; anything else raises Untranslatable; meaning of the `py*` names: lean/Qv/Gen/PreludeAnneal.lean)
  values      int literal (typed by its context: Nat/Int/Rat), `0.`-like float literal -> toNum, True/False, None (where an
              Option is expected), string literal, parameters / assigned locals; reading a local that is not assigned on the
              current path -> `Except.error Err.other` (UnboundLocalError)
  objects     `type(x) == C`, `!=`, `in (C, …)`, `not in (C, …)` -> pyTypeIn (C imported from qubovert / qubovert.utils);
              `C(x)` -> pyConstruct; `x.max_index`, `.num_binary_variables`, `.reverse_mapping`, `.offset`, `.degree`,
              `.to_quso()`, `.to_puso()`, `.items()`; `a if E is None else b` (E an Option expression; inside `b`, E is its value)
  numbers     + - * on Nat < Int < Rat; `double + exact` -> ofNum double + exact; comparisons; `not n` -> n = 0;
              `float(v)` -> toNum v; `int(b)` -> pyIntOfBool; `len(l)`
  lists       `[e] * n` -> pyRepeat; `[]` (element type from the registry's `local_types`); `[e for x in src]` (body may raise:
              List.mapM); `{k: v for … in …}` -> pyDictOfPairs; `l[i]` -> pyListGet, `l[i] = e` -> pyListSet, `l[i] += e`,
              `l.append(e)`, `l.extend(k)`, `rows[i].append(e)` -> pyAppendAt (only when `rows` was built by `[[] for _ in …]`),
              `k[n]` on a key -> pyGet, `i, j = k` on a key (ValueError unless two labels), `enumerate`, `range`,
              `dict(enumerate(l))` -> l, `d[k]` -> pyRevGet / pyAnnDictGet, `list(chain(*ll))`, `list(chain.from_iterable(ll))`
  statements  assignment (names, tuples of names), if/elif/else (the statements after an `if` are continued in both
              branches), for over items()/range()/enumerate()/a list (pyForM; the accumulator is the tuple of the locals the body
              rebinds or mutates), return, raise <builtin exception>, `QUBOVertWarning.warn(<literal>)` (skipped: warnings are
              not modelled), `res.add_state(…)` -> pyAddState
  calls       of the C extension (`c_anneal_quso`, `c_anneal_puso`) and, in the boolean wrappers, of `anneal_quso` /
              `anneal_puso`: parameters of the generated definition (their meaning is fixed by the theorem, which instantiates
              them with the kernel model / the model function); `_package_spin_results`, `_create_spin_schedule`: the registered
              definitions; `qubo_to_quso`, `pubo_to_puso`, `boolean_to_spin`, `.to_boolean()`: named prelude readings
"""
import ast, json, re
from fractions import Fraction
from .. import translate as T
from ..translate import Untranslatable

FILE = "qubovert/sim/_anneal.py"


class UnboundLocal(Exception):
    pass


# ------------------------------------------------------------------------------------------------ types

def L(t):
    return ("List", t)


def O(t):
    return ("Opt", t)


def Tup(*ts):
    return ("Tup", tuple(ts))


EXT_QUSO = ("Ext", (L("Flt"), L("Nat"), L("Nat"), L("Flt"), L("Flt"), "Int", "Int", L("Int"), "Int"),
            Tup(L(L("Int")), L("Flt")))
EXT_PUSO = ("Ext", ("Nat", L("Nat"), L("Nat"), L("Flt"), L("Flt"), "Int", "Int", L("Int"), "Int"),
            Tup(L(L("Int")), L("Flt")))
# anneal_quso / anneal_puso as called by the boolean wrappers: (model, num_anneals, anneal_duration, initial_state,
# temperature_range, schedule, in_order, seed)
FN_ANNEAL = ("Ext", ("Obj", "Int", "Opaque", O("Dict"), "Opaque", "Sched", "Bool", O("Int")), L("Res"))

TYPES = {
    "Obj": "Obj", "Int": "Int", "Nat": "Nat", "Rat": "Rat", "Bool": "Bool", "Poly": "Poly", "RevMap": "RevMap", "Sched": "Sched",
    "OptDict": O("Dict"), "OptInt": O("Int"), "Flts": L("Flt"), "Nats": L("Nat"), "Ints": L("Int"), "IntRows": L(L("Int")),
    "NatRows": L(L("Nat")), "FltRows": L(L("Flt")), "Results": L("Res"), "Opaque": "Opaque",
    "ExtQuso": EXT_QUSO, "ExtPuso": EXT_PUSO, "FnAnneal": FN_ANNEAL,
}
NUM = ["Nat", "Int", "Rat"]


def lean_ty(t, top=True):
    simple = {"Nat": "Nat", "Int": "Int", "Rat": "Rat", "Flt": "α", "Bool": "Bool", "Key": "Key", "Poly": "Poly", "Str": "String",
              "Obj": "Anneal.Obj", "RevMap": "List Var", "Dict": "List (Var × Int)", "Res": "Anneal.Res",
              "Sched": "Anneal.Schedule α", "Unit": "Unit", "Prop": "Prop", "Opaque": "Unit"}
    if isinstance(t, str):
        s = simple[t]
        return s if top or " " not in s else "(" + s + ")"
    if t[0] == "List":
        s = "List " + lean_ty(t[1], False)
    elif t[0] == "Opt":
        s = "Option " + lean_ty(t[1], False)
    elif t[0] == "Tup":
        s = " × ".join(lean_ty(x, False) for x in t[1])
    elif t[0] == "Ext":
        s = " → ".join([lean_ty(x, False) for x in t[1] if x != "Opaque"] + ["Except Err " + lean_ty(t[2], False)])
    else:
        raise Untranslatable("type %r" % (t,))
    return s if top else "(" + s + ")"


def proj(s, i, n):
    return T.proj(s, i, n)


CLASSES = {"QUSOMatrix": ("Kind.qusom", "qubovert.utils"), "PUSOMatrix": ("Kind.pusom", "qubovert.utils"),
           "QUSO": ("Kind.quso", "qubovert"), "PUSO": ("Kind.puso", "qubovert"), "PCSO": ("Kind.pcso", "qubovert")}
UTIL_FUNCS = {"qubo_to_quso": ("pyQuboToQuso", "Obj", "Obj"), "pubo_to_puso": ("pyPuboToPuso", "Obj", "Obj"),
              "boolean_to_spin": ("pyAnnBooleanToSpin", "Dict", "Dict")}

# segment boundaries: label -> what the first statement of the segment is
CUTS = {
    "anneal_quso": [("entry", ("start",)), ("dispatch", ("if_calls", "type")), ("state", ("if_reads", "N")),
                    ("flatten", ("assigns", "h")), ("call", ("calls", "c_anneal_quso"))],
    "anneal_puso": [("entry", ("start",)), ("dispatch", ("if_calls", "type")), ("state", ("if_reads", "N")),
                    ("flatten", ("assigns", "terms")), ("call", ("calls", "c_anneal_puso"))],
    "_create_spin_schedule": [("validate", ("start",)), ("grid", ("assigns", "T0"))],
}


def _matches(s, pred):
    kind = pred[0]
    if kind == "if_calls":
        return isinstance(s, ast.If) and any(isinstance(n, ast.Call) and isinstance(n.func, ast.Name) and n.func.id == pred[1]
                                             for n in ast.walk(s.test))
    if kind == "if_reads":
        return isinstance(s, ast.If) and any(isinstance(n, ast.Name) and n.id == pred[1] for n in ast.walk(s.test))
    if kind == "assigns":
        return isinstance(s, ast.Assign) and any(isinstance(n, ast.Name) and n.id == pred[1]
                                                 for t in s.targets for n in ast.walk(t))
    if kind == "calls":
        return any(isinstance(n, ast.Call) and isinstance(n.func, ast.Name) and n.func.id == pred[1] for n in ast.walk(s))
    raise Untranslatable("segment predicate %r" % (pred,))


class FnExt(T.Fn):
    """translation of one segment of one function of sim/_anneal.py"""
    GENERICS = {}           # lean name -> list of generic binders the definition takes (for calls between segments)

    def __init__(self, entry, module_src, fnode, done):
        self.e, self.src, self.fnode, self.done = entry, module_src, fnode, done
        self.raises, self.ret_ty = True, None
        self.tree = ast.parse(module_src)
        self.binds, self.nbind, self.nnar = [], 0, 0
        self.fresh = set()
        self.locals_all = {n.id for n in ast.walk(fnode) if isinstance(n, ast.Name) and isinstance(n.ctx, ast.Store)}

    # ---- module-level facts

    def imported_from(self, name, module, node):
        hits = 0
        for s in self.tree.body:
            if isinstance(s, ast.ImportFrom):
                for a in s.names:
                    if (a.asname or a.name) == name:
                        hits += 1 if (s.module == module and s.level == 0 and a.asname is None) else 100
            elif isinstance(s, ast.Import):
                hits += 100 * sum(1 for a in s.names if (a.asname or a.name).split(".")[0] == name)
            elif isinstance(s, (ast.FunctionDef, ast.ClassDef, ast.AsyncFunctionDef)):
                hits += 100 if s.name == name else 0
            else:
                hits += 100 * sum(1 for x in ast.walk(s) if isinstance(x, ast.Name) and isinstance(x.ctx, ast.Store) and x.id == name)
        if hits != 1 or name in self.locals_all:
            raise Untranslatable("%s is not exactly `from %s import %s`" % (name, module, name), node)

    def imported_relative(self, name, node):
        ok = any(isinstance(s, ast.ImportFrom) and s.level == 1 and any((a.asname or a.name) == name and a.asname is None
                                                                       for a in s.names) for s in self.tree.body)
        bound = sum(1 for s in self.tree.body for x in ast.walk(s)
                    if (isinstance(x, ast.alias) and (x.asname or x.name) == name)
                    or (isinstance(x, ast.Name) and isinstance(x.ctx, ast.Store) and x.id == name)
                    or (isinstance(x, (ast.FunctionDef, ast.ClassDef)) and x.name == name))
        if not ok or bound != 1 or name in self.locals_all:
            raise Untranslatable("%s is not exactly a relative import of this module" % name, node)

    def builtin(self, name, node):
        if name in self.module_names() or name in self.locals_all:
            raise Untranslatable("builtin %s is rebound" % name, node)

    def module_const_strings(self, name, node):
        hits = [s for s in self.tree.body if isinstance(s, ast.Assign) and any(isinstance(t, ast.Name) and t.id == name
                                                                              for t in s.targets)]
        if len(hits) != 1 or name in self.locals_all or not isinstance(hits[0].value, ast.Tuple) or not all(
                isinstance(x, ast.Constant) and isinstance(x.value, str) for x in hits[0].value.elts):
            raise Untranslatable("%s is not a module constant tuple of strings" % name, node)
        return [x.value for x in hits[0].value.elts]

    # ---- binds (operations that may raise, in evaluation order)

    def bind(self, action, ty, node=None):
        self.nbind += 1
        name = "_py_m%d" % self.nbind
        self.binds.append((name, ty, action))
        return name, ty

    def with_binds(self, f):
        saved, self.binds = self.binds, []
        try:
            out = f()
            frame = self.binds
        finally:
            self.binds = saved
        return out, frame

    def wrap(self, frame, text, pad):
        for name, ty, action in reversed(frame):
            text = "(%s >>= fun (%s : %s) =>\n%s%s)" % (action, name, lean_ty(ty), pad, text)
        return text

    def pure(self, f, what, node):
        out, frame = self.with_binds(f)
        if frame:
            raise Untranslatable("an operation that may raise inside %s" % what, node)
        return out

    # ---- numbers

    def is_num(self, t):
        return t in NUM

    def num_join(self, a, b, node):
        if a in NUM and b in NUM:
            return NUM[max(NUM.index(a), NUM.index(b))]
        raise Untranslatable("arithmetic on %s and %s" % (lean_ty(a), lean_ty(b)), node)

    def coerce(self, s, frm, to, node=None):
        if frm == to:
            return s
        if frm in NUM and to in NUM and NUM.index(frm) < NUM.index(to):
            return "(%s.cast %s : %s)" % (frm, s, to) if frm == "Int" else "((%s : %s) : %s)" % (s, frm, to)
        if frm == "Obj" and to == "Poly":
            return "(pyItems %s)" % s
        if frm == "Prop" and to == "Bool":
            return "(decide %s)" % s
        if frm == "Bool" and to == "Prop":
            return "(%s = true)" % s
        if isinstance(to, tuple) and to[0] == "Opt" and not (isinstance(frm, tuple) and frm[0] == "Opt"):
            return "(some %s)" % self.coerce(s, frm, to[1], node)
        if frm == L("Nat") and to == "RevMap" or frm == "RevMap" and to == L("Nat") or frm == "Key" and to == L("Nat") \
                or frm == L("Nat") and to == "Key":
            return s
        raise Untranslatable("a %s where a %s is needed" % (lean_ty(frm), lean_ty(to)), node)

    # ---- expressions

    def ex(self, n, env, want=None):
        if isinstance(n, ast.Constant):
            v = n.value
            if v is None:
                if isinstance(want, tuple) and want[0] == "Opt":
                    return "none", want
                raise Untranslatable("None where no Option type is expected", n)
            if isinstance(v, bool):
                return ("true" if v else "false"), "Bool"
            if isinstance(v, int):
                t = want if want in NUM else "Int"
                return "(%d : %s)" % (v, t), t
            if isinstance(v, float) and v == int(v) and abs(v) < 2 ** 31:
                return "(toNum (%d : Rat))" % int(v), "Flt"
            if isinstance(v, str):
                return json.dumps(v), "Str"
            raise Untranslatable("literal %r" % (v,), n)
        if isinstance(n, ast.Name):
            if n.id in env:
                if env[n.id] == "Opaque":
                    raise Untranslatable("opaque parameter %s is read" % n.id, n)
                return (n.id if n.id.startswith("_py_n") else T.mangle(n.id)), env[n.id]
            if n.id in self.locals_all:
                raise UnboundLocal(n.id)
            raise Untranslatable("name %s is not a parameter or an assigned local" % n.id, n)
        if isinstance(n, ast.Attribute):
            return self.attribute(n, env)
        if isinstance(n, ast.IfExp):
            return self.ifexp(n, env, want)
        if isinstance(n, ast.Compare):
            return self.compare(n, env), "Prop"
        if isinstance(n, ast.UnaryOp):
            if isinstance(n.op, ast.Not):
                return self.truth(n.operand, env, False), "Prop"
            if isinstance(n.op, ast.USub) and isinstance(n.operand, ast.Constant) and isinstance(n.operand.value, int) \
                    and not isinstance(n.operand.value, bool):
                t = want if want in ("Int", "Rat") else "Int"
                return "(-%d : %s)" % (n.operand.value, t), t
            raise Untranslatable("unary operator %s" % type(n.op).__name__, n)
        if isinstance(n, ast.BoolOp):
            op = " ∧ " if isinstance(n.op, ast.And) else " ∨ "
            parts = [self.truth(n.values[0], env, True)]
            parts += [self.pure(lambda v=v: self.truth(v, env, True), "a short-circuit operand", v) for v in n.values[1:]]
            return "(" + op.join(parts) + ")", "Prop"
        if isinstance(n, ast.BinOp):
            return self.binop(n, env, want)
        if isinstance(n, ast.Subscript):
            return self.subscript(n, env)
        if isinstance(n, ast.Call):
            return self.call(n, env, want)
        if isinstance(n, ast.List):
            if not n.elts:
                if isinstance(want, tuple) and want[0] == "List":
                    return "([] : %s)" % lean_ty(want), want
                raise Untranslatable("empty list display whose element type is not declared (local_types)", n)
            ewant = want[1] if isinstance(want, tuple) and want[0] == "List" else None
            parts = [self.ex(x, env, ewant) for x in n.elts]
            t = parts[0][1]
            if any(u != t for _, u in parts):
                raise Untranslatable("list display of mixed types", n)
            return "[" + ", ".join(s for s, _ in parts) + "]", L(t)
        if isinstance(n, ast.Dict):
            if n.keys or not (want == "Dict"):
                raise Untranslatable("dict display other than an empty state dict", n)
            return "([] : List (Var × Int))", "Dict"
        if isinstance(n, ast.Tuple):
            wants = want[1] if isinstance(want, tuple) and want[0] == "Tup" and len(want[1]) == len(n.elts) else [None] * len(n.elts)
            parts = [self.ex(x, env, w) for x, w in zip(n.elts, wants)]
            if len(parts) < 2:
                raise Untranslatable("tuple display with fewer than two elements", n)
            return "(" + ", ".join(s for s, _ in parts) + ")", Tup(*[t for _, t in parts])
        if isinstance(n, ast.ListComp):
            return self.comprehension(n.elt, None, n.generators, env, want, n)
        if isinstance(n, ast.DictComp):
            return self.comprehension(n.key, n.value, n.generators, env, want, n)
        raise Untranslatable("expression %s" % type(n).__name__, n)

    def as_poly(self, s, t, node):
        if t == "Obj":
            return "(pyItems %s)" % s
        if t == "Poly":
            return s
        raise Untranslatable("a %s used as a dict of terms" % lean_ty(t), node)

    def attribute(self, n, env):
        v, tv = self.ex(n.value, env)
        if n.attr == "max_index" and tv == "Obj":
            return "(pyMaxIndex %s)" % v, O("Nat")
        if n.attr == "num_binary_variables" and tv == "Obj":
            return "(pyNumBinaryVariables %s)" % v, "Nat"
        if n.attr == "reverse_mapping" and tv == "Obj":
            return "(pyReverseMapping %s)" % v, "RevMap"
        if n.attr == "offset" and tv in ("Obj", "Poly"):
            return "(pyOffsetA %s)" % self.as_poly(v, tv, n), "Rat"
        if n.attr == "degree" and tv in ("Obj", "Poly"):
            return "(pyDegree %s)" % self.as_poly(v, tv, n), "Nat"
        raise Untranslatable("attribute .%s of a %s" % (n.attr, lean_ty(tv)), n)

    def ifexp(self, n, env, want):
        t = n.test
        if isinstance(t, ast.Compare) and len(t.ops) == 1 and isinstance(t.ops[0], (ast.Is, ast.IsNot)) \
                and isinstance(t.comparators[0], ast.Constant) and t.comparators[0].value is None:
            scrut, ts = self.pure(lambda: self.ex(t.left, env), "the test of a conditional expression", n)
            if not (isinstance(ts, tuple) and ts[0] == "Opt"):
                raise Untranslatable("`is None` on a value that is not optional", n)
            self.nnar += 1
            nm = "_py_n%d" % self.nnar
            key = ast.dump(t.left)

            class Sub(ast.NodeTransformer):
                def generic_visit(self_, node):
                    if isinstance(node, ast.expr) and ast.dump(node) == key:
                        return ast.copy_location(ast.Name(id=nm, ctx=ast.Load()), node)
                    return ast.NodeTransformer.generic_visit(self_, node)
            none_e, some_e = (n.orelse, n.body) if isinstance(t.ops[0], ast.IsNot) else (n.body, n.orelse)
            import copy
            some_e = Sub().visit(copy.deepcopy(some_e))
            env2 = dict(env)
            env2[nm] = ts[1]
            (b, tb), fb = self.with_binds(lambda: self.ex(some_e, env2, want))
            (a, ta), fa = self.with_binds(lambda: self.ex(none_e, env, tb if want is None else want))
            if ta != tb:
                if ta in NUM and tb in NUM:
                    tj = self.num_join(ta, tb, n)
                    a, b, ta = self.coerce(a, ta, tj), self.coerce(b, tb, tj), tj
                elif isinstance(ta, tuple) and ta[0] == "Opt" and ta[1] == tb:
                    b = "(some %s)" % b
                elif isinstance(tb, tuple) and tb[0] == "Opt" and tb[1] == ta:
                    a, ta = "(some %s)" % a, tb
                else:
                    raise Untranslatable("conditional expression of types %s and %s" % (lean_ty(ta), lean_ty(tb)), n)
            if fa or fb:        # only the chosen operand is evaluated
                ok = "(Except.ok %%s : Except Err %s)" % lean_ty(ta, False)
                act = "(match %s with | none => %s | some %s => %s)" % (
                    scrut, self.wrap(fa, ok % a, "    "), nm, self.wrap(fb, ok % b, "    "))
                return self.bind(act, ta, n)
            return "(match %s with | none => %s | some %s => %s)" % (scrut, a, nm, b), ta
        c = self.pure(lambda: self.truth(t, env, True), "the test of a conditional expression", n)
        a, ta = self.pure(lambda: self.ex(n.body, env, want), "a conditional expression", n)
        b, tb = self.pure(lambda: self.ex(n.orelse, env, want if want is not None else ta), "a conditional expression", n)
        if ta != tb:
            raise Untranslatable("conditional expression of types %s and %s" % (lean_ty(ta), lean_ty(tb)), n)
        return "(if %s then %s else %s)" % (c, a, b), ta

    def type_test(self, left, op, right, env, node):
        """`type(x) <op> C` / `type(x) in (C, …)`"""
        if not (isinstance(left, ast.Call) and isinstance(left.func, ast.Name) and left.func.id == "type"
                and len(left.args) == 1 and not left.keywords):
            return None
        self.builtin("type", node)
        x, tx = self.ex(left.args[0], env)
        if tx != "Obj":
            raise Untranslatable("type() of a %s" % lean_ty(tx), node)
        if isinstance(op, (ast.Eq, ast.NotEq)):
            classes = [right]
        elif isinstance(op, (ast.In, ast.NotIn)) and isinstance(right, ast.Tuple):
            classes = right.elts
        else:
            raise Untranslatable("comparison of type() other than ==, !=, in (…), not in (…)", node)
        kinds = []
        for c in classes:
            if not (isinstance(c, ast.Name) and c.id in CLASSES):
                raise Untranslatable("type() compared with something that is not a known model class", node)
            self.imported_from(c.id, CLASSES[c.id][1], node)
            kinds.append(CLASSES[c.id][0])
        pos = isinstance(op, (ast.Eq, ast.In))
        return "(pyTypeIn %s [%s] = %s)" % (x, ", ".join(kinds), "true" if pos else "false")

    def compare(self, n, env):
        parts, left = [], n.left
        for op, right in zip(n.ops, n.comparators):
            tt = self.type_test(left, op, right, env, n)
            if tt is not None:
                parts.append(tt)
            elif isinstance(op, (ast.Is, ast.IsNot)):
                if not (isinstance(right, ast.Constant) and right.value is None):
                    raise Untranslatable("`is` other than `is None`", n)
                a, ta = self.ex(left, env)
                if not (isinstance(ta, tuple) and ta[0] == "Opt"):
                    raise Untranslatable("`is None` on a value that is not optional", n)
                parts.append("%s %s none" % (a, "=" if isinstance(op, ast.Is) else "≠"))
            elif isinstance(op, (ast.In, ast.NotIn)):
                a, ta = self.ex(left, env)
                if ta == "Sched" and isinstance(right, ast.Name) and right.id not in env:
                    names = self.module_const_strings(right.id, n)
                    parts.append("(pyStrIn %s [%s] = %s)" % (a, ", ".join(json.dumps(x) for x in names),
                                                              "true" if isinstance(op, ast.In) else "false"))
                else:
                    raise Untranslatable("membership test on a %s" % lean_ty(ta), n)
            else:
                sym = {ast.Lt: "<", ast.LtE: "≤", ast.Gt: ">", ast.GtE: "≥", ast.Eq: "=", ast.NotEq: "≠"}.get(type(op))
                if sym is None:
                    raise Untranslatable("comparison %s" % type(op).__name__, n)
                a, ta = self.ex(left, env)
                b, tb = self.ex(right, env, ta)
                if ta in NUM and tb in NUM:
                    t = self.num_join(ta, tb, n)
                    parts.append("%s %s %s" % (self.coerce(a, ta, t), sym, self.coerce(b, tb, t)))
                elif ta == "Sched" and tb == "Str" and sym in ("=", "≠"):
                    parts.append("(pyStrIn %s [%s] = %s)" % (a, b, "true" if sym == "=" else "false"))
                else:
                    raise Untranslatable("comparison of %s with %s" % (lean_ty(ta), lean_ty(tb)), n)
            left = right
        return "(" + " ∧ ".join(parts) + ")"

    def truth(self, n, env, positive):
        s, t = self.ex(n, env)
        if t == "Prop":
            return s if positive else "(¬ %s)" % s
        if t == "Bool":
            return "(%s = %s)" % (s, "true" if positive else "false")
        if t in NUM:
            return "(%s %s 0)" % (s, "≠" if positive else "=")
        if t == "Key" or (isinstance(t, tuple) and t[0] == "List") or t in ("Poly", "RevMap", "Dict"):
            return "(%s %s [])" % (s, "≠" if positive else "=")
        raise Untranslatable("truth value of a %s" % lean_ty(t), n)

    def binop(self, n, env, want):
        a, ta = self.ex(n.left, env, want if (want in NUM or (isinstance(want, tuple) and want[0] == "List")) else None)
        if isinstance(n.op, ast.Mult) and isinstance(ta, tuple) and ta[0] == "List":
            b, tb = self.ex(n.right, env)
            if tb not in ("Nat", "Int"):
                raise Untranslatable("list repeated by a %s" % lean_ty(tb), n)
            return "(pyRepeat %s %s)" % (a, self.coerce(b, tb, "Int")), ta
        b, tb = self.ex(n.right, env, ta if ta in NUM else None)
        sym = {ast.Add: "+", ast.Sub: "-", ast.Mult: "*"}.get(type(n.op))
        if sym is None:
            raise Untranslatable("operator %s" % type(n.op).__name__, n)
        if sym == "+" and ta == "Flt" and tb in NUM:
            return "(ofNum %s + %s)" % (a, self.coerce(b, tb, "Rat")), "Rat"      # a C double read back, plus an exact number
        t = self.num_join(ta, tb, n)
        if sym == "-" and t == "Nat":
            t = "Int"
        return "(%s %s %s)" % (self.coerce(a, ta, t), sym, self.coerce(b, tb, t)), t

    def index(self, n, env):
        i, ti = self.ex(n, env, "Nat")
        if ti != "Nat":
            raise Untranslatable("index that is not a label / non-negative int (%s)" % lean_ty(ti), n)
        return i

    def subscript(self, n, env):
        if isinstance(n.slice, ast.Slice):
            raise Untranslatable("slice", n)
        v, tv = self.ex(n.value, env)
        if tv == "Key":
            if isinstance(n.slice, ast.Constant) and isinstance(n.slice.value, int) and not isinstance(n.slice.value, bool) \
                    and n.slice.value >= 0:
                return "(pyGet %s %d)" % (v, n.slice.value), "Nat"
            raise Untranslatable("key subscript with a non-literal index", n)
        if isinstance(tv, tuple) and tv[0] == "List":
            return self.bind("(pyListGet %s %s)" % (v, self.index(n.slice, env)), tv[1], n)
        if tv == "RevMap":
            return self.bind("(pyRevGet %s %s)" % (v, self.index(n.slice, env)), "Nat", n)
        if tv == "Dict":
            return self.bind("(pyAnnDictGet %s %s)" % (v, self.index(n.slice, env)), "Int", n)
        raise Untranslatable("subscript of a %s" % lean_ty(tv), n)

    def source(self, n, env):
        """(lean list, element type) of something iterated"""
        if isinstance(n, ast.Call) and isinstance(n.func, ast.Attribute) and n.func.attr == "items" and not n.args and not n.keywords:
            s, t = self.ex(n.func.value, env)
            if t in ("Obj", "Poly"):
                return self.as_poly(s, t, n), Tup("Key", "Rat")
            if t == "RevMap":
                return "(pyEnumerate %s)" % s, Tup("Nat", "Nat")
            raise Untranslatable(".items() of a %s" % lean_ty(t), n)
        if isinstance(n, ast.Call) and isinstance(n.func, ast.Name) and n.func.id == "range" and len(n.args) == 1 and not n.keywords:
            self.builtin("range", n)
            s, t = self.ex(n.args[0], env)
            if t not in ("Nat", "Int"):
                raise Untranslatable("range of a %s" % lean_ty(t), n)
            return "(pyRangeNat %s)" % self.coerce(s, t, "Int"), "Nat"
        if isinstance(n, ast.Call) and isinstance(n.func, ast.Name) and n.func.id == "enumerate" and len(n.args) == 1 and not n.keywords:
            self.builtin("enumerate", n)
            s, t = self.source(n.args[0], env)
            return "(pyEnumerate %s)" % s, Tup("Nat", t)
        s, t = self.ex(n, env)
        if t == "Key":
            return s, "Nat"
        if isinstance(t, tuple) and t[0] == "List":
            return s, t[1]
        raise Untranslatable("iteration over a %s" % lean_ty(t), n)

    def bind_target(self, target, et, it, env):
        env = dict(env)
        if isinstance(target, ast.Name):
            env[target.id] = et
            return "let %s : %s := %s; " % (T.mangle(target.id), lean_ty(et), it), env
        if isinstance(target, ast.Tuple) and isinstance(et, tuple) and et[0] == "Tup" and len(target.elts) == len(et[1]) \
                and all(isinstance(x, ast.Name) for x in target.elts):
            lets = ""
            for i, (x, t) in enumerate(zip(target.elts, et[1])):
                env[x.id] = t
                lets += "let %s : %s := %s; " % (T.mangle(x.id), lean_ty(t), proj(it, i, len(et[1])))
            return lets, env
        raise Untranslatable("loop target does not match the element type %s" % lean_ty(et), target)

    def comprehension(self, elt, val, generators, env, want, node):
        if len(generators) != 1 or generators[0].is_async or generators[0].ifs:
            raise Untranslatable("comprehension with several generators or a filter", node)
        g = generators[0]
        src, et = self.source(g.iter, env)
        lets, env2 = self.bind_target(g.target, et, "_py_it", env)
        ewant = want[1] if isinstance(want, tuple) and want[0] == "List" else None

        def body():
            if val is None:
                return self.ex(elt, env2, ewant)
            k, tk = self.ex(elt, env2)
            v, tv = self.ex(val, env2)
            return "(%s, %s)" % (k, v), Tup(tk, tv)
        (e, te), frame = self.with_binds(body)
        if te == "Prop":
            e, te = self.coerce(e, "Prop", "Bool"), "Bool"
        if frame:
            act = "(List.mapM (fun (_py_it : %s) => %s%s) %s)" % (
                lean_ty(et), lets, self.wrap(frame, "(Except.ok %s : Except Err %s)" % (e, lean_ty(te, False)), "    "), src)
            out, tout = self.bind(act, L(te), node)
        else:
            out, tout = "(List.map (fun (_py_it : %s) => %s%s) %s)" % (lean_ty(et), lets, e, src), L(te)
        if val is not None:
            if te != Tup("Nat", "Int"):
                raise Untranslatable("dict comprehension that is not a state dict (label -> int)", node)
            return "(pyDictOfPairs %s)" % out, "Dict"
        if isinstance(g.iter, ast.Call) and isinstance(g.iter.func, ast.Name) and g.iter.func.id == "range" \
                and isinstance(elt, ast.List) and not elt.elts:
            self._fresh_rows = True       # `[[] for _ in range(n)]`: every row is a new list
        return out, tout

    def args(self, n, env, tys, what):
        if n.keywords or len(n.args) != len(tys) or any(isinstance(a, ast.Starred) for a in n.args):
            raise Untranslatable("call of %s with other than %d positional arguments" % (what, len(tys)), n)
        out = []
        for a, t in zip(n.args, tys):
            if t == "Opaque":
                if not (isinstance(a, ast.Name) and env.get(a.id) == "Opaque") and not (
                        isinstance(a, ast.Constant) and a.value is None):
                    raise Untranslatable("argument of %s in a position the tie does not model is not passed through" % what, a)
                continue
            s, ta = self.ex(a, env, t)
            out.append(self.coerce(s, ta, t, a))
        return out

    def call(self, n, env, want):
        f = n.func
        if isinstance(f, ast.Attribute):
            if f.attr in ("to_quso", "to_puso") and not n.args and not n.keywords:
                v, tv = self.ex(f.value, env)
                if tv != "Obj":
                    raise Untranslatable(".%s() of a %s" % (f.attr, lean_ty(tv)), n)
                return self.bind("(%s %s)" % ("pyToQuso" if f.attr == "to_quso" else "pyToPuso", v), "Poly", n)
            if f.attr == "to_boolean" and not n.args and not n.keywords:
                v, tv = self.ex(f.value, env)
                if tv != L("Res"):
                    raise Untranslatable(".to_boolean() of a %s" % lean_ty(tv), n)
                return self.bind("(pyToBoolean %s)" % v, L("Res"), n)
            raise Untranslatable("method call .%s" % f.attr, n)
        if not isinstance(f, ast.Name):
            raise Untranslatable("call of a computed function", n)
        name = f.id
        if name in env:
            t = env[name]
            if not (isinstance(t, tuple) and t[0] == "Ext"):
                raise Untranslatable("call of a local", n)
            return self.bind("(%s %s)" % (name, " ".join(self.args(n, env, t[1], name))), t[2], n)
        if name in CLASSES:
            self.imported_from(name, CLASSES[name][1], n)
            (a,) = self.args(n, env, ["Obj"], name)
            return self.bind("(pyConstruct %s %s)" % (CLASSES[name][0], a), "Obj", n)
        if name in UTIL_FUNCS:
            prim, targ, tres = UTIL_FUNCS[name]
            self.imported_from(name, "qubovert.utils", n)
            (a,) = self.args(n, env, [targ], name)
            return self.bind("(%s %s)" % (prim, a), tres, n)
        if name == "AnnealResults":
            self.imported_relative(name, n)
            if not n.args and not n.keywords:
                return "([] : List Anneal.Res)", L("Res")
            if len(n.args) == 1 and not n.keywords and isinstance(n.args[0], ast.GeneratorExp):
                g = n.args[0]
                return self.comprehension(g.elt, None, g.generators, env, L("Res"), n)
            raise Untranslatable("AnnealResults(…) with these arguments", n)
        if name == "AnnealResult":
            self.imported_relative(name, n)
            a = self.args(n, env, ["Dict", "Rat", "Bool"], name)
            return "(pyAnnealResult %s)" % " ".join(a), "Res"
        callee = self.done.get(name)
        if callee is not None and callee.get("file") == FILE and any(
                isinstance(s, ast.FunctionDef) and s.name == name for s in self.tree.body):
            if callee["status"] != "translated":
                raise Untranslatable("call of %s, which is itself %s" % (name, callee["status"]), n)
            if name in self.locals_all:
                raise Untranslatable("%s is rebound in this function" % name, n)
            centry = [x for x in REGISTRY if x["func"] == name][0]
            a = self.args(n, env, [TYPES[t] for _, t in centry["params"]], name)
            gen = [g.split()[0].strip("({") for g in FnExt.GENERICS.get(callee["lean"], []) if g.startswith("(")]
            act = "(%s %s)" % (callee["lean"], " ".join(gen + a))
            if centry.get("flow"):
                # the callee's remaining statements are the named prelude reading `rest`
                act = "(pySegFinish %s %s)" % (act, centry["rest"])
            return self.bind(act, TYPES[centry["returns"]], n)
        if any(isinstance(x, (ast.FunctionDef, ast.ClassDef)) and x.name == name for x in self.tree.body):
            raise Untranslatable("call of %s, a function of this module that is not part of the tie" % name, n)
        self.builtin(name, n)
        if name == "len" and len(n.args) == 1 and not n.keywords:
            a, ta = self.ex(n.args[0], env)
            if ta in ("Key", "Poly", "RevMap", "Dict") or (isinstance(ta, tuple) and ta[0] == "List"):
                return "(List.length %s)" % a, "Nat"
            raise Untranslatable("len of a %s" % lean_ty(ta), n)
        if name == "float" and len(n.args) == 1 and not n.keywords:
            a, ta = self.ex(n.args[0], env)
            if ta in NUM:
                return "(toNum %s)" % self.coerce(a, ta, "Rat"), "Flt"
            raise Untranslatable("float() of a %s" % lean_ty(ta), n)
        if name == "int" and len(n.args) == 1 and not n.keywords:
            a, ta = self.ex(n.args[0], env)
            if ta in ("Bool", "Prop"):
                return "(pyIntOfBool %s)" % self.coerce(a, ta, "Bool"), "Int"
            if ta in ("Nat", "Int"):
                return a, ta
            raise Untranslatable("int() of a %s" % lean_ty(ta), n)
        if name == "isinstance" and len(n.args) == 2 and not n.keywords and isinstance(n.args[1], ast.Name) and n.args[1].id == "str":
            self.builtin("str", n)
            a, ta = self.ex(n.args[0], env)
            if ta == "Sched":
                return "(pyIsStr %s)" % a, "Bool"
            raise Untranslatable("isinstance(_, str) of a %s" % lean_ty(ta), n)
        if name == "dict" and len(n.args) == 1 and not n.keywords and isinstance(n.args[0], ast.Call) \
                and isinstance(n.args[0].func, ast.Name) and n.args[0].func.id == "enumerate" and len(n.args[0].args) == 1:
            self.builtin("enumerate", n)
            s, t = self.source(n.args[0].args[0], env)
            if t != "Nat":
                raise Untranslatable("dict(enumerate(…)) of non-labels", n)
            return s, "RevMap"          # keys 0 … n-1 in order: kept as the list of the values
        if name == "list" and len(n.args) == 1 and not n.keywords:
            a0 = n.args[0]
            inner = None
            if isinstance(a0, ast.Call) and isinstance(a0.func, ast.Name) and a0.func.id == "chain" and len(a0.args) == 1 \
                    and isinstance(a0.args[0], ast.Starred) and not a0.keywords:
                inner = a0.args[0].value
            elif isinstance(a0, ast.Call) and isinstance(a0.func, ast.Attribute) and a0.func.attr == "from_iterable" \
                    and isinstance(a0.func.value, ast.Name) and a0.func.value.id == "chain" and len(a0.args) == 1 and not a0.keywords:
                inner = a0.args[0]
            if inner is not None:
                self.imported_from("chain", "itertools", n)
                s, t = self.ex(inner, env)
                if isinstance(t, tuple) and t[0] == "List" and isinstance(t[1], tuple) and t[1][0] == "List":
                    return "(List.flatten %s)" % s, t[1]
                raise Untranslatable("chain over a %s" % lean_ty(t), n)
            s, t = self.ex(a0, env)
            if t == "Sched":
                return "(pyListOfSchedule %s)" % s, L("Flt")
            if isinstance(t, tuple) and t[0] == "List":
                return s, t
            raise Untranslatable("list() of a %s" % lean_ty(t), n)
        raise Untranslatable("call of %s" % name, n)

    # ---- statements

    def mutated(self, stmts):
        """root names rebound or mutated in the statements, in source order"""
        out = []

        def add(x):
            if x not in out:
                out.append(x)
        for s in stmts:
            for n in ast.walk(s):
                if isinstance(n, ast.Name) and isinstance(n.ctx, ast.Store):
                    add(n.id)
                elif isinstance(n, ast.Subscript) and isinstance(n.ctx, ast.Store) and isinstance(n.value, ast.Name):
                    add(n.value.id)
                elif isinstance(n, ast.Call) and isinstance(n.func, ast.Attribute) and n.func.attr in ("append", "extend", "add_state"):
                    r = n.func.value
                    if isinstance(r, ast.Subscript):
                        r = r.value
                    if isinstance(r, ast.Name):
                        add(r.id)
        return out

    def block(self, stmts, env, k, ind):
        if not stmts:
            try:
                return k(env)
            except UnboundLocal as u:
                return "(Except.error Err.other /- UnboundLocalError: `%s` is not assigned on this path -/)" % u
        saved, self.binds = self.binds, []
        try:
            try:
                out = self.stmt(stmts, env, k, ind)
            except UnboundLocal as u:
                if self.binds:
                    raise Untranslatable("a local (%s) that is not assigned on this path is read after an operation that may raise" % u)
                out = "(Except.error Err.other /- UnboundLocalError: `%s` is not assigned on this path -/)" % u
            frame = self.binds
        finally:
            self.binds = saved
        return self.wrap(frame, out, " " * ind)

    def is_warn(self, s):
        v = s.value if isinstance(s, ast.Expr) else None
        return isinstance(v, ast.Call) and isinstance(v.func, ast.Attribute) and v.func.attr == "warn" \
            and isinstance(v.func.value, ast.Name) and v.func.value.id == "QUBOVertWarning" and len(v.args) == 1 \
            and not v.keywords and isinstance(v.args[0], ast.Constant) and isinstance(v.args[0].value, str)

    def let(self, name, ty, val, pad, rest):
        return "let %s : %s := %s;\n%s%s" % (T.mangle(name), lean_ty(ty), val, pad, rest)

    def declared(self, name, t, node):
        d = self.e.get("local_types", {}).get(name)
        return TYPES[d] if d else None

    def stmt(self, stmts, env, k, ind):
        s, rest = stmts[0], stmts[1:]
        pad = " " * ind

        def cont(env2):
            return self.block(rest, env2, k, ind)

        if isinstance(s, ast.Expr) and isinstance(s.value, ast.Constant) and isinstance(s.value.value, str):
            return cont(env)
        if isinstance(s, ast.Pass):
            return cont(env)
        if self.is_warn(s):
            self.imported_from("QUBOVertWarning", "qubovert.utils", s)
            return cont(env)                                   # warnings are not modelled
        if isinstance(s, ast.Return):
            if rest:
                raise Untranslatable("statement after return", rest[0])
            if s.value is None:
                raise Untranslatable("bare return", s)
            rt = self.ret_want
            if rt is None:
                raise Untranslatable("return in a segment the registry declares without return value", s)
            v, t = self.ex(s.value, env, rt)
            v = self.coerce(v, t, rt, s)
            return "(Except.ok (Flow.ret %s))" % v if self.e.get("flow") else "(Except.ok %s)" % v
        if isinstance(s, ast.Raise):
            if rest:
                raise Untranslatable("statement after raise", rest[0])
            exc = s.exc
            name = exc.func.id if isinstance(exc, ast.Call) and isinstance(exc.func, ast.Name) else \
                exc.id if isinstance(exc, ast.Name) else None
            if name not in T.EXC or s.cause is not None:
                raise Untranslatable("raise of something that is not a builtin exception of the model's enum", s)
            self.builtin(name, s)
            return "(Except.error %s)" % T.EXC[name]
        if isinstance(s, ast.Assign):
            if len(s.targets) != 1:
                raise Untranslatable("chained assignment", s)
            return self.assign(s.targets[0], s.value, env, cont, pad, s)
        if isinstance(s, ast.AugAssign):
            return self.augassign(s, env, cont, pad)
        if isinstance(s, ast.Expr) and isinstance(s.value, ast.Call) and isinstance(s.value.func, ast.Attribute):
            return self.method_stmt(s.value, env, cont, pad)
        if isinstance(s, ast.If) and not s.orelse and s.body and all(self.is_warn(x) for x in s.body) and all(
                isinstance(x, (ast.Compare, ast.BoolOp, ast.UnaryOp, ast.Name, ast.Constant, ast.Attribute, ast.cmpop, ast.boolop,
                               ast.unaryop, ast.expr_context)) for x in ast.walk(s.test)):
            self.imported_from("QUBOVertWarning", "qubovert.utils", s)
            return cont(env)        # an `if` that only warns (its test reads names / attributes / constants: it cannot raise)
        if isinstance(s, ast.If) and isinstance(s.test, ast.Compare) and len(s.test.ops) == 1 \
                and isinstance(s.test.ops[0], (ast.Is, ast.IsNot)) and isinstance(s.test.comparators[0], ast.Constant) \
                and s.test.comparators[0].value is None and isinstance(s.test.left, ast.Name) \
                and isinstance(env.get(s.test.left.id), tuple) and env[s.test.left.id][0] == "Opt":
            # `if x is None` / `if x is not None` on an optional local: in the other branch x is its value
            x = s.test.left.id
            none_blk, some_blk = (s.orelse, s.body) if isinstance(s.test.ops[0], ast.IsNot) else (s.body, s.orelse)
            env_some = dict(env)
            env_some[x] = env[x][1]
            a = self.block(none_blk, env, cont, ind + 4)
            b = self.block(some_blk, env_some, cont, ind + 4)
            return "(match %s with\n%s| none =>\n%s    %s\n%s| some _py_some =>\n%s    let %s : %s := _py_some;\n%s    %s)" % (
                T.mangle(x), pad, pad, a, pad, pad, T.mangle(x), lean_ty(env[x][1]), pad, b)
        if isinstance(s, ast.If):
            c = self.truth(s.test, env, True)
            a = self.block(s.body, env, cont, ind + 2)
            b = self.block(s.orelse, env, cont, ind + 2)
            return "if %s then\n%s  %s\n%selse\n%s  %s" % (c, pad, a, pad, pad, b)
        if isinstance(s, ast.For):
            return self.for_(s, env, cont, ind)
        raise Untranslatable("statement %s" % type(s).__name__, s)

    def assign(self, target, value, env, cont, pad, node):
        if isinstance(target, ast.Name):
            want = self.declared(target.id, None, node)
            self._fresh_rows = False
            v, t = self.ex(value, env, want)
            if t == "Prop":
                v, t = self.coerce(v, "Prop", "Bool"), "Bool"
            if want is not None and t != want:
                try:
                    v, t = self.coerce(v, t, want, node), want
                except Untranslatable:
                    pass
            env2 = dict(env)
            env2[target.id] = t
            if self._fresh_rows:
                self.fresh.add(target.id)
            else:
                self.fresh.discard(target.id)
            return self.let(target.id, t, v, pad, cont(env2))
        if isinstance(target, ast.Tuple) and all(isinstance(x, ast.Name) for x in target.elts):
            names = [x.id for x in target.elts]
            if len(set(names)) != len(names):
                raise Untranslatable("a name twice in one assignment target", node)
            if isinstance(value, ast.Tuple) and len(value.elts) == len(names):
                # the right-hand sides are all evaluated (in the old environment) before any name is bound
                vals, fresh = [], []
                for x, e in zip(names, value.elts):
                    want = self.declared(x, None, node)
                    self._fresh_rows = False
                    v, t = self.ex(e, env, want)
                    if want is not None and t != want:
                        try:
                            v, t = self.coerce(v, t, want, node), want
                        except Untranslatable:
                            pass
                    vals.append((v, t))
                    fresh.append(self._fresh_rows)
                env2 = dict(env)
                out = ""
                for i, (v, t) in enumerate(vals):
                    out += "let _py_t%d : %s := %s;\n%s" % (i, lean_ty(t), v, pad)
                for i, (x, (v, t)) in enumerate(zip(names, vals)):
                    env2[x] = t
                    (self.fresh.add if fresh[i] else self.fresh.discard)(x)
                    out += "let %s : %s := _py_t%d;\n%s" % (T.mangle(x), lean_ty(t), i, pad)
                return out + cont(env2)
            v, t = self.ex(value, env)
            if isinstance(t, tuple) and t[0] == "Tup" and len(t[1]) == len(names):
                env2 = dict(env)
                out = "let _py_t : %s := %s;\n%s" % (lean_ty(t), v, pad)
                for i, (x, tx) in enumerate(zip(names, t[1])):
                    env2[x] = tx
                    self.fresh.discard(x)
                    out += "let %s : %s := %s;\n%s" % (T.mangle(x), lean_ty(tx), proj("_py_t", i, len(names)), pad)
                return out + cont(env2)
            if t == "Key":
                env2 = dict(env)
                for x in names:
                    env2[x] = "Nat"
                return "(match %s with\n%s| [%s] =>\n%s  %s\n%s| _ => (Except.error Err.value))" % (
                    v, pad, ", ".join(T.mangle(x) for x in names), pad, cont(env2), pad)
            raise Untranslatable("unpacking of a %s into %d names" % (lean_ty(t), len(names)), node)
        if isinstance(target, ast.Subscript) and isinstance(target.value, ast.Name) and not isinstance(target.slice, ast.Slice):
            # Python evaluates the right-hand side first, then the container and the index
            x = target.value.id
            v, tv = self.ex(value, env)
            l, tl = self.ex(target.value, env)
            if not (isinstance(tl, tuple) and tl[0] == "List"):
                raise Untranslatable("item assignment on a %s" % lean_ty(tl), node)
            i = self.index(target.slice, env)
            m, _ = self.bind("(pyListSet %s %s %s)" % (l, i, self.coerce(v, tv, tl[1], node)), tl, node)
            self.fresh.discard(x) if isinstance(tl[1], tuple) else None
            return self.let(x, tl, m, pad, cont(env))
        raise Untranslatable("assignment target %s" % type(target).__name__, node)

    def augassign(self, s, env, cont, pad):
        sym = {ast.Add: "+", ast.Sub: "-", ast.Mult: "*"}.get(type(s.op))
        if sym is None:
            raise Untranslatable("augmented assignment with %s" % type(s.op).__name__, s)
        if isinstance(s.target, ast.Name):
            a, ta = self.ex(ast.Name(id=s.target.id, ctx=ast.Load(), lineno=s.lineno), env)
            b, tb = self.ex(s.value, env, ta if ta in NUM else None)
            t = self.num_join(ta, tb, s)
            if t != ta:
                raise Untranslatable("augmented assignment changes the type of %s" % s.target.id, s)
            return self.let(s.target.id, t, "(%s %s %s)" % (a, sym, self.coerce(b, tb, t)), pad, cont(env))
        if isinstance(s.target, ast.Subscript) and isinstance(s.target.value, ast.Name) and not isinstance(s.target.slice, ast.Slice):
            # `l[i] op= e`: l, i, l[i], e, then the store
            x = s.target.value.id
            l, tl = self.ex(s.target.value, env)
            if not (isinstance(tl, tuple) and tl[0] == "List" and tl[1] in NUM):
                raise Untranslatable("augmented item assignment on a %s" % lean_ty(tl), s)
            i = self.index(s.target.slice, env)
            old, _ = self.bind("(pyListGet %s %s)" % (l, i), tl[1], s)
            b, tb = self.ex(s.value, env, tl[1])
            if self.num_join(tl[1], tb, s) != tl[1]:
                raise Untranslatable("augmented item assignment changes the element type", s)
            m, _ = self.bind("(pyListSet %s %s (%s %s %s))" % (l, i, old, sym, self.coerce(b, tb, tl[1])), tl, s)
            return self.let(x, tl, m, pad, cont(env))
        raise Untranslatable("augmented assignment target", s)

    def method_stmt(self, c, env, cont, pad):
        f = c.func
        if c.keywords:
            raise Untranslatable("keyword arguments", c)
        recv = f.value
        if f.attr == "append" and len(c.args) == 1 and isinstance(recv, ast.Subscript) and isinstance(recv.value, ast.Name) \
                and not isinstance(recv.slice, ast.Slice):
            x = recv.value.id
            if x not in self.fresh:
                raise Untranslatable("`%s[i].append(…)` where %s is not a list of fresh rows (`[[] for _ in range(n)]`)" % (x, x), c)
            l, tl = self.ex(recv.value, env)
            i = self.index(recv.slice, env)
            v, tv = self.ex(c.args[0], env, tl[1][1])
            m, _ = self.bind("(pyAppendAt %s %s %s)" % (l, i, self.coerce(v, tv, tl[1][1], c)), tl, c)
            return self.let(x, tl, m, pad, cont(env))
        if f.attr in ("append", "extend") and len(c.args) == 1 and isinstance(recv, ast.Name):
            l, tl = self.ex(recv, env)
            if not (isinstance(tl, tuple) and tl[0] == "List") or isinstance(tl[1], tuple):
                raise Untranslatable(".%s on a %s" % (f.attr, lean_ty(tl)), c)
            if f.attr == "append":
                v, tv = self.ex(c.args[0], env, tl[1])
                new = "(%s ++ [%s])" % (l, self.coerce(v, tv, tl[1], c))
            else:
                v, tv = self.ex(c.args[0], env)
                new = "(%s ++ %s)" % (l, self.coerce(v, tv, tl, c))
            return self.let(recv.id, tl, new, pad, cont(env))
        if f.attr == "add_state" and len(c.args) == 3 and isinstance(recv, ast.Name):
            l, tl = self.ex(recv, env)
            if tl != L("Res"):
                raise Untranslatable(".add_state on a %s" % lean_ty(tl), c)
            a = self.args(c, env, ["Dict", "Rat", "Bool"], "add_state")
            return self.let(recv.id, tl, "(pyAddState %s %s)" % (l, " ".join(a)), pad, cont(env))
        raise Untranslatable("method call statement .%s" % f.attr, c)

    def for_(self, s, env, cont, ind):
        if s.orelse:
            raise Untranslatable("for ... else", s)
        if any(isinstance(n, (ast.Return, ast.Break, ast.Continue)) for b in s.body for n in ast.walk(b)):
            raise Untranslatable("return / break / continue inside a loop", s)
        pad = " " * ind
        src, et = self.source(s.iter, env)
        targets = [n.id for n in ast.walk(s.target) if isinstance(n, ast.Name)]
        for x in targets:
            if x in env and x != "_":
                raise Untranslatable("loop target %s shadows a local" % x, s)
        accs = [x for x in self.mutated(s.body) if x in env and x not in targets]
        acc_tys = [env[x] for x in accs]
        acc_ty = Tup(*acc_tys) if len(accs) > 1 else (acc_tys[0] if accs else "Unit")
        tup = "(" + ", ".join(T.mangle(x) for x in accs) + ")" if accs else "()"
        unpack = "".join("let %s : %s := %s; " % (T.mangle(x), lean_ty(t), proj("_py_acc", i, len(accs)))
                         for i, (x, t) in enumerate(zip(accs, acc_tys)))
        lets, env_body = self.bind_target(s.target, et, "_py_it", env)
        fresh_before = set(self.fresh)

        def after_body(env2):
            for x, t in zip(accs, acc_tys):
                if env2[x] != t:
                    raise Untranslatable("local %s changes type inside the loop" % x, s)
            return "(Except.ok %s)" % tup
        body = self.block(s.body, env_body, after_body, ind + 4)
        self.fresh &= fresh_before
        rebind = "".join("let %s : %s := %s;\n%s" % (T.mangle(x), lean_ty(t), proj("_py_acc", i, len(accs)), pad)
                         for i, (x, t) in enumerate(zip(accs, acc_tys)))
        return ("((pyForM %s %s (fun (_py_acc : %s) (_py_it : %s) =>\n%s    %s%s\n%s    %s)) >>= fun (_py_acc : %s) =>\n%s%s%s)" % (
            src, tup, lean_ty(acc_ty), lean_ty(et), pad, unpack, lets, pad, body, lean_ty(acc_ty), pad, rebind, cont(dict(env))))

    # ---- the segment

    def segment(self):
        e, f = self.e, self.fnode
        body = list(f.body)
        if body and isinstance(body[0], ast.Expr) and isinstance(body[0].value, ast.Constant) and isinstance(body[0].value.value, str):
            body = body[1:]
        cuts = CUTS.get(e["func"])
        if cuts is None:
            return body, (0, len(body))
        pos = []
        for label, pred in cuts:
            if pred[0] == "start":
                pos.append(0)
                continue
            hits = [i for i, s in enumerate(body) if _matches(s, pred)]
            if not hits:
                raise Untranslatable("segment boundary `%s` %r not found" % (label, pred), f)
            pos.append(hits[0])
        pos.append(len(body))
        if any(a >= b for a, b in zip(pos, pos[1:])):
            raise Untranslatable("segment boundaries %s are not in the expected order (positions %s)" % (
                [c[0] for c in cuts], pos), f)
        i = [c[0] for c in cuts].index(e["segment"])
        return body[pos[i]:pos[i + 1]], (pos[i], pos[i + 1])

    def check_signature(self):
        a = self.fnode.args
        if self.fnode.decorator_list or a.vararg or a.kwarg or a.kwonlyargs or a.posonlyargs:
            raise Untranslatable("decorators / *args / **kwargs / keyword-only parameters", self.fnode)
        got = [x.arg for x in a.args]
        want = [p for p, _ in self.e["params"]]
        if got != want:
            raise Untranslatable("signature changed: parameters %s, registry expects %s" % (got, want), self.fnode)

    def translate(self):
        try:
            return self.translate_segment()
        except (Untranslatable, UnboundLocal):
            raise
        except Exception as err:        # a construct no rule anticipated must not crash the check: it is outside the fragment
            raise Untranslatable("construct outside the fragment (%s: %s)" % (type(err).__name__, str(err)[:120]), self.fnode)

    def translate_segment(self):
        e = self.e
        self.check_signature()
        stmts, (lo, hi) = self.segment()
        env, binders, ptys = {}, [], []
        for p, t in e["params"]:
            env[p] = "Opaque"            # a parameter the segment does not declare as read
        for p, tn in e["live"]:
            t = TYPES[tn]
            env[p] = t
            if t == "Opaque":
                continue
            binders.append("(%s : %s)" % (T.mangle(p), lean_ty(t)))
            ptys.append(t)
        outs = [(x, TYPES[t]) for x, t in e.get("outs", [])]
        self.ret_want = TYPES[e["returns"]] if "returns" in e else None

        def fall_off(env2):
            if not outs:
                raise Untranslatable("control can reach the end of the function without return", self.fnode)
            vals = []
            for x, t in outs:
                v, tv = self.ex(ast.Name(id=x, ctx=ast.Load(), lineno=self.fnode.lineno), env2)
                vals.append(self.coerce(v, tv, t, self.fnode))
            tup = "(" + ", ".join(vals) + ")" if len(vals) > 1 else vals[0]
            return "(Except.ok (Flow.next %s))" % tup if e.get("flow") else "(Except.ok %s)" % tup

        body = self.block(stmts, env, fall_off, 2)
        out_ty = Tup(*[t for _, t in outs]) if len(outs) > 1 else (outs[0][1] if outs else None)
        if e.get("flow"):
            rty = "Except Err (Flow %s %s)" % (lean_ty(self.ret_want, False), lean_ty(out_ty, False))
            self.ret_ty = ("Flow", self.ret_want, out_ty)
        else:
            self.ret_ty = out_ty if out_ty is not None else self.ret_want
            rty = "Except Err %s" % lean_ty(self.ret_ty, False)
        text = " ".join(binders) + " " + rty + " " + body
        gen = []
        if "α" in text:
            gen.append("{α : Type}")
        if re.search(r"\btoNum\b", body):
            gen.append("(toNum : Rat → α)")
        if re.search(r"\bofNum\b", body):
            gen.append("(ofNum : α → Rat)")
        FnExt.GENERICS[e["lean"]] = gen
        note = "/- segment `%s` of `%s`: top-level statements %d..%d of its body -/\n  " % (
            e.get("segment", "whole body"), e["func"], lo, hi - 1)
        # translate_all prints `def name binders : rty := body`; it adds `Except Err (…)` itself when `raises`
        self.raises = False
        return gen + binders, ptys, rty, note + body


# ------------------------------------------------------------------------------------------------ registry

ANNEAL_PARAMS = lambda m: [(m, "Obj"), ("num_anneals", "Int"), ("anneal_duration", "Opaque"), ("initial_state", "OptDict"),   # noqa: E731
                           ("temperature_range", "Opaque"), ("schedule", "Sched"), ("in_order", "Bool"), ("seed", "OptInt")]
NOT_COMMON = ["warnings (`QUBOVertWarning.warn`) are skipped", "keyword defaults of the signature",
              "float rounding: `float(v)` is the parameter toNum, a returned double is read through ofNum (DESIGN.md §3.2)"]
COMMON = dict(file=FILE, unit="Anneal", props=["C11", "C12", "C17"])

REGISTRY = [
    dict(COMMON, func="_create_spin_schedule", lean="create_spin_schedule", segment="validate", group="AnnealSched",
         params=[("spin_model", "Opaque"), ("anneal_duration", "Opaque"), ("temperature_range", "Opaque"), ("schedule", "Sched")],
         live=[("schedule", "Sched")], outs=[("schedule", "Sched")], flow=True, returns="Flts", rest="pyNamedGrid",
         props=["C11", "C12"],
         not_translated=NOT_COMMON + ["the statements from `T0, Tf = …` on (anneal_temperature_range, the `T0 < Tf` check, the numpy "
                                      "grid): data of the model (`Schedule.named`), read as pyNamedGrid",
                                      "the `temperature_range is not None` test guarding only a warning"]),
    dict(COMMON, func="_package_spin_results", lean="package_spin_results", group="AnnealPackage",
         params=[("states", "IntRows"), ("values", "Flts"), ("offset", "Rat"), ("reverse_mapping", "RevMap")],
         live=[("states", "IntRows"), ("values", "Flts"), ("offset", "Rat"), ("reverse_mapping", "RevMap")],
         returns="Results", props=["C11"], not_translated=NOT_COMMON),
]
for _f, _m, _ext, _exttype in (("anneal_quso", "L", "c_anneal_quso", "ExtQuso"), ("anneal_puso", "H", "c_anneal_puso", "ExtPuso")):
    _P = ANNEAL_PARAMS(_m)
    _grp = "AnnealQuso" if _f == "anneal_quso" else "AnnealPuso"
    REGISTRY += [
        dict(COMMON, func=_f, lean=_f + "_dispatch", segment="dispatch", group=_grp, params=_P, live=[(_m, "Obj")],
             outs=[("N", "Nat"), ("model", "Poly"), ("reverse_mapping", "RevMap")],
             not_translated=NOT_COMMON + ["the model classes' constructors, `to_quso` / `to_puso`, `max_index`, "
                                          "`num_binary_variables`, `reverse_mapping`: named (PreludeAnneal) and read as the "
                                          "functions of Qv/Model/AnnealFront.lean"]),
        dict(COMMON, func=_f, lean=_f + "_state", segment="state", group=_grp, params=_P,
             live=[("N", "Nat"), ("model", "Poly"), ("reverse_mapping", "RevMap"), ("num_anneals", "Int"),
                   ("initial_state", "OptDict")],
             outs=[("init_state", "Ints")], flow=True, returns="Results", local_types={"init_state": "Ints"},
             not_translated=NOT_COMMON),
        dict(COMMON, func=_f, lean=_f + "_flatten", segment="flatten", group=_grp, params=_P,
             live=[("N", "Nat"), ("model", "Poly")],
             outs=([("h", "Flts"), ("num_neighbors", "Nats"), ("neighbors", "Nats"), ("J", "Flts")] if _f == "anneal_quso" else
                   [("num_couplings", "Nats"), ("terms", "Nats"), ("couplings", "Flts")]),
             local_types=({"h": "Flts", "num_neighbors": "Nats", "neighbors": "NatRows", "J": "FltRows"} if _f == "anneal_quso" else
                          {"terms": "Nats", "couplings": "Flts", "num_couplings": "Nats"}),
             rebound={"neighbors": True, "J": True}, not_translated=NOT_COMMON),
        dict(COMMON, func=_f, lean=_f + "_call", segment="call", group=_grp, params=_P,
             live=[(_ext, _exttype)] +
                  ([("h", "Flts"), ("num_neighbors", "Nats"), ("neighbors", "Nats"), ("J", "Flts")] if _f == "anneal_quso" else
                   [("N", "Nat"), ("num_couplings", "Nats"), ("terms", "Nats"), ("couplings", "Flts")]) +
                  [("Ts", "Flts"), ("num_anneals", "Int"), ("in_order", "Bool"), ("init_state", "Ints"), ("seed", "OptInt"),
                   ("model", "Poly"), ("reverse_mapping", "RevMap")],
             returns="Results", extra_theorems=[_f + "_eq_model"],
             not_translated=NOT_COMMON + ["the C extension function: a parameter of the generated definition (instantiated with the "
                                          "kernel model in the theorem)"]),
        dict(COMMON, func=_f, lean=_f + "_entry", segment="entry", group=_grp, params=_P,
             live=[(_m, "Opaque"), ("num_anneals", "Int"), ("anneal_duration", "Opaque"), ("temperature_range", "Opaque"),
                   ("schedule", "Sched")],
             outs=[("Ts", "Flts")], flow=True, returns="Results", not_translated=NOT_COMMON),
    ]
for _f, _m, _callee in (("anneal_qubo", "Q", "anneal_quso"), ("anneal_pubo", "P", "anneal_puso")):
    REGISTRY.append(dict(
        COMMON, func=_f, lean=_f, group="AnnealBool", params=ANNEAL_PARAMS(_m), props=["C11"],
        live=[(_callee, "FnAnneal")] + ANNEAL_PARAMS(_m), returns="Results",
        not_translated=NOT_COMMON + ["the callee %s: a parameter of the generated definition (instantiated with the model "
                                     "function in the theorem); `qubo_to_quso` / `pubo_to_puso` / `boolean_to_spin` / "
                                     "`to_boolean`: named (PreludeAnneal)" % _callee]))

UNITS = {"Anneal": ("SourceAnneal.lean", ["Qv.Model.AnnealFront", "Qv.Gen.PreludeAnneal"])}

REAL = {}
