"""Tie extension `conv3` (property C04, second wave; continues harness/tie_ext/conv.py).  Tag of all names: `cv3`.

  qubovert/utils/_qubomatrix.py    matrix_to_qubo (np.array / .shape checks, the n*n accumulation loop), qubo_to_matrix
                                   (empty / offset checks, QUBOMatrix(Q), np.zeros, symmetric / upper-triangular filling,
                                   array / list result)
  qubovert/utils/_qusomatrix.py    QUSOMatrix.h, QUSOMatrix.J
  qubovert/utils/_conversions.py   decimal_to_boolean, boolean_to_decimal, decimal_to_spin, spin_to_decimal
                                   (NOT the scalar branches of boolean_to_spin / spin_to_boolean: translate_all keys whole
                                   functions by name in `done`, so a second whole-function reading of a function that
                                   conv.py already registers on containers would shadow it for later callers)
  qubovert/utils/_bo_parentclass.py  BO.to_enumerated (which `to_*` the computed method name selects)

Prelude lean/Qv/Gen/PreludeConv3.lean; generated lean/Qv/Gen/SourceConv3*.lean; proofs lean/Qv/Proofs/GenEq/Conv3*.lean;
search lean/Qv/Gen/Search/Conv3*.lean.  Rules added to conv.FnExt (one per construct; anything else -> Untranslatable):

  numpy       `np` must be `import numpy as np`.  `isinstance(X, np.ndarray)` on a matrix argument (a list of lists or an
              array: Cv3MatArg) as the test of `if not …:` narrows X in both branches (match);  `np.array(X)` on a list of
              lists -> cv3NpArray;  `X.shape` -> cv3NdShape (a list of ints; `X.shape[c]` is then pyIndex);  `X[i]` on a 2-d
              array -> cv3NdRow, `row[j]` -> cv3RowItem: the value has the static type NpEntry, which may ONLY be the right
              operand of `L[key] += e` on a model object (numeric for every dtype); arithmetic between NpEntry values is
              rejected (np.bool_ + np.bool_ is logical or);  `np.zeros((e,) * 2)` -> cv3NpZerosSq;  `A[i][j] = v` on such an
              array -> cv3ZerosSet (A is rebound);  `A.tolist()` -> cv3ToList
  continue    in a loop body, `if c: A; continue` followed by R -> `if c: A else: R` (exact; any other `continue` is rejected)
  short-circuit  `if A or B: S else: E` whose later operands may raise -> `if A: S else: (if B: S else: E)` (exact)
  tuples      `(i, j)` of ints from `range` is a key (labels of the Matrix types are ints)
  strings     `bin(d)` -> cv3Bin (a list of characters), `s[a:]` -> pySlice, `len(s)`, `for x in s` (characters), `int(c)` on a
              character -> cv3IntOfChar, `str(x)` on an exact number -> cv3StrOfNum, `"".join(<gen>)` -> cv3JoinEmpty,
              `int(s, base=2)` -> cv3IntBase2;  `(0,)` a tuple of int literals -> a list of ints, `t1 + t2` on such -> `++`,
              `tuple(int(x) for x in s)` -> pyListMapM;  a tuple of ints passed to a function registered on solution
              containers -> cv3SolOfTuple;  `for x in b` / `if b` on a solution container -> cv3SolIter / cv3SolTruthy
  getattr     `getattr(self, <name>)()` -> cv3GetattrCall0 <name> [(m, self_m) …] over the registry's `getattr_table` (each
              `self.m()` is dynamically dispatched: a parameter of the generated definition); `<name>` is translated:
              string literal, `+`, `.lower()`, `.replace('c', 'u')` (one-character literals), `self.__class__.__name__`
              -> cv3ClassName (pyType self);  the registry's `mro_expect` (class, method) -> defining class is checked
              against the C3 linearisation of the class statements (harness/tie_ext/book.py `lookup`)
  Cv3Q        the argument of qubo_to_matrix (dict or QUBOMatrix given by items and max_index): `not Q`, `isinstance(Q,
              QUBOMatrix)`, `QUBOMatrix(Q)` -> cv3NewQUBOMatrix, `Q[key]` -> cv3QGet, `Q.max_index + c` -> cv3OptNatAdd,
              `Q.items()`
"""
import ast
from .. import translate as T
from ..translate import (Simple, TList, TTuple, TOpt, Untranslatable, res, lean_ty, coerce, is_num, mangle, same,
                         RAT, INT, NAT, BOOL, PROP, VAR, KEY, POLY, UNIT)
from . import conv
from .conv import OBJ, MODEL, KIND, ASSIGNMENT

MATARG = Simple("Cv3MatArg", "Cv3MatArg")
ND = Simple("Cv3Nd", "Cv3Nd")
NDROW = Simple("Cv3NdRow", "(List Rat)")
NPENTRY = Simple("Cv3NpEntry", "Rat")
CV3Q = Simple("Cv3Q", "Cv3Q")
ZEROS = Simple("Cv3Zeros", "Cv3Zeros")
MATRES = Simple("Cv3MatRes", "Cv3MatRes")
OPTNAT = Simple("Cv3OptNat", "(Option Nat)")
STR = Simple("Cv3Str", "(List Char)")
CHAR = Simple("Cv3Char", "Char")
SOLC = conv.SOLC
T.PARAM_TYPES.update({"Cv3MatArg": lambda: MATARG, "Cv3Q": lambda: CV3Q, "Cv3MatRes": lambda: MATRES})

QM_FILE = "qubovert/utils/_qubomatrix.py"
QS_FILE = "qubovert/utils/_qusomatrix.py"


def _is_np(self, n, attr):
    """`np.<attr>` with `np` = `import numpy as np`"""
    if isinstance(n, ast.Attribute) and n.attr == attr and isinstance(n.value, ast.Name) and n.value.id == "np":
        self.need_module_alias("numpy", "np", n)
        return True
    return False


class FnExt(conv.FnExt):

    def ty_of_name(self, n, env):
        return res(env[n.id]) if isinstance(n, ast.Name) and n.id in env else None

    # ---- expressions

    def expr(self, n, env, expected=None):
        if isinstance(n, ast.Constant) and isinstance(n.value, str) and self.e.get("getattr_table"):
            if not n.value or not all(c.isalnum() or c == "_" for c in n.value) or not n.value.isascii():
                raise Untranslatable("string literal %r" % n.value, n)
            return "[" + ", ".join("'%s'" % c for c in n.value) + "]", STR
        if isinstance(n, ast.Attribute) and n.attr == "__name__" and isinstance(n.value, ast.Attribute) \
                and n.value.attr == "__class__" and self.ty_of_name(n.value.value, env) is MODEL:
            return "(cv3ClassName (pyType (ConvModel.obj %s)))" % mangle(n.value.value.id), STR
        if isinstance(n, ast.Tuple) and n.elts and all(isinstance(x, ast.Constant) and type(x.value) is int for x in n.elts):
            return "[" + ", ".join("(%d : Int)" % x.value for x in n.elts) + "]", TList(INT)     # a tuple of int literals
        if isinstance(n, ast.Tuple) and n.elts:
            parts = [self.expr(x, env) for x in n.elts]
            if all(res(t) in (VAR, NAT) for _, t in parts) and any(res(t) is NAT for _, t in parts):
                return "[" + ", ".join(s for s, _ in parts) + "]", KEY      # ints as labels
        if isinstance(n, ast.Attribute) and n.attr == "shape" and self.ty_of_name(n.value, env) is ND:
            return "(cv3NdShape %s)" % mangle(n.value.id), TList(NAT)
        if isinstance(n, ast.Attribute) and n.attr == "max_index" and self.ty_of_name(n.value, env) is CV3Q:
            return "(cv3QMaxIndex %s)" % mangle(n.value.id), OPTNAT
        if isinstance(n, ast.UnaryOp) and isinstance(n.op, ast.Not) and self.ty_of_name(n.operand, env) is CV3Q:
            if "bool" in self.module_names():
                raise Untranslatable("builtin bool is rebound in this module", n)
            return "((cv3QEmpty %s) = true)" % mangle(n.operand.id), PROP
        return conv.FnExt.expr(self, n, env, expected)

    def binop(self, op, left, right, env, node):
        (a, ta), fa = self.framed(lambda: self.expr(left, env))
        if res(ta) is OPTNAT and not fa and isinstance(op, ast.Add):
            b, tb = self.expr(right, env)
            if not is_num(tb) or res(tb) is RAT:
                raise Untranslatable("max_index + a %s" % lean_ty(tb), node)
            return self.bind("(cv3OptNatAdd %s %s)" % (a, coerce(b, tb, INT, node)), INT, node)
        if res(ta) is NPENTRY or res(ta) is OPTNAT:
            raise Untranslatable("arithmetic on a numpy scalar / an optional int (dtype-dependent: `+` on np.bool_ is "
                                 "logical or)", node)
        (b, tb), fb = self.framed(lambda: self.expr(right, env))
        if isinstance(op, ast.Add) and res(ta) is STR and res(tb) is STR and not fa and not fb:
            return "(%s ++ %s)" % (a, b), STR                       # string concatenation
        if isinstance(op, ast.Add) and isinstance(res(ta), TList) and same(ta, tb):
            a, ta = self.expr(left, env)
            b, tb = self.expr(right, env)
            return "(%s ++ %s)" % (a, b), res(ta)                  # tuple concatenation
        if res(tb) in (NPENTRY, OPTNAT):
            raise Untranslatable("arithmetic on a numpy scalar / an optional int (dtype-dependent: `+` on np.bool_ is "
                                 "logical or)", node)
        return conv.FnExt.binop(self, op, left, right, env, node)

    def compare(self, n, env):
        for x in [n.left] + list(n.comparators):
            (s, t), _ = self.framed(lambda x=x: self.expr(x, env))
            if res(t) in (NPENTRY, OPTNAT):
                raise Untranslatable("comparison of a numpy scalar / an optional int", n)
        return conv.FnExt.compare(self, n, env)

    def subscript(self, n, env):
        base = n.value
        tb = self.ty_of_name(base, env)
        if tb is ND or tb is NDROW or (isinstance(base, ast.Subscript) and self.ty_of_name(base.value, env) is ND):
            v, tv = self.expr(base, env) if not isinstance(base, ast.Subscript) else self.subscript(base, env)
            i, ti = self.expr(n.slice, env)
            if res(ti) not in (NAT, VAR):
                raise Untranslatable("array indexed by a %s (only ints known to be >= 0)" % lean_ty(ti), n)
            if res(tv) is ND:
                return self.bind("(cv3NdRow %s %s)" % (v, i), NDROW, n)
            if res(tv) is NDROW:
                return self.bind("(cv3RowItem %s %s)" % (v, i), NPENTRY, n)
        if isinstance(n.slice, ast.Slice) and tb is None:
            try:
                (_, tv0), _ = self.framed(lambda: self.expr(base, env))
            except Untranslatable:
                tv0 = None
            if tv0 is not None and res(tv0) is STR:
                tb = STR
        if tb is STR and isinstance(n.slice, ast.Slice):
            sv, _ = self.expr(base, env)
            if n.slice.step is not None:
                raise Untranslatable("slice with a step", n)
            bounds = []
            for bnd in (n.slice.lower, n.slice.upper):
                if bnd is None:
                    bounds.append("none")
                else:
                    sb, tbd = self.expr(bnd, env)
                    if not is_num(tbd) or res(tbd) is RAT:
                        raise Untranslatable("slice bound that is not an int", n)
                    bounds.append("(some %s)" % coerce(sb, tbd, INT, n))
            return "(pySlice %s %s %s)" % (sv, bounds[0], bounds[1]), STR
        if tb is CV3Q:
            k, tk = self.expr(n.slice, env)
            if res(tk) is not KEY:
                raise Untranslatable("Q[…] with a key that is not a tuple of labels", n)
            return self.bind("(cv3QGet %s %s)" % (mangle(base.id), k), RAT, n)
        return conv.FnExt.subscript(self, n, env)

    def iter_source(self, n, env):
        if isinstance(n, ast.Call) and isinstance(n.func, ast.Attribute) and n.func.attr == "items" and not n.args \
                and not n.keywords and self.ty_of_name(n.func.value, env) is CV3Q:
            return "(cv3QItems %s)" % mangle(n.func.value.id), TTuple([KEY, RAT])
        if self.ty_of_name(n, env) is STR:
            return mangle(n.id), CHAR                       # iterating a string: its characters
        if self.ty_of_name(n, env) is SOLC:
            return "(cv3SolIter %s)" % mangle(n.id), RAT
        return conv.FnExt.iter_source(self, n, env)

    def cond(self, n, env):
        if self.ty_of_name(n, env) is SOLC:
            return "((cv3SolTruthy %s) = true)" % mangle(n.id)
        return conv.FnExt.cond(self, n, env)

    def negation(self, n, env):
        if self.ty_of_name(n, env) is SOLC:
            return "((cv3SolTruthy %s) = false)" % mangle(n.id)
        return conv.FnExt.negation(self, n, env)

    def pass_args(self, what, n, env, ptys, vararg):
        if vararg or len(n.args) != len(ptys) or any(isinstance(a, ast.Starred) for a in n.args):
            return conv.FnExt.pass_args(self, what, n, env, ptys, vararg)
        out = []
        for a, pt in zip(n.args, ptys):
            sa, ta = self.expr(a, env, pt)
            if res(pt) is SOLC and same(ta, TList(INT)):
                out.append("(cv3SolOfTuple %s)" % sa)       # a tuple of ints where a solution container is expected
            else:
                out.append(coerce(sa, ta, pt, n))
        return out

    def builtin(self, f, name, n):
        if isinstance(f, ast.Name) and f.id == name:
            if name in self.module_names():
                raise Untranslatable("builtin %s is rebound in this module" % name, n)
            return True
        return False

    def one_char(self, x):
        return isinstance(x, ast.Constant) and isinstance(x.value, str) and len(x.value) == 1 and x.value.isalnum() \
            and x.value.isascii()

    def call(self, n, env):
        f = n.func
        if self.e.get("getattr_table"):
            if isinstance(f, ast.Attribute) and f.attr == "lower" and not n.args and not n.keywords:
                a, ta = self.expr(f.value, env)
                if res(ta) is STR:
                    return "(cv3StrLower %s)" % a, STR
            if isinstance(f, ast.Attribute) and f.attr == "replace" and len(n.args) == 2 and not n.keywords \
                    and all(self.one_char(x) for x in n.args):
                a, ta = self.expr(f.value, env)
                if res(ta) is STR:
                    return "(cv3StrReplaceChar %s '%s' '%s')" % (a, n.args[0].value, n.args[1].value), STR
            if isinstance(f, ast.Call) and not n.args and not n.keywords and self.builtin(f.func, "getattr", n) \
                    and len(f.args) == 2 and not f.keywords and self.ty_of_name(f.args[0], env) is MODEL:
                name, tn = self.expr(f.args[1], env)
                if res(tn) is not STR:
                    raise Untranslatable("getattr with a name that is not a string", n)
                rows = []
                for meth, local in self.e["getattr_table"]:
                    if local not in env or res(env[local]) is not conv.EXOBJ:
                        raise Untranslatable("registry: getattr_table names %s, which is not an ExceptObj local" % local, n)
                    rows.append("([%s], %s)" % (", ".join("'%s'" % c for c in meth), mangle(local)))
                return self.bind("(cv3GetattrCall0 %s [%s])" % (name, ", ".join(rows)), OBJ, n)
        if isinstance(f, ast.Name) and f.id not in env:
            if self.builtin(f, "bin", n) and len(n.args) == 1 and not n.keywords:
                a, ta = self.expr(n.args[0], env)
                if res(ta) not in (INT, NAT):
                    raise Untranslatable("bin of a %s" % lean_ty(ta), n)
                return "(cv3Bin %s)" % coerce(a, ta, INT, n), STR
            if self.builtin(f, "len", n) and len(n.args) == 1 and not n.keywords and self.ty_of_name(n.args[0], env) is STR:
                return "(List.length %s)" % mangle(n.args[0].id), NAT
            if self.builtin(f, "int", n) and len(n.args) == 1 and not n.keywords and self.ty_of_name(n.args[0], env) is CHAR:
                return self.bind("(cv3IntOfChar %s)" % mangle(n.args[0].id), INT, n)
            if self.builtin(f, "int", n) and len(n.args) == 1 and len(n.keywords) == 1 and n.keywords[0].arg == "base" \
                    and isinstance(n.keywords[0].value, ast.Constant) and n.keywords[0].value.value == 2 \
                    and type(n.keywords[0].value.value) is int:
                a, ta = self.expr(n.args[0], env)
                if res(ta) is not STR:
                    raise Untranslatable("int(…, base=2) of a %s" % lean_ty(ta), n)
                return self.bind("(cv3IntBase2 %s)" % a, INT, n)
            if self.builtin(f, "str", n) and len(n.args) == 1 and not n.keywords:
                a, ta = self.expr(n.args[0], env)
                if not is_num(ta):
                    raise Untranslatable("str of a %s" % lean_ty(ta), n)
                return "(cv3StrOfNum %s)" % coerce(a, ta, RAT, n), STR
            if self.builtin(f, "tuple", n) and len(n.args) == 1 and not n.keywords and isinstance(n.args[0], ast.GeneratorExp):
                (m, te), fr = self.framed(lambda: self.gen_map(n.args[0], env))
                if res(te) is INT and not fr:
                    m, te = self.gen_map(n.args[0], env)
                    return self.bind(m, TList(INT), n)
        if isinstance(f, ast.Attribute) and f.attr == "join" and isinstance(f.value, ast.Constant) and f.value.value == "" \
                and len(n.args) == 1 and not n.keywords and isinstance(n.args[0], ast.GeneratorExp):
            g = n.args[0]
            l, tl = self.comprehension(ast.ListComp(elt=g.elt, generators=g.generators, lineno=n.lineno), env)
            if not same(tl, TList(STR)):
                raise Untranslatable("join of a %s" % lean_ty(tl), n)
            return "(cv3JoinEmpty %s)" % l, STR
        if _is_np(self, f, "array") and len(n.args) == 1 and not n.keywords:
            a, ta = self.expr(n.args[0], env)
            if not same(ta, TList(TList(RAT))):
                raise Untranslatable("np.array of a %s" % lean_ty(ta), n)
            return self.bind("(cv3NpArray %s)" % a, ND, n)
        if _is_np(self, f, "zeros") and len(n.args) == 1 and not n.keywords:
            a = n.args[0]
            if not (isinstance(a, ast.BinOp) and isinstance(a.op, ast.Mult) and isinstance(a.left, ast.Tuple)
                    and len(a.left.elts) == 1 and isinstance(a.right, ast.Constant) and a.right.value == 2
                    and not isinstance(a.right.value, bool)):
                raise Untranslatable("np.zeros of a shape that is not `(e,) * 2`", n)
            e, te = self.expr(a.left.elts[0], env)
            if not is_num(te) or res(te) is RAT:
                raise Untranslatable("np.zeros with a dimension that is not an int", n)
            return self.bind("(cv3NpZerosSq %s)" % coerce(e, te, INT, n), ZEROS, n)
        if isinstance(f, ast.Attribute) and f.attr == "tolist" and not n.args and not n.keywords \
                and self.ty_of_name(f.value, env) is ZEROS:
            return "(Cv3MatRes.list (cv3ToList %s))" % mangle(f.value.id), MATRES
        if isinstance(f, ast.Name) and f.id == "isinstance" and len(n.args) == 2 and not n.keywords \
                and self.ty_of_name(n.args[0], env) is CV3Q:
            if "isinstance" in self.module_names() or self.class_ref(n.args[1], env) != "QUBOMatrix":
                raise Untranslatable("isinstance of the QUBO argument with something else than QUBOMatrix", n)
            return "(cv3QIsQM %s)" % mangle(n.args[0].id), BOOL
        if self.class_ref(f, env) == "QUBOMatrix" and len(n.args) == 1 and not n.keywords \
                and self.ty_of_name(n.args[0], env) is CV3Q:
            return self.bind("(cv3NewQUBOMatrix %s)" % mangle(n.args[0].id), CV3Q, n)
        return conv.FnExt.call(self, n, env)

    # ---- statements

    def check_signature(self):
        conv.FnExt.check_signature(self)
        from . import book
        for (cls, meth), owner in self.e.get("mro_expect", {}).items():
            got = book.lookup(cls, meth)
            if got != owner:
                raise Untranslatable("method resolution changed: %s.%s is now defined by %s (registry expects %s)" % (
                    cls, meth, got, owner), self.fnode)

    def ret(self, s, env):
        if self.ret_ty is not None and res(self.ret_ty) is MATRES and s.value is not None:
            v, t = self.expr(s.value, env)
            if res(t) is ZEROS:
                v, t = "(Cv3MatRes.array %s)" % v, MATRES
            if res(t) is not MATRES:
                raise Untranslatable("returns a %s" % lean_ty(t), s)
            self.ret_seen.append(t)
            return v
        return conv.FnExt.ret(self, s, env)

    def stmt(self, stmts, env, k, ind, flow):
        s, rest = stmts[0], stmts[1:]
        pad = " " * ind

        def cont(env2):
            return self.block(rest, env2, k, ind, flow)

        # `L[key] += <entry of a numpy array>` on a model object
        if isinstance(s, ast.AugAssign) and isinstance(s.target, ast.Subscript) and isinstance(s.op, ast.Add) \
                and self.ty_of_name(s.target.value, env) is OBJ:
            (v, tv), fv = self.framed(lambda: self.expr(s.value, env))
            if res(tv) is NPENTRY:
                L = s.target.value.id
                key, tk = self.expr(s.target.slice, env)
                if res(tk) is not KEY:
                    raise Untranslatable("item of %s with a key that is not a tuple of labels" % L, s)
                v, tv = self.expr(s.value, env)
                name, _ = self.bind("(pyItemIAdd %s %s %s)" % (mangle(L), key, v), OBJ, s)
                return "let %s : ConvObj := %s;\n%s%s" % (mangle(L), name, pad, cont(env))
        # `A[i][j] = v` on an array made by np.zeros
        if isinstance(s, ast.Assign) and len(s.targets) == 1 and isinstance(s.targets[0], ast.Subscript) \
                and isinstance(s.targets[0].value, ast.Subscript) \
                and self.ty_of_name(s.targets[0].value.value, env) is ZEROS:
            A = s.targets[0].value.value.id
            v, tv = self.expr(s.value, env)             # the value is evaluated before the subscripts
            if not is_num(tv):
                raise Untranslatable("array entry assigned a %s" % lean_ty(tv), s)
            v = coerce(v, tv, RAT, s)
            i, ti = self.expr(s.targets[0].value.slice, env)
            j, tj = self.expr(s.targets[0].slice, env)
            if res(ti) not in (VAR, NAT) or res(tj) not in (VAR, NAT):
                raise Untranslatable("array entry indexed by something that is not a label", s)
            return "let %s : Cv3Zeros := (cv3ZerosSet %s %s %s %s);\n%s%s" % (mangle(A), mangle(A), i, j, v, pad, cont(env))
        return conv.FnExt.stmt(self, stmts, env, k, ind, flow)

    def cv3_desugar_continue(self, stmts):
        """`if c: A; continue` followed by R  ==  `if c: A` `else: R`  (a `continue` that is the last statement of an
        else-less `if` at the top level of a loop body; a `continue` ending the body itself is dropped)"""
        stmts = list(stmts)
        if stmts and isinstance(stmts[-1], ast.Continue):
            stmts = stmts[:-1] or [ast.Pass()]
        for idx, st in enumerate(stmts):
            if isinstance(st, ast.If) and st.body and isinstance(st.body[-1], ast.Continue) and not st.orelse:
                rest = self.cv3_desugar_continue(stmts[idx + 1:])
                new_if = ast.If(test=st.test, body=st.body[:-1] or [ast.Pass()], orelse=rest or [ast.Pass()],
                                lineno=st.lineno)
                return stmts[:idx] + [new_if]
        return stmts

    def for_(self, s, env, cont, ind, flow):
        if any(isinstance(x, ast.Continue) for b in s.body for x in ast.walk(b)) and not s.orelse:
            s = ast.For(target=s.target, iter=s.iter, body=self.cv3_desugar_continue(s.body), orelse=[], lineno=s.lineno)
        return conv.FnExt.for_(self, s, env, cont, ind, flow)

    def if_(self, test, body, orelse, env, cont, ind, flow, node):
        pad = " " * ind
        # `if not isinstance(X, np.ndarray): …` on a matrix argument: X is a list of lists in the body, an array otherwise
        if isinstance(test, ast.UnaryOp) and isinstance(test.op, ast.Not) and isinstance(test.operand, ast.Call) \
                and isinstance(test.operand.func, ast.Name) and test.operand.func.id == "isinstance" \
                and len(test.operand.args) == 2 and not test.operand.keywords \
                and self.ty_of_name(test.operand.args[0], env) is MATARG and _is_np(self, test.operand.args[1], "ndarray"):
            if "isinstance" in self.module_names():
                raise Untranslatable("builtin isinstance is rebound in this module", node)
            X = test.operand.args[0].id
            env_seq, env_nd = dict(env), dict(env)
            env_seq[X], env_nd[X] = TList(TList(RAT)), ND
            a = self.block(body, env_seq, cont, ind + 4, flow)
            b = self.block(orelse, env_nd, cont, ind + 4, flow)
            return ("(match %s with\n%s| Cv3MatArg.seq _py_seq =>\n%s    let %s : List (List Rat) := _py_seq;\n%s    %s\n"
                    "%s| Cv3MatArg.nd _py_nd =>\n%s    let %s : Cv3Nd := _py_nd;\n%s    %s)" % (
                        mangle(X), pad, pad, mangle(X), pad, a, pad, pad, mangle(X), pad, b))
        if isinstance(test, ast.BoolOp) and isinstance(test.op, ast.Or) and not self.narrowing(test.values[0], env):
            try:
                _, frame = self.framed(lambda: [self.cond(v, env) for v in test.values[1:]])
            except Untranslatable:
                frame = []
            if frame:
                # a later operand may raise: `if A or B: S else: E` == `if A: S else: (if B: S else: E)`
                rest = test.values[1] if len(test.values) == 2 else ast.BoolOp(op=ast.Or(), values=test.values[1:])
                inner = ast.If(test=rest, body=body, orelse=orelse, lineno=node.lineno)
                return self.if_(test.values[0], body, [inner], env, cont, ind, flow, node)
        return conv.FnExt.if_(self, test, body, orelse, env, cont, ind, flow, node)


# ------------------------------------------------------------------------------------------- registry

EXP_NOTE = ["`self` is given by its items; the result is a plain dict in insertion order"]
REGISTRY = [
    dict(file=QM_FILE, func="matrix_to_qubo", lean="cv3_matrix_to_qubo", unit="Conv3Mat", group="Conv3Mat", props=["C04"],
         monadic=True, params=[("matrix", "Cv3MatArg")],
         extra_theorems=["cv3_matrix_to_qubo_nd", "cv3_matrix_to_qubo_array", "cv3_matrix_to_qubo_not_2d"],
         not_translated=["`matrix` is a list of lists of numbers or a numpy array given by its shape and rows (Cv3MatArg); "
                         "entries are exact numbers (float rounding, integer overflow of fixed-width dtypes are outside)",
                         "in `Q[(i, j)] += matrix[i][j]` the right operand is evaluated before `Q.__getitem__` "
                         "(Python: after); the only exception either can raise here is the IndexError of the right operand"]),
    dict(file=QM_FILE, func="qubo_to_matrix", lean="cv3_qubo_to_matrix", unit="Conv3Mat", group="Conv3Mat", props=["C04"],
         monadic=True, params=[("Q", "Cv3Q"), ("symmetric", "Bool"), ("array", "Bool")],
         defaults={"symmetric": "False", "array": "True"}, returns="Cv3MatRes",
         extra_theorems=["cv3_qubo_to_matrix_dict", "cv3_qubo_to_matrix_obj", "cv3_qubo_to_matrix_list"],
         not_translated=["`Q` is a plain dict or a QUBOMatrix given by its items and max_index (Cv3Q); a labelled QUBO "
                         "(whose max_index is num_binary_variables - 1) is outside",
                         "numpy's IndexError for `matrix[i][j] = v` with an index > max_index (prelude cv3ZerosSet; the "
                         "model's fillMatrix has no bound either: labels <= max_index is C14's invariant); float rounding "
                         "of the float64 array"]),
    dict(file=QS_FILE, func="QUSOMatrix.h", lean="cv3_QUSOMatrix_h", unit="Conv3Exp", group="Conv3Exp", props=["C04"],
         monadic=True, property=True, params=[("self", "Obj")], not_translated=EXP_NOTE),
    dict(file=QS_FILE, func="QUSOMatrix.J", lean="cv3_QUSOMatrix_J", unit="Conv3Exp", group="Conv3Exp", props=["C04"],
         monadic=True, property=True, params=[("self", "Obj")], not_translated=EXP_NOTE),
]

DEC_NOTE = ["`d` is a Python int (a float equal to an int makes `bin` raise TypeError: outside); numbers are exact"]
REGISTRY += [
    dict(file=conv.CONVF, func="decimal_to_boolean", lean="cv3_decimal_to_boolean", unit="Conv3Dec", group="Conv3Dec",
         props=["C04"], monadic=True, params=[("d", "Int"), ("num_bits", "OptInt")], defaults={"num_bits": "None"},
         extra_theorems=["cv3_decimal_boolean_round_trip"], not_translated=DEC_NOTE),
    dict(file=conv.CONVF, func="boolean_to_decimal", lean="cv3_boolean_to_decimal", unit="Conv3Dec", group="Conv3Dec",
         props=["C04"], monadic=True, params=[("b", "SolC")],
         not_translated=["`b` is a list / tuple (or dict) of exact numbers (SolC); the theorem is about tuples of 0s and 1s — "
                         "on other entries the function parses the concatenated `str()`s (e.g. `(10,)` gives 2), which the "
                         "model does not describe"]),
    dict(file=conv.CONVF, func="decimal_to_spin", lean="cv3_decimal_to_spin", unit="Conv3Dec", group="Conv3Dec",
         props=["C04"], monadic=True, params=[("d", "Int"), ("num_spins", "OptInt")], defaults={"num_spins": "None"},
         extra_theorems=["cv3_decimal_spin_round_trip", "cv3_decimal_to_spin_value"], not_translated=DEC_NOTE),
    dict(file=conv.CONVF, func="spin_to_decimal", lean="cv3_spin_to_decimal", unit="Conv3Dec", group="Conv3Dec",
         props=["C04"], monadic=True, params=[("b", "SolC")], not_translated=[]),
]

_TO = ("to_qubo", "to_quso", "to_pubo", "to_puso")
MRO_EXPECT = {
    ("QUBO", "to_qubo"): "QUBO", ("QUBO", "to_pubo"): "QUBO", ("QUBO", "to_quso"): "Conversions", ("QUBO", "to_puso"): "Conversions",
    ("QUSO", "to_quso"): "QUSO", ("QUSO", "to_puso"): "QUSO", ("QUSO", "to_qubo"): "Conversions", ("QUSO", "to_pubo"): "Conversions",
    ("PUBO", "to_pubo"): "PUBO", ("PUBO", "to_qubo"): "PUBO", ("PUBO", "to_puso"): "Conversions", ("PUBO", "to_quso"): "Conversions",
    ("PCBO", "to_pubo"): "PUBO", ("PCBO", "to_qubo"): "PUBO", ("PCBO", "to_puso"): "Conversions", ("PCBO", "to_quso"): "Conversions",
    ("PUSO", "to_puso"): "PUSO", ("PUSO", "to_quso"): "PUSO", ("PUSO", "to_pubo"): "PUSO", ("PUSO", "to_qubo"): "PUSO",
    ("PCSO", "to_puso"): "PUSO", ("PCSO", "to_quso"): "PUSO", ("PCSO", "to_pubo"): "PUSO", ("PCSO", "to_qubo"): "PUSO",
    ("PUSO", "_to_puso"): "PUSO", ("PCSO", "_to_puso"): "PUSO",
    ("QUBO", "convert_solution"): "QUBO", ("QUSO", "convert_solution"): "QUSO", ("PUBO", "convert_solution"): "PUBO",
    ("PCBO", "convert_solution"): "PUBO", ("PUSO", "convert_solution"): "PUSO", ("PCSO", "convert_solution"): "PUSO",
}
MRO_EXPECT.update({(c, "to_enumerated"): "BO" for c in conv.LABELLED})
REGISTRY += [
    dict(file="qubovert/utils/_bo_parentclass.py", func="BO.to_enumerated", lean="cv3_BO_to_enumerated", unit="Conv3Enum",
         group="Conv3Enum", props=["C04"], monadic=True, params=[("self", "Model")],
         locals=[("self_" + m, "ExceptObj") for m in _TO], getattr_table=[(m, "self_" + m) for m in _TO],
         mro_expect=MRO_EXPECT,
         extra_theorems=["cv3_to_enumerated_chain", "cv3_value_QUBO_to_qubo", "cv3_value_QUSO_to_quso", "cv3_value_PUBO_to_pubo",
                         "cv3_value_PUSO_to_puso", "cv3_PCBO_to_puso_chain", "cv3_PCBO_to_quso_chain",
                         "cv3_PCSO_to_puso_chain", "cv3_PCSO_to_quso_chain"],
         not_translated=["`getattr(self, name)()` looks `name` up among the four conversion methods `to_qubo/to_quso/to_pubo/"
                         "to_puso` (any other computed name: AttributeError); the value of each `self.to_X()` is a parameter "
                         "of the generated definition (dynamic dispatch); which definition each class uses is checked at "
                         "translation time against the class statements (registry `mro_expect`) and composed in the chain "
                         "theorems of Qv/Proofs/GenEq/Conv3Enum.lean"]),
]

UNITS = {
    "Conv3Enum": ("SourceConv3Enum.lean", ["Qv.Gen.SourceConv2Meth", "Qv.Gen.PreludeConv3"]),
    "Conv3Dec": ("SourceConv3Dec.lean", ["Qv.Gen.SourceConv2Sol", "Qv.Gen.PreludeConv3"]),
    "Conv3Mat": ("SourceConv3Mat.lean", ["Qv.Model.Convert", "Qv.Gen.PreludeConv3"]),
    "Conv3Exp": ("SourceConv3Exp.lean", ["Qv.Model.Basic", "Qv.Gen.PreludeConv3"]),
}


# ------------------------------------------------------------------------------------------- replay on the real code

from .conv import _F, ConvResult, SolResult, _build      # noqa: E402


def _num(v):
    """a Fraction as the plainest Python number that represents it exactly (int where integral)"""
    v = _F(v)
    return int(v) if v.denominator == 1 else v


class MatResult:
    """a list-of-lists / array result, printed like the Lean side's `cv3ShowRes`"""
    def __init__(self, tag, rows):
        self.tag, self.rows = tag, rows

    def __repr__(self):
        from ..gen_search import fs
        return "%s [%s]" % (self.tag, ", ".join("[%s]" % ", ".join("\"%s\"" % fs(_F(x)) for x in r) for r in self.rows))


def _real_m2q(inp):
    import qubovert.utils as u
    R = u.matrix_to_qubo([[_num(x) for x in row] for row in inp["rows"]])
    return ConvResult(type(R).__name__, [(tuple(k), v) for k, v in R.items()])


def _m2q_oracle(inp, got, names):
    """C04 (exports): the QUBO of a square matrix A has the value x^T A x at every boolean x"""
    import itertools
    from ..gen_search import prod, fs
    A = [[_F(x) for x in row] for row in inp["rows"]]
    n = len(A)
    if n == 0 or any(len(r) != n for r in A):
        return False, "matrix_to_qubo accepted a matrix that is not square"
    if got.ty != "QUBOMatrix":
        return False, "returned a %s" % got.ty
    for t in itertools.product((0, 1), repeat=n):
        want = sum((A[i][j] * t[i] * t[j] for i in range(n) for j in range(n)), _F(0))
        have = sum((_F(v) * prod(_F(t[i]) for i in k) for k, v in got.items), _F(0))
        if want != have:
            return False, "at x=%s x^T A x = %s, the QUBO gives %s" % (list(t), fs(want), fs(have))
    return True, "agree at all %d assignments" % 2 ** n


def _real_q2m(inp):
    import qubovert.utils as u
    d = {tuple(k): _num(v) for k, v in inp["items"]}
    if len(d) != len(inp["items"]):
        raise NotImplementedError("a key twice")
    R = u.qubo_to_matrix(d, symmetric=inp["symmetric"], array=inp["array"])
    if inp["array"] != (not isinstance(R, list)):
        return MatResult("wrong-container", [])
    rows = R if isinstance(R, list) else R.tolist()
    return MatResult("array" if inp["array"] else "list", [[_F(x) for x in r] for r in rows])


def _q2m_oracle(inp, got, names):
    """C04 (exports): x^T M x equals the value of the QUBO at every boolean x; M is symmetric / upper-triangular as asked"""
    import itertools
    from ..gen_search import prod, fs
    Q = [(tuple(k), _F(v)) for k, v in inp["items"]]
    M, n = got.rows, len(got.rows)
    if any(len(r) != n for r in M):
        return False, "the result is not square"
    if any(i >= n for k, _ in Q for i in k):
        return None, "labels beyond the matrix"
    for i in range(n):
        for j in range(n):
            if inp["symmetric"] and M[i][j] != M[j][i]:
                return False, "not symmetric at (%d, %d)" % (i, j)
            if not inp["symmetric"] and i > j and M[i][j] != 0:
                return False, "not upper-triangular at (%d, %d)" % (i, j)
    for t in itertools.product((0, 1), repeat=n):
        want = sum((v * prod(_F(t[i]) for i in k) for k, v in Q), _F(0))
        have = sum((M[i][j] * t[i] * t[j] for i in range(n) for j in range(n)), _F(0))
        if want != have:
            return False, "at x=%s the QUBO is %s, x^T M x = %s" % (list(t), fs(want), fs(have))
    return True, "agree at all %d assignments" % 2 ** n


def _real_h(inp):
    M = _build("QUSOMatrix", inp["items"])
    return SolResult("", list(M.h.items()))


def _real_J(inp):
    M = _build("QUSOMatrix", inp["items"])
    return ConvResult("", [(tuple(k), v) for k, v in M.J.items()])


def _h_oracle(inp, got, names):
    """C04 (exports): h holds exactly the field of every single-label term"""
    want = sorted((k[0], _F(v)) for k, v in inp["items"] if len(k) == 1)
    have = sorted((int(i), _F(v)) for i, v in got.items)
    return want == have, "fields %s, h = %s" % (want, have)


def _J_oracle(inp, got, names):
    """C04 (exports): J holds exactly the coupling of every two-label term"""
    want = sorted((tuple(k), _F(v)) for k, v in inp["items"] if len(k) == 2)
    have = sorted((tuple(k), _F(v)) for k, v in got.items)
    return want == have, "couplings %s, J = %s" % (want, have)


REAL = {
    "cv3_matrix_to_qubo": ("C04", _real_m2q, ("rows",), _m2q_oracle),
    "cv3_qubo_to_matrix": ("C04", _real_q2m, ("items", "symmetric", "array"), _q2m_oracle),
    "cv3_QUSOMatrix_h": ("C04", _real_h, ("kind", "items"), _h_oracle),
    "cv3_QUSOMatrix_J": ("C04", _real_J, ("kind", "items"), _J_oracle),
}


class IntsResult:
    """a tuple of ints, printed like the Lean side's `cv3ShowInts`"""
    def __init__(self, items):
        self.items = list(items)

    def __repr__(self):
        return "[%s]" % ", ".join(str(int(x)) for x in self.items)


def _real_d2b(inp):
    import qubovert.utils as u
    return IntsResult(u.decimal_to_boolean(int(inp["d"]), inp["num_bits"]))


def _d2b_oracle(inp, got, names):
    """C04 additions (round trip): the encoding has the requested width, consists of bits, and decodes to d"""
    d, nb = int(inp["d"]), inp["num_bits"]
    bits = got.items
    if d < 0:
        return False, "a negative number was encoded"
    if any(b not in (0, 1) for b in bits):
        return False, "not a bit string: %s" % bits
    if nb is not None and len(bits) != nb:
        return False, "width %d, asked for %d" % (len(bits), nb)
    val = sum(int(b) << (len(bits) - 1 - i) for i, b in enumerate(bits))
    return val == d, "the bits %s denote %d, encoded %d" % (bits, val, d)


def _real_d2s(inp):
    import qubovert.utils as u
    r = u.decimal_to_spin(int(inp["d"]), inp["num_spins"])
    return SolResult("seq", list(enumerate(r)))


def _d2s_oracle(inp, got, names):
    """C04 additions (round trip, spin form): spins, requested width, and 1 -> 0, -1 -> 1 decodes to d"""
    d, nb = int(inp["d"]), inp["num_spins"]
    z = [v for _, v in got.items]
    if d < 0 or any(v not in (1, -1) for v in z) or (nb is not None and len(z) != nb):
        return False, "not a spin string of the requested width for a non-negative number: %s" % z
    val = sum(((1 - int(v)) // 2) << (len(z) - 1 - i) for i, v in enumerate(z))
    return val == d, "the spins %s denote %d, encoded %d" % (z, val, d)


def _real_b2d(fname):
    def real(inp):
        import qubovert.utils as u
        from .conv import _container
        c = _container(inp)
        if isinstance(c, list):
            c = tuple(_num(v) for v in c)
        return getattr(u, fname)(c)
    return real


def _b2d_oracle(spin):
    """C04 additions: a tuple of bits (spins) decodes to the number it denotes, most significant first"""
    def oracle(inp, got, names):
        vals = [_F(v) for _, v in inp["items"]]
        if inp["is_dict"] or any(v not in ((1, -1) if spin else (0, 1)) for v in vals):
            return None, "not a tuple of %s" % ("spins" if spin else "bits")
        bits = [int((1 - v) / 2) if spin else int(v) for v in vals]
        want = sum(b << (len(bits) - 1 - i) for i, b in enumerate(bits))
        return got == want, "denotes %d, returned %s" % (want, got)
    return oracle


REAL.update({
    "cv3_decimal_to_boolean": ("C04", _real_d2b, ("d", "num_bits"), _d2b_oracle),
    "cv3_decimal_to_spin": ("C04", _real_d2s, ("d", "num_spins"), _d2s_oracle),
    "cv3_boolean_to_decimal": ("C04", _real_b2d("boolean_to_decimal"), ("is_dict", "items"), _b2d_oracle(False)),
    "cv3_spin_to_decimal": ("C04", _real_b2d("spin_to_decimal"), ("is_dict", "items"), _b2d_oracle(True)),
})


def _real_enum(inp):
    """to_enumerated on a real object of that type, with the four to_* methods replaced by markers"""
    M = conv._cls(inp["kind"])() if inp["kind"] != "dict" else {}
    if not hasattr(M, "to_enumerated"):
        raise AttributeError("no to_enumerated")
    marks = {"to_qubo": 0, "to_quso": 1, "to_pubo": 2, "to_puso": 3}
    cls = type("Marked", (type(M),), {m: (lambda self, i=i: {(i,): 1}) for m, i in marks.items()})
    cls.__name__ = type(M).__name__
    r = cls().to_enumerated()
    return ConvResult("dict", [(tuple(k), v) for k, v in r.items()])


def _enum_oracle(inp, got, names):
    """C04 (T4.5): a QUBO enumerates to its QUBO form, a QUSO to QUSO, PUBO / PCBO to PUBO, PUSO / PCSO to PUSO"""
    want = {"QUBO": 0, "QUSO": 1, "PUBO": 2, "PCBO": 2, "PUSO": 3, "PCSO": 3}.get(inp["kind"])
    have = [k for k, _ in got.items]
    return have == [(want,)], "expected the method #%s, got %s" % (want, have)


REAL["cv3_BO_to_enumerated"] = ("C04", _real_enum, ("kind",), _enum_oracle)
