"""Tie extension `book2` (tag `bk2`): construction, clearing, refreshing, copying and relabelling of the model objects
(C14; also C19 / C08 / C03 / C01).  Continues `book.py` (same object record `Obj`, same fragment, its FnExt is subclassed).

Generated file  lean/Qv/Gen/SourceBook2.lean      (unit "Book2"; imports the first wave's SourceBook: `self[k] += v` inside
                                                   `__init__` is the tied `cls_getitem` / `cls_setitem`)
Trusted prelude lean/Qv/Gen/PreludeBook2.lean     (the argument pack, `cls.__new__`, the dict-of-lists primitives of `_constraints`)
Model (granular) lean/Qv/Model/Book2.lean         (`initWith`, `reinit`, `Shape`, `setMapping`, … + bridges in Qv/Proofs/Book2.lean)
Proofs          lean/Qv/Proofs/GenEq/Book2.lean
Search          lean/Qv/Gen/Search/Book2.lean

Constructs added to the fragment of `book.FnExt` (one rule each; everything else is rejected as before):

  argument pack   a method registered with `star_args` has the signature `(self, *args, **kwargs)`; the pack is ONE value `args` of
                  type `Option <dict type>` (the model universe: no argument, or one positional argument that is a dict / model
                  object / mapping dict; keyword arguments and several positionals are outside).  `f(*args, **kwargs)` passes the
                  pack on; `_generate_key_value_pairs(*args, **kwargs)` -> pyBk2Pairs args; `len(args)` -> pyBk2ArgsLen args;
                  `args[0]` -> pyBk2Arg0 args, ONLY where a test `len(args) == 1` dominates it (left conjunct / enclosing if)
  constructors    `C.__init__(self, *args, **kwargs)` -> the definition the lookup of `__init__` in C finds (an unbound call: C need
                  not be in the MRO of the object); `super().__init__(*args, **kwargs)` -> next definition after the current class;
                  `super(self.__class__, self).m(*args, **kwargs)` -> generated table `cls_super_<m>_bk2 self.kind` (per model class
                  K: the next definition of m after K in K's MRO); `self.__init__()` / `self.__init__(d)` -> generated table
                  `cls_init_bk2 self.kind`; `self.__class__(x)` -> `cls_init_bk2 self.kind (pyBk2New self.kind) (some x)`
  other objects   `x._attr` read / `x._attr = e` write on a local or on `args[0]` (a value of the record); `x.prop` for a @property of
                  the object's own class -> generated table `cls_<prop>_bk2 x.kind x` (AttributeError for the classes without it);
                  `isinstance(x, self.__class__)` -> generated subclass table `cls_isinstance_bk2 x.kind self.kind`
  statements      `self[k] = v` -> cls_setitem self.kind; `self.name = e` -> skipped (the name is outside the record);
                  `a, b = e1, e2` with `{}` / `set()` on the right; `self.m()` for a tied method; the constraint-dict statements
                  `self._constraints[key].pop()`, `self._constraints.pop(key)`, `del self._constraints[key]` (only under
                  `if self._constraints.get(key, []):`); a local `x = self._constraints.get(key[, []])` names the list recorded under
                  the parameter `key` (no copy): `if x:`, `x.pop()`, `not x` read / write that list
  expressions     `dict(x)` of an object -> pyBk2DictOf x (a plain dict with its items); `self._constraints.get(key, [])`, `self._constraints[key]` (same guard), `{k: [E for x in v] for k, v in
                  c.items()}` on a constraint dict, `x.copy()` of a recorded constraint, `max(a, b)` on ints,
                  a module-level function named in the entry's `fn_params` -> a function parameter of the generated definition
  partial bodies  `only=` (book) plus `result_local=`: the value of the definition is that local after the selected statements
"""
import ast
from .. import translate as T
from ..translate import Untranslatable, mangle
from . import book as B

B.LEAN_TY.setdefault("OptObj", "Option Obj")
B.LEAN_TY.setdefault("Fn", "Unit")

PACK_ITEMS = {"OptObj": "Poly", "OptMap": "Map", "OptRMap": "RMap"}
PACK_ELT = {"OptObj": "Obj", "OptMap": "Map", "OptRMap": "RMap"}


def _dump(n):
    return ast.dump(n)


def _conjuncts(test):
    if isinstance(test, ast.BoolOp) and isinstance(test.op, ast.And):
        out = []
        for v in test.values:
            out += _conjuncts(v)
        return out
    return [test]


class FnExt(B.FnExt):
    def __init__(self, entry, module_src, fnode, done):
        B.FnExt.__init__(self, entry, module_src, fnode, done)
        self.facts = []            # ast dumps of the tests known to hold where the current expression is evaluated
        self.fn_used = []
        if "dispatch2" in entry:
            self.key = {"super": "clssuper.", "prop": "clsprop."}[entry["dispatch2"]["mode"]] + entry["dispatch2"]["name"]
        elif "isinstance_table" in entry:
            self.key = "cls.isinstance"

    # ---- the argument pack

    def pack(self, env):
        """(name, type) of the pack parameter of a `(self, *args, **kwargs)` method"""
        if not self.e.get("star_args"):
            return None
        p, t = self.e["params"][0]
        return (p, t) if env.get(p) == t else None

    def is_pack_pass(self, c, env):
        """the call passes exactly `*args, **kwargs` on (after `skip` leading positional arguments)"""
        pk = self.pack(env)
        a = self.fnode.args
        return bool(pk) and len(c.args) >= 1 and isinstance(c.args[-1], ast.Starred) and isinstance(c.args[-1].value, ast.Name) \
            and c.args[-1].value.id == a.vararg.arg and len(c.keywords) == 1 and c.keywords[0].arg is None \
            and isinstance(c.keywords[0].value, ast.Name) and c.keywords[0].value.id == a.kwarg.arg

    def known(self, test_src):
        return _dump(ast.parse(test_src, mode="eval").body) in self.facts

    def with_facts(self, tests, f):
        n = len(self.facts)
        self.facts += [_dump(t) for t in tests]
        try:
            return f()
        finally:
            del self.facts[n:]

    # ---- expressions

    def obj_expr(self, n, env):
        """an expression that denotes an object of the record (self, a local, args[0]); None otherwise"""
        if self.is_self(n):
            return "self"
        if isinstance(n, ast.Name) and env.get(n.id) == "Obj":
            return mangle(n.id)
        pk = self.pack(env)
        if pk and pk[1] == "OptObj" and isinstance(n, ast.Subscript) and isinstance(n.value, ast.Name) and n.value.id == pk[0]:
            s, t = self.expr(n, env)
            return s
        return None

    def cons_alias(self, n, env):
        """a local bound to `self._constraints.get(key[, []])` names the list recorded under `key` (no copy): its key text"""
        if isinstance(n, ast.Name) and isinstance(env.get(n.id), tuple) and env[n.id][0] == "ConsAlias":
            return env[n.id]
        return None

    def expr(self, n, env, expected=None):
        pk = self.pack(env)
        al = self.cons_alias(n, env)
        if al:
            return "(pyBk2ConsGet self.constraints %s)" % al[1], "PolyList"
        if pk and isinstance(n, ast.Subscript) and isinstance(n.value, ast.Name) and n.value.id == pk[0]:
            if not (isinstance(n.slice, ast.Constant) and n.slice.value == 0 and type(n.slice.value) is int):
                raise Untranslatable("subscript of the argument pack other than [0]", n)
            if not self.known("len(%s) == 1" % pk[0]):
                raise Untranslatable("%s[0] where no test `len(%s) == 1` dominates it" % (pk[0], pk[0]), n)
            return "(pyBk2Arg0 %s)" % mangle(pk[0]), PACK_ELT[pk[1]]
        if isinstance(n, ast.BoolOp) and isinstance(n.op, ast.And):
            parts = [self.cond(n.values[0], env)]
            for i, v in enumerate(n.values[1:], 1):
                parts.append(self.with_facts([c for u in n.values[:i] for c in _conjuncts(u)],
                                             lambda v=v: self.pure(lambda: self.cond(v, env), "a short-circuit operand", v)))
            return "(" + " ∧ ".join(parts) + ")", "Prop"
        if isinstance(n, ast.Attribute) and not self.is_self(n.value):
            o = self.obj_expr(n.value, env)
            if o is not None:
                if n.attr in B.FIELDS:
                    f, t = B.FIELDS[n.attr]
                    return "%s.%s" % (o, f), t
                info = self.table.get("clsprop." + n.attr)
                if info is None:
                    raise Untranslatable("no generated property table for .%s of another object" % n.attr, n)
                call = "(%s %s.kind %s)" % (info["lean"], o, o)
                return self.bindx(call, info["ret_ty"], n) if info["raises"] else (call, info["ret_ty"])
        if isinstance(n, ast.Subscript) and self.is_self_attr(n.value) and n.value.attr == "_constraints":
            kk, tk = self.expr(n.slice, env)
            guard = "self._constraints.get(%s, [])" % ast.unparse(n.slice)
            if not self.known(guard):
                raise Untranslatable("self._constraints[...] where no test `%s` dominates it" % guard, n)
            return "(pyBk2ConsGet self.constraints %s)" % self.coerce(kk, tk, "Rel", n), "PolyList"
        if isinstance(n, ast.DictComp):
            return self.cons_comprehension(n, env)
        return B.FnExt.expr(self, n, env, expected)

    def cons_comprehension(self, n, env):
        """{k: [E for x in v] for k, v in c.items()} on a constraint dict: E applied to every recorded constraint"""
        ok = len(n.generators) == 1 and not n.generators[0].ifs and not n.generators[0].is_async
        g = n.generators[0] if ok else None
        ok = ok and isinstance(g.target, ast.Tuple) and len(g.target.elts) == 2 and all(isinstance(x, ast.Name) for x in g.target.elts)
        ok = ok and isinstance(g.iter, ast.Call) and isinstance(g.iter.func, ast.Attribute) and g.iter.func.attr == "items" \
            and not g.iter.args and not g.iter.keywords
        if not ok:
            raise Untranslatable("dict comprehension of this shape", n)
        k, v = g.target.elts[0].id, g.target.elts[1].id
        src, ts = self.expr(g.iter.func.value, env)
        if ts != "Cons":
            raise Untranslatable("dict comprehension over the items of a %s" % ts, n)
        lc = n.value
        ok = isinstance(n.key, ast.Name) and n.key.id == k and isinstance(lc, ast.ListComp) and len(lc.generators) == 1 \
            and not lc.generators[0].ifs and isinstance(lc.generators[0].target, ast.Name) \
            and isinstance(lc.generators[0].iter, ast.Name) and lc.generators[0].iter.id == v
        if not ok:
            raise Untranslatable("dict comprehension whose value is not `[E for x in v]` under the key k", n)
        x = lc.generators[0].target.id
        if x in (k, v) or k == v:
            raise Untranslatable("comprehension variables clash", n)
        env2 = {a: b for a, b in env.items() if a not in (k, v)}
        env2[x] = "Poly"
        body, tb = self.pure(lambda: self.expr(lc.elt, env2), "a comprehension", n)
        if tb != "Poly":
            raise Untranslatable("comprehension element of type %s" % tb, n)
        return "(pyBk2ConsMap (fun (%s : Poly) => %s) %s)" % (mangle(x), body, src), "Cons"

    def call_arg(self, a, env):
        if self.is_self(a):
            return "self", "Obj"
        return self.expr(a, env)

    def call(self, n, env):
        f = n.func
        pk = self.pack(env)
        # _generate_key_value_pairs(*args, **kwargs)
        if isinstance(f, ast.Name) and f.id == "_generate_key_value_pairs" and len(n.args) == 1 and self.is_pack_pass(n, env):
            self.need_function_name("_generate_key_value_pairs", "qubovert/utils/_dict_arithmetic.py", n)
            return "(pyBk2Pairs %s)" % mangle(pk[0]), PACK_ITEMS[pk[1]]
        if isinstance(f, ast.Name) and f.id == "len" and len(n.args) == 1 and not n.keywords and pk \
                and isinstance(n.args[0], ast.Name) and n.args[0].id == pk[0] and "len" not in self.module_names():
            return "(pyBk2ArgsLen %s)" % mangle(pk[0]), "Nat"
        if isinstance(f, ast.Name) and f.id == "isinstance" and len(n.args) == 2 and not n.keywords \
                and isinstance(n.args[1], ast.Attribute) and n.args[1].attr == "__class__" and self.is_self(n.args[1].value) \
                and "isinstance" not in self.module_names():
            o = self.obj_expr(n.args[0], env)
            info = self.table.get("cls.isinstance")
            if o is None or info is None:
                raise Untranslatable("isinstance(…, self.__class__) of something that is not an object of the record", n)
            return "(%s %s.kind self.kind)" % (info["lean"], o), "Bool"
        if isinstance(f, ast.Name) and f.id == "max" and len(n.args) == 2 and not n.keywords and "max" not in self.module_names():
            a, ta = self.expr(n.args[0], env)
            b, tb = self.expr(n.args[1], env)
            if ta == "Nat" and tb in ("Nat", "Lit"):
                return "(pyBk2MaxNat %s %s)" % (a, self.coerce(b, tb, "Nat", n)), "Nat"
        if isinstance(f, ast.Name) and f.id == "dict" and len(n.args) == 1 and not n.keywords and "dict" not in self.module_names():
            o = self.obj_expr(n.args[0], env)
            if o is None:
                raise Untranslatable("dict(…) of something that is not an object of the record", n)
            return "(pyBk2DictOf %s)" % o, "Obj"
        if isinstance(f, ast.Name) and f.id in self.e.get("fn_params", {}) and not n.keywords:
            ptys, rty = self.e["fn_params"][f.id]
            self.need_function_name(f.id, None, n)
            args = [self.call_arg(a, env) for a in n.args]
            if len(args) != len(ptys):
                raise Untranslatable("call of %s with %d arguments" % (f.id, len(args)), n)
            if f.id not in self.fn_used:
                self.fn_used.append(f.id)
            return "(%s %s)" % (mangle(f.id), " ".join(self.coerce(s, t, w, n) for (s, t), w in zip(args, ptys))), rty
        if isinstance(f, ast.Attribute) and not n.keywords:
            recv, m = f.value, f.attr
            # self.__class__(x): a new object of the class of self, initialised with x
            if m == "__class__" and self.is_self(recv) and len(n.args) == 1:
                info = self.table.get("cls.__init__")
                if info is None:
                    raise Untranslatable("no generated dispatch for __init__", n)
                a, ta = self.call_arg(n.args[0], env)
                call = "(%s self.kind (pyBk2New self.kind) %s)" % (info["lean"], self.coerce(a, ta, "OptObj", n))
                return self.bindx(call, "Obj", n) if info["raises"] else (call, "Obj")
            # self.m() for a tied, non-mutating method that returns a value
            if self.is_self(recv) and not n.args and m in self.e.get("self_calls", []):
                ci = self.callee(B.self_target(self.cls, m), m, n)
                if ci["mutates"] or ci["how"] != "method":
                    raise Untranslatable("self.%s() inside an expression" % m, n)
                call = self.invoke(ci, [], n)
                return self.bindx(call, ci["ret_ty"], n) if ci["raises"] else (call, ci["ret_ty"])
            # x.copy() of a recorded constraint
            if m == "copy" and not n.args and isinstance(recv, ast.Name) and env.get(recv.id) == "Poly":
                return "(pyBk2PolyCopy %s)" % mangle(recv.id), "Poly"
            # self._constraints.get(key, [])
            if m == "get" and self.is_self_attr(recv) and recv.attr == "_constraints" and len(n.args) == 2 \
                    and isinstance(n.args[1], ast.List) and not n.args[1].elts:
                kk, tk = self.expr(n.args[0], env)
                return "(pyBk2ConsGet self.constraints %s)" % self.coerce(kk, tk, "Rel", n), "PolyList"
        return B.FnExt.call(self, n, env)

    def need_function_name(self, name, file, node):
        """`name` is bound exactly once at module level: a def in this module (then this must be `file`) or `from … import name`"""
        tree = ast.parse(self.src)
        defined = sum(1 for s in tree.body if isinstance(s, ast.FunctionDef) and s.name == name)
        imported = sum(1 for s in tree.body if isinstance(s, ast.ImportFrom) for a in s.names if a.name == name and a.asname is None)
        other = sum(1 for s in tree.body if not isinstance(s, (ast.FunctionDef, ast.ImportFrom, ast.Import, ast.ClassDef))
                    for x in ast.walk(s) if isinstance(x, ast.Name) and isinstance(x.ctx, ast.Store) and x.id == name)
        other += sum(1 for s in tree.body if isinstance(s, ast.ClassDef) and s.name == name)
        if defined + imported != 1 or other or (defined and file is not None and self.e["file"] != file):
            raise Untranslatable("cannot resolve %s to the function of that name" % name, node)
        if name in [a.arg for a in self.fnode.args.args] or any(
                isinstance(x, ast.Name) and isinstance(x.ctx, ast.Store) and x.id == name for x in ast.walk(self.fnode)):
            raise Untranslatable("%s is rebound inside the function" % name, node)

    # ---- statements

    def stmt(self, stmts, env, k, ind):
        s, rest = stmts[0], stmts[1:]
        pad = " " * ind

        def cont(env2=env):
            return self.block(rest, env2, k, ind)

        if isinstance(s, ast.Assign) and len(s.targets) == 1 and isinstance(s.targets[0], ast.Name) \
                and isinstance(s.value, ast.Call) and isinstance(s.value.func, ast.Attribute) and s.value.func.attr == "get" \
                and self.is_self_attr(s.value.func.value) and s.value.func.value.attr == "_constraints" and not s.value.keywords \
                and (len(s.value.args) == 1 or (len(s.value.args) == 2 and isinstance(s.value.args[1], ast.List)
                                                and not s.value.args[1].elts)):
            # x = self._constraints.get(key[, []]) : x names the list recorded under key (None / [] when there is none)
            karg = s.value.args[0]
            if not (isinstance(karg, ast.Name) and karg.id in [p for p, _ in self.e["params"]]) or s.targets[0].id in self.assigned(rest) \
                    or karg.id in self.assigned(rest):
                raise Untranslatable("alias of a constraint list under a key that is not a fixed parameter", s)
            kk, tk = self.expr(karg, env)
            env2 = dict(env)
            env2[s.targets[0].id] = ("ConsAlias", self.coerce(kk, tk, "Rel", s), karg.id)
            return cont(env2)
        if isinstance(s, ast.Delete) and len(s.targets) == 1 and isinstance(s.targets[0], ast.Subscript) \
                and self.is_self_attr(s.targets[0].value) and s.targets[0].value.attr == "_constraints":
            kk, tk = self.expr(s.targets[0].slice, env)
            guard = "self._constraints.get(%s, [])" % ast.unparse(s.targets[0].slice)
            if not self.known(guard):
                raise Untranslatable("del self._constraints[...] where no test `%s` dominates it" % guard, s)
            env2 = {a: b for a, b in env.items() if not (isinstance(b, tuple) and b and b[0] == "ConsAlias")}
            return self.setattr_("_constraints", "(pyBk2ConsDropKey self.constraints %s)" % self.coerce(kk, tk, "Rel", s),
                                 "Cons", s) + "\n" + pad + self.block(rest, env2, k, ind)
        if isinstance(s, ast.Assign) and len(s.targets) == 1:
            t0 = s.targets[0]
            # self.name = e : the name is not part of the record
            if self.is_self_attr(t0) and t0.attr == "name":
                self.pure(lambda: self.expr(s.value, env), "the value of self.name", s)
                return cont()
            # a, b, … = e1, e2, … with `{}` / `set()` among the values
            if isinstance(t0, ast.Tuple) and isinstance(s.value, ast.Tuple) and len(t0.elts) == len(s.value.elts) \
                    and all(self.is_self_attr(x) for x in t0.elts):
                vals = [self.expr(v, env) for v in s.value.elts]
                out = ""
                for i, (v, tv) in enumerate(vals):
                    if tv != "Empty":
                        out += "let _py_t%d := %s;\n%s" % (i, v if tv != "Lit" else "(%s : Nat)" % v, pad)
                for i, (tg, (v, tv)) in enumerate(zip(t0.elts, vals)):
                    if tg.attr in self.aliased:
                        raise Untranslatable("attribute %s is rebound while a local names its old value" % tg.attr, s)
                    out += self.setattr_(tg.attr, "_py_t%d" % i if tv != "Empty" else v, "Nat" if tv == "Lit" else tv, s) + "\n" + pad
                return out + cont()
            # self[k] = v
            if isinstance(t0, ast.Subscript) and self.is_self(t0.value):
                si = self.table.get("cls.__setitem__")
                if not si:
                    raise Untranslatable("no generated dispatch for item assignment", s)
                kk, tk = self.expr(t0.slice, env)
                v, tv = self.expr(s.value, env)
                return self.proc_call(si, [(kk, tk), (v, tv)], s, extra=["self.kind"])(pad + cont())
            # x._attr = e for a local object x
            if isinstance(t0, ast.Attribute) and isinstance(t0.value, ast.Name) and env.get(t0.value.id) == "Obj" \
                    and t0.value.id != "self":
                if t0.attr not in B.FIELDS:
                    raise Untranslatable("write to attribute %s, which is not part of the record" % t0.attr, s)
                f, t = B.FIELDS[t0.attr]
                v, tv = self.expr(s.value, env)
                x = mangle(t0.value.id)
                return "let %s : Obj := { %s with %s := %s };\n%s%s" % (x, x, f, self.coerce(v, tv, t, s), pad, cont())
        if isinstance(s, ast.If):
            facts = _conjuncts(s.test)
            for t in list(facts):           # a truthy alias of the list under `key`: the same fact as the .get test
                al = self.cons_alias(t, env)
                if al:
                    facts.append(ast.parse("self._constraints.get(%s, [])" % al[2], mode="eval").body)
            c = self.cond(s.test, env)
            a = self.with_facts(facts, lambda: self.block(s.body, env, lambda e2: cont(), ind + 2))
            b = self.block(s.orelse, env, lambda e2: cont(), ind + 2)
            return "if %s then\n%s  (%s)\n%selse\n%s  (%s)" % (c, pad, a, pad, pad, b)
        return B.FnExt.stmt(self, stmts, env, k, ind)

    def call_stmt(self, c, env, cont, pad, node):
        f = c.func
        if not isinstance(f, ast.Attribute):
            return B.FnExt.call_stmt(self, c, env, cont, pad, node)
        recv, m = f.value, f.attr
        pk = self.pack(env)
        # C.m(self, *args, **kwargs): the function the lookup of m in C finds, applied to this object
        if isinstance(recv, ast.Name) and recv.id in B.CLASSES and recv.id not in env and len(c.args) == 2 \
                and self.is_self(c.args[0]) and self.is_pack_pass(c, env):
            self.need_class_name(recv.id, node)
            ci = self.callee(B.lookup(recv.id, m), m, node)
            if ci["how"] != "method":
                raise Untranslatable("explicit %s.%s(self, …) of something that is not a method" % (recv.id, m), node)
            return self.proc_call(ci, [(mangle(pk[0]), pk[1])], node)(pad + cont())
        # super().m(*args, **kwargs)
        if self.is_super(recv) and self.how == "method" and len(c.args) == 1 and self.is_pack_pass(c, env):
            tgt = B.super_target(self.cls, m)
            if tgt == "dict":
                raise Untranslatable("super().%s of dict with arguments" % m, node)
            return self.proc_call(self.callee(tgt, m, node), [(mangle(pk[0]), pk[1])], node)(pad + cont())
        # super(self.__class__, self).m(*args, **kwargs)
        if isinstance(recv, ast.Call) and isinstance(recv.func, ast.Name) and recv.func.id == "super" and len(recv.args) == 2 \
                and not recv.keywords and isinstance(recv.args[0], ast.Attribute) and recv.args[0].attr == "__class__" \
                and self.is_self(recv.args[0].value) and self.is_self(recv.args[1]) and "super" not in self.module_names() \
                and len(c.args) == 1 and self.is_pack_pass(c, env):
            info = self.table.get("clssuper." + m)
            if info is None:
                raise Untranslatable("no generated table for super(self.__class__, self).%s" % m, node)
            return self.proc_call(info, [(mangle(pk[0]), pk[1])], node, extra=["self.kind"])(pad + cont())
        # self.__init__() / self.__init__(d)
        if self.is_self(recv) and m == "__init__" and not c.keywords and len(c.args) <= 1:
            info = self.table.get("cls.__init__")
            if not info:
                raise Untranslatable("no generated dispatch for __init__", node)
            arg = self.call_arg(c.args[0], env) if c.args else ("none", "None")
            return self.proc_call(info, [arg], node, extra=["self.kind"])(pad + cont())
        # x.pop() for a local x naming the list under key
        al = self.cons_alias(recv, env)
        if al and m == "pop" and not c.args and not c.keywords:
            if not self.known("self._constraints.get(%s, [])" % al[2]):
                raise Untranslatable("pop of a constraint list that may be empty / absent", node)
            return self.setattr_("_constraints", "(pyBk2ConsPopLast self.constraints %s)" % al[1], "Cons", node) \
                + "\n" + pad + cont()
        # self._constraints[key].pop() / self._constraints.pop(key)
        if m == "pop" and not c.args and not c.keywords and isinstance(recv, ast.Subscript) and self.is_self_attr(recv.value) \
                and recv.value.attr == "_constraints":
            self.expr(recv, env)                # the guard
            kk, tk = self.expr(recv.slice, env)
            return self.setattr_("_constraints", "(pyBk2ConsPopLast self.constraints %s)" % self.coerce(kk, tk, "Rel", node),
                                 "Cons", node) + "\n" + pad + cont()
        if m == "pop" and len(c.args) == 1 and not c.keywords and self.is_self_attr(recv) and recv.attr == "_constraints":
            kk, tk = self.expr(c.args[0], env)
            guard = "self._constraints.get(%s, [])" % ast.unparse(c.args[0])
            if not self.known(guard):
                raise Untranslatable("self._constraints.pop(...) where no test `%s` dominates it" % guard, node)
            return self.setattr_("_constraints", "(pyBk2ConsDropKey self.constraints %s)" % self.coerce(kk, tk, "Rel", node),
                                 "Cons", node) + "\n" + pad + cont()
        return B.FnExt.call_stmt(self, c, env, cont, pad, node)

    # ---- the function

    def check_sig(self):
        e, a = self.e, self.fnode.args
        if "sig" in e:
            if self.fnode.decorator_list or a.vararg or a.kwarg or a.kwonlyargs or a.posonlyargs:
                raise Untranslatable("signature changed", self.fnode)
            if [x.arg for x in a.args] != ["self"] + e["sig"]:
                raise Untranslatable("signature changed: parameters %s, registry expects %s" % (
                    [x.arg for x in a.args], ["self"] + e["sig"]), self.fnode)
            return
        B.FnExt.check_sig(self)
        if e.get("star_args") and (a.vararg.arg, a.kwarg.arg) != ("args", "kwargs"):
            raise Untranslatable("the argument pack is not named *args, **kwargs", self.fnode)

    def body_stmts(self):
        body = B.FnExt.body_stmts(self)
        if "result_local" in self.e:
            r = ast.Return(value=ast.Name(id=self.e["result_local"], ctx=ast.Load()))
            ast.copy_location(r, body[-1])
            ast.fix_missing_locations(r)
            body = body + [r]
        return body

    def translate_inner(self):
        e = self.e
        if "dispatch2" in e:
            return self.translate_dispatch2()
        if "isinstance_table" in e:
            return self.translate_isinstance()
        self.fn_used = []
        binders, ptys, rty, body = B.FnExt.translate_inner(self)
        extra = []
        for name in self.fn_used:
            pt, rt = e["fn_params"][name]
            extra.append("(%s : %s)" % (mangle(name), " → ".join([B.lt(t) for t in pt] + [B.lt(rt)])))
        self.ptys_out = ["Fn"] * len(extra) + ptys
        return extra + binders, self.ptys_out, rty, body

    def translate_dispatch2(self):
        """tables computed from the class headers and the classes' method definitions:
        mode "super": `super(self.__class__, self).m` — per model class K the next definition of m after K in K's MRO;
        mode "prop" : `x.m` for a @property m of the class of x — AttributeError for the classes that have none"""
        e = self.e
        m, mode = e["dispatch2"]["name"], e["dispatch2"]["mode"]
        infos = {}
        for k in B.MODEL_CLASSES:
            try:
                c = B.lookup(k, m, after=k if mode == "super" else None)
            except Untranslatable:
                c = None
            if c == "dict":
                raise Untranslatable("%s of %s is the builtin dict's" % (m, k), self.fnode)
            infos[k] = self.callee(c, m, self.fnode) if c else None
        have = [i for i in infos.values() if i]
        if not have:
            raise Untranslatable("no model class defines %s" % m, self.fnode)
        sig = None
        for ci in have:
            if ci["how"] != "method" or ci.get("virtual"):
                raise Untranslatable("%s is not a plain method / property everywhere" % m, self.fnode)
            this = (tuple(ci["param_tys"][1:]), ci["ret_ty"], ci["mutates"])
            if sig is None:
                sig = this
            elif sig != this:
                raise Untranslatable("definitions of %s have different signatures" % m, self.fnode)
        missing = any(i is None for i in infos.values()) or True          # the .dict arm
        raises = missing or any(i["raises"] for i in have)
        arms = []
        for k in B.MODEL_CLASSES:
            ci = infos[k]
            if ci is None:
                arms.append("  | %s => Except.error Err.attr" % B.CLASSES[k][1])
                continue
            call = "%s %s" % (ci["lean"], " ".join(["self"] + ["a%d" % i for i in range(len(sig[0]))]))
            arms.append("  | %s => %s" % (B.CLASSES[k][1], call if ci["raises"] else "Except.ok (%s)" % call))
        arms.append("  | .dict => Except.error Err.attr")
        self.how, self.raises, self.ret_ty, self.mutates = "method", raises, sig[1], sig[2]
        r = "Obj" if sig[1] == "ObjOnly" else B.lt(sig[1])
        ptys = ["Kind", "Obj"] + list(sig[0])
        self.ptys_out = ptys
        binders = ["(κ : Kind)", "(self : Obj)"] + ["(a%d : %s)" % (i, B.lt(t)) for i, t in enumerate(sig[0])]
        return binders, ptys, "Except Err %s" % r, "match κ with\n" + "\n".join(arms)

    def translate_isinstance(self):
        """`isinstance(x, C)` for model classes: C occurs in the MRO of the class of x (computed from the class headers)"""
        arms = []
        for c in B.MODEL_CLASSES:
            subs = [k for k in B.MODEL_CLASSES if c in B.mro(k)]
            arms.append("  | %s => %s" % (B.CLASSES[c][1], " || ".join("κx == %s" % B.CLASSES[k][1] for k in subs)))
        arms.append("  | .dict => κx != .dict")
        self.how, self.raises, self.ret_ty, self.mutates = "static", False, "Bool", False
        self.ptys_out = ["Kind", "Kind"]
        return ["(κx : Kind)", "(κc : Kind)"], self.ptys_out, "Bool", "match κc with\n" + "\n".join(arms)


# ------------------------------------------------------------------------------------------- registry

U = B.U
PM, DA, BOF = B.PM, B.DA, B.BOF
UNITS = {"Book2": ("SourceBook2.lean", ["Qv.Model.Book", "Qv.Gen.SourceBook", "Qv.Gen.PreludeBook2"])}
K2 = dict(unit="Book2", group="Book2")
NT_PACK = "the argument pack `(*args, **kwargs)` is one value: no argument, or one positional argument that is a dict / model " \
          "object (keyword arguments, several positionals and iterables of pairs are exercised by the correspondence only)"
NT_NAME = "`self.name = None` (the name is not part of the record)"
NT_GKV = "`_generate_key_value_pairs(*args, **kwargs)` is the prelude's pyBk2Pairs: the items of the argument in dict order"


def _init(file, cls, props, **kw):
    return dict(K2, file=file, func=cls + ".__init__", lean=cls + "_init_bk2", star_args=True, params=[("args", "OptObj")],
                mutates=True, props=props, **kw)


C14, C1419 = ["C14"], ["C14", "C19"]
REGISTRY = [
    # 1. the __init__ chain
    _init(DA, "DictArithmetic", C1419, not_translated=[NT_PACK, NT_GKV, NT_NAME]),
    _init(PM, "PUBOMatrix", C1419, not_translated=[NT_PACK]),
    _init(BOF, "BO", C1419, not_translated=[NT_PACK]),
    _init("qubovert/_pubo.py", "PUBO", C1419, not_translated=[NT_PACK]),
    _init("qubovert/_qubo.py", "QUBO", C1419, not_translated=[NT_PACK]),
    _init("qubovert/_puso.py", "PUSO", C1419, not_translated=[NT_PACK]),
    _init("qubovert/_quso.py", "QUSO", C1419, not_translated=[NT_PACK]),
    dict(K2, file="qubovert/_pcbo.py", func="PCBO.__init__", dispatch2=dict(name="__init__", mode="super"),
         lean="cls_super_init_bk2", props=C1419,
         not_translated=["not a function of the source: the table `super(self.__class__, self).__init__` for the ten model classes "
                         "(per class K the next definition of __init__ after K in K's MRO, computed from the class headers)"]),
    dict(K2, file="qubovert/_pcbo.py", func="PCBO.__init__", isinstance_table=True, lean="cls_isinstance_bk2", props=C1419,
         not_translated=["not a function of the source: the subclass table of the ten model classes (C3 linearisation of the "
                         "class headers); the class `.dict` as first argument is a plain dict / DictArithmetic"]),
    dict(K2, file="qubovert/_pcbo.py", func="PCBO.constraints", lean="PCBO_constraints_bk2", params=[], props=C1419,
         not_translated=["`x.copy()` of a recorded constraint is the same value (aliasing is C19's heap model)"]),
    dict(K2, file="qubovert/_pcso.py", func="PCSO.constraints", lean="PCSO_constraints_bk2", params=[], props=C1419,
         not_translated=["as PCBO.constraints"]),
    dict(K2, file="qubovert/_pcso.py", func="PCSO.num_ancillas", lean="PCSO_num_ancillas_bk2", params=[], props=C1419),
    dict(K2, file="qubovert/_pcbo.py", func="PCBO.constraints", dispatch2=dict(name="constraints", mode="prop"),
         lean="cls_constraints_bk2", props=C1419,
         not_translated=["not a function of the source: the table of the property `constraints` per model class "
                         "(AttributeError for the classes without it)"]),
    dict(K2, file="qubovert/_pcbo.py", func="PCBO.num_ancillas", dispatch2=dict(name="num_ancillas", mode="prop"),
         lean="cls_num_ancillas_bk2", props=C1419,
         not_translated=["not a function of the source: the table of the property `num_ancillas` per model class"]),
    _init("qubovert/_pcbo.py", "PCBO", C1419, not_translated=[NT_PACK]),
    _init("qubovert/_pcso.py", "PCSO", C1419, not_translated=[NT_PACK]),
    dict(K2, file=PM, func="PUBOMatrix.__init__", dispatch="__init__", lean="cls_init_bk2", props=C1419,
         extra_theorems=["cls_init_bk2_cast", "cls_init_bk2_fresh", "bk2_on_histories"],
         not_translated=["not a function of the source: the method-resolution table of `__init__` for the ten model classes and "
                         "DictArithmetic"]),
    # 3. copy
    dict(K2, file=DA, func="DictArithmetic.copy", lean="DictArithmetic_copy_bk2", params=[], returns="Obj", props=C1419,
         extra_theorems=["DictArithmetic_copy_bk2_history"],
         not_translated=["`self.__class__(self)`: a new object (prelude pyBk2New: `cls.__new__`) initialised by the class's "
                         "`__init__` (table cls_init_bk2)"]),
    # 2. refresh and clear
    dict(K2, file=PM, func="PUBOMatrix.refresh", lean="PUBOMatrix_refresh_bk2", params=[], mutates=True, self_calls=["copy"],
         props=["C14", "C08", "C03"], extra_theorems=["PUBOMatrix_refresh_bk2_history"]),
    dict(K2, file=PM, func="PUBOMatrix.clear", lean="PUBOMatrix_clear_bk2", params=[], mutates=True,
         props=["C14", "C08", "C04"], extra_theorems=["PUBOMatrix_clear_bk2_history"]),
    # 3. mappings, constraint bookkeeping
    dict(K2, file=BOF, func="BO.set_mapping", lean="BO_set_mapping_bk2", star_args=True, params=[("args", "OptMap")], mutates=True,
         props=C14, extra_theorems=["BO_set_mapping_bk2_remap"],
         not_translated=["the pack is no argument or one mapping dict {label: int}", NT_GKV]),
    dict(K2, file=BOF, func="BO.set_reverse_mapping", lean="BO_set_reverse_mapping_bk2", star_args=True,
         params=[("args", "OptRMap")], mutates=True, props=C14,
         not_translated=["the pack is no argument or one reverse mapping dict {int: label}", NT_GKV]),
    dict(K2, file="qubovert/_pcbo.py", func="PCBO._pop_constraint", lean="PCBO_pop_constraint_bk2", params=[("key", "Rel")],
         mutates=True, props=C14,
         not_translated=["the dict of lists `_constraints` is the list of (relation, constraint) pairs in append order: an absent "
                         "key and a key with an empty list are the same value"]),
    # 4. where reduction ancillas start
    dict(K2, file="qubovert/_pubo.py", func="PUBO._reduce_degree", lean="reduce_degree_anc_start_bk2", params=[],
         sig=["D", "deg", "lam", "pairs"], only="ancilla = self.num_binary_variables", result_local="ancilla",
         props=["C14", "C01"],
         not_translated=["everything but the statement `ancilla = self.num_binary_variables` (the rest of the loop is tied in "
                         "group Reduce)"]),
    dict(K2, file="qubovert/_puso.py", func="PUSO._create_pubo", lean="PUSO_create_pubo_bk2", params=[], returns="Obj",
         fn_params={"puso_to_pubo": (["Obj"], "Obj")}, props=["C14", "C01"],
         not_translated=["`puso_to_pubo` is a function parameter of the generated definition (the conversion is tied in group "
                         "ConvGen); only the hand-over of mapping / reverse mapping / variable count is under this tie"]),
]


# ------------------------------------------------------------------------------------------- replay on the real code

def _show(o, st):
    return B._Shown(B._show_state(o, st), o)


def _mk_arg(j):
    """the argument of a constructor: None, a plain dict, or a model object"""
    from fractions import Fraction
    if j is None:
        return ()
    if j["kind"] == "dict":
        return ({tuple(k): Fraction(v) for k, v in j["terms"]},)
    o = B._mk(j)
    _set_cons(o, j)
    return (o,)


def _set_cons(o, j):
    from fractions import Fraction
    if hasattr(o, "_constraints"):
        o._constraints = {}
        for rel, P in j.get("constraints", []):
            o._constraints.setdefault(rel, []).append({tuple(k): Fraction(v) for k, v in P})


def _show2(o, st):
    """state incl. the recorded constraints, printed like the Lean side's `jStateBk2`"""
    from fractions import Fraction

    def fr(v):
        v = Fraction(v)
        return str(v.numerator) if v.denominator == 1 else "%d/%d" % (v.numerator, v.denominator)
    cons = []
    for rel in ("eq", "ne", "lt", "le", "gt", "ge"):
        for P in getattr(o, "_constraints", {}).get(rel, []):
            cons.append('["%s", [%s]]' % (rel, ", ".join('[[%s], "%s"]' % (", ".join(str(i) for i in k), fr(v)) for k, v in P.items())))
    return B._Shown(B._show_state(o, st)[:-1] + ', "constraints": [%s]}' % ", ".join(cons), o)


def _real_new(inp):
    o = B._cls(inp["kind"])(*_mk_arg(inp["arg"]))
    return _show2(o, dict(next_label=0, ancilla=0))


def _obj(j):
    o = B._mk(j)
    _set_cons(o, j)
    return o


def _real_copy(inp):
    return _show2(_obj(inp["self"]).copy(), inp["self"])


def _real_refresh(inp):
    o = _obj(inp["self"])
    o.refresh()
    return _show2(o, inp["self"])


def _real_clear(inp):
    o = _obj(inp["self"])
    o.clear()
    return _show2(o, inp["self"])


def _real_set_mapping(inp):
    o = _obj(inp["self"])
    o.set_mapping({a: b for a, b in inp["mapping"]})
    return _show2(o, inp["self"])


def _real_set_reverse_mapping(inp):
    o = _obj(inp["self"])
    o.set_reverse_mapping({a: b for a, b in inp["mapping"]})
    return _show2(o, inp["self"])


def _real_pop(inp):
    o = _obj(inp["self"])
    o._pop_constraint(inp["key"])
    return _show2(o, inp["self"])


def _book_oracle(inp, got, names):
    return B._setitem_oracle(inp, got, names)


def _anc_oracle(inp, got, names):
    """C14 (I4) on the live object: every label of the form __a<k> — here: the ids >= 2**20 — that the object mentions is below
    the ancilla counter, and the bookkeeping clauses of `_setitem_oracle`"""
    ok, why = B._setitem_oracle(inp, got, names)
    o = got.obj
    if hasattr(o, "_ancilla"):
        anc = 2 ** 20
        bad = sorted(i for i in ({i for k in o for i in k} | set(o._variables)) if i >= anc + o._ancilla)
        if bad:
            return False, "ancilla labels %s at or above the counter %d; %s" % ([i - anc for i in bad], o._ancilla, why)
        src = inp.get("self")
        if src and src.get("constraints") and not getattr(o, "_constraints", None) and inp.get("op") != "clear":
            return False, "the recorded constraints are gone; " + why
    return ok, why


REAL = {
    "cls_init_bk2": ("C14", _real_new, ("kind", "arg"), _anc_oracle),
    "DictArithmetic_copy_bk2": ("C14", _real_copy, ("self",), _anc_oracle),
    "PUBOMatrix_refresh_bk2": ("C14", _real_refresh, ("self",), _anc_oracle),
    "PUBOMatrix_clear_bk2": ("C14", _real_clear, ("self",), _book_oracle),
    "BO_set_mapping_bk2": ("C14", _real_set_mapping, ("self", "mapping"), None),
    "BO_set_reverse_mapping_bk2": ("C14", _real_set_reverse_mapping, ("self", "mapping"), None),
    "PCBO_pop_constraint_bk2": ("C14", _real_pop, ("self", "key"), None),
}
