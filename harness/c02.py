"""C02 — PCBO comparison constraints become exact non-negative penalties (correspondence + oracle).

Families:
  grid   every (shape template, relation, log_trick, bounds mode) combination as the first constraint of a
         sequence of 1..4 constraints on one model
  rand   random sequences
  special  the ancilla-free special forms (x <= y, OR form 1 <= x + y, AND form z == x*y, sum <= 1) x 6 relations x
         log_trick, with label realisations that contain True / False
  mag    extreme-magnitude weights: every template x relation with lam in {1/10^18, 3/2^70, 1/2^60, 1/2^55, 7/10^16, 2^60,
         3*2^70, 10^18+1} (exact Fractions / ints; a dyadic weight shared by the whole case also as floats), and `== 0`
         constraints whose coefficients and bounds are scaled by 2^60, 10^18+1, 2^-60, 1/10^18.  The model is over exact
         rationals; the oracle's truth table switches to exact Python integers when the coefficients leave int64.
Every abstract case is run on the real code under five label realisations (ints, strings, int/str/tuple mix, False/True next
to strings, and per case four labels drawn from a pool of unusual hashable types: None, False, True, floats, frozensets,
ints, strings incl. "", tuples incl. ()); all must agree with the model, and a realisation that behaves differently is judged
by the truth-table oracle on its own.
"""
import itertools, json, warnings
from fractions import Fraction
from . import common
from .common import Labels, fs, exc_name, canon_terms, ANC, Infra

CEXT = "plain"
RULE = ("sequences of 1..4 add_constraint_R_zero calls on one PCBO: polynomials from 14 shape templates (random integer "
        "polynomial n<=4 deg<=3 coefficients in [-4,4], sum(m_i)-1, m1-m2, 1-m1-m2, v(a-bc), non-negative with negative "
        "offset, constants/empty, always positive/negative, non-negative, non-positive, two-sided, cancelling raw keys, "
        "half-integer) x 6 relations x log_trick x 8 bounds modes (none, (None,None), exact, loose, left, right, "
        "non-integer loose, invalid[correspondence only]) x lam in {1,2,1/2,3}(+0) x operand type (dict with "
        "unsorted/repeated labels, PUBO, PCBO) x number type (int, Fraction, dyadic float) x 5 label realisations (int, str, "
        "int/str/tuple mix, False/True + strings, four labels from a pool of None / bool / float / frozenset / int / str / "
        "tuple objects per case); family special: the four ancilla-free special forms x relation x log_trick with bool labels; "
        "family mag: the same with lam of extreme magnitude (1/10^18 .. 3*2^70, Fractions and dyadic floats) and == 0 "
        "constraints with coefficients scaled by 2^60, 10^18+1, 2^-60, 1/10^18; "
        "non-trivial = first polynomial has >=2 terms and the call adds >=1 term; distinct = distinct case JSON")
ASSUMPTIONS = ["float coefficients/bounds are restricted to dyadic rationals so IEEE arithmetic is exact",
               "the direct oracle enumerates all assignments of variables and ancillas only when their number is <= 12 "
               "(other steps are compared with the model only; counted as oracle-skipped)"]

RELS = ["eq", "ne", "lt", "le", "gt", "ge"]
ALL_TAGS = ["eq-special-and", "eq-always", "eq-unsat-pos", "eq-unsat-neg", "eq-min0", "eq-max0", "eq-square",
            "le-special-sum1", "le-special-unary", "le-special-or", "le-special-xley", "le-unsat", "le-always",
            "le-noslack", "le-logslack", "le-unaryslack", "lt-unsat", "lt-always", "lt-shift",
            "ne-unsat", "ne-always-pos", "ne-always-neg", "ne-gt", "ne-lt", "ne-twosided"]
MIN_TAG_HITS = 20
BMS = ["none", "nonenone", "exact", "loose", "left", "right", "frac", "invalid"]
TEMPLATES = ["rand", "sum1", "xley", "or", "and", "nonneg_off", "const", "pos", "neg", "nonneg", "nonpos", "two",
             "cancel", "half"]
STYLES3 = ("int", "str", "mixed")
# Further label realisations (label parametricity, DESIGN §3.1): "boolstr" = the labels False / True next to strings, and
# "pool" = per case a random choice of four labels of unusual hashable types.  POOL is listed in the order of the documented
# ordering_key (type name first, then the object), so that a sorted choice of indices is an order-preserving realisation of
# the ids 0..3.  False == 0 and True == 1 as dict keys: a choice never contains both spellings of one key.  The frozensets form
# a chain (their "<" is the subset order); the tuples are mutually comparable; no string starts with the ancilla prefix.
POOL = [None, False, True, -1.5, 0.5, 2.5, frozenset(), frozenset({0}), frozenset({0, 1}), -3, 0, 1, 2, 7,
        "", "a", "s1", "~", (), (0,), (0, 1), (1,)]
assert all((str(type(a)), a) < (str(type(b)), b) if type(a) is type(b) else str(type(a)) < str(type(b))
           for a, b in zip(POOL, POOL[1:]))
# pairs of POOL positions holding equal dict keys of different types (list.index would find the bool for 0 / 1)
POOL_CLASH = [(i, j) for i in range(len(POOL)) for j in range(i + 1, len(POOL)) if POOL[i] == POOL[j]]
assert POOL_CLASH == [(1, 10), (2, 11)]
STYLES_EXTRA = ("boolstr", "pool")


class PoolLabels(Labels):
    """ids 0..len(idx)-1 realised by POOL[idx[0]] < POOL[idx[1]] < ... (increasing indices)"""
    def __init__(self, idx):
        self.style = "pool"
        self.l = [POOL[i] for i in idx]
        self.inv = {x: i for i, x in enumerate(self.l)}
        if len(self.inv) != len(self.l):
            raise Infra("pool labels %r are not pairwise different dict keys" % (self.l,))
        self._occ = 0


def gen_pool(rng, k=4, need_bool=False):
    while True:
        idx = sorted(rng.sample(range(len(POOL)), k))
        if any(a in idx and b in idx for a, b in POOL_CLASH):
            continue
        if need_bool and not any(isinstance(POOL[i], bool) for i in idx[:3]):
            continue
        return idx


def styles_of(case):
    return STYLES3 + (("boolstr", "pool") if case.get("xl") else ())


def labels_for(case, style):
    return PoolLabels(case["xl"]) if style == "pool" else Labels(style)

def holds(rel, v):
    return {"eq": v == 0, "ne": v != 0, "lt": v < 0, "le": v <= 0, "gt": v > 0, "ge": v >= 0}[rel]

# ------------------------------------------------------------------ generation

def mon(rng, nv, lo=1):
    return tuple(sorted(rng.sample(range(nv), rng.randint(lo, min(3, nv)))))

def template(rng, t, nv):
    """a polynomial as an ordered dict {sorted key tuple: int or Fraction}"""
    P = {}
    if t == "rand":
        for _ in range(rng.randint(1, 4)):
            P[mon(rng, nv, 0)] = rng.choice([-4, -3, -2, -1, 1, 2, 3, 4])
    elif t == "sum1":
        for _ in range(rng.randint(0, 3)):
            P[mon(rng, nv)] = 1
        P[()] = -1
    elif t == "xley":
        a, b = mon(rng, nv), mon(rng, nv)
        if a != b:
            P[a] = 1; P[b] = -1
        else:
            P[a] = 1
        if rng.random() < 0.5:
            P = dict(reversed(list(P.items())))
    elif t == "or":
        a, b = mon(rng, nv), mon(rng, nv)
        P[a] = -1; P[b] = -1; P[()] = 1
    elif t == "and":
        if nv >= 3:
            a, b, c = rng.sample(range(nv), 3); v = rng.choice([1, 2, -1, -3])
            P[(a,)] = v; P[tuple(sorted((b, c)))] = -v
            if rng.random() < 0.5:
                P = dict(reversed(list(P.items())))
        else:
            P[(0,)] = 1; P[(nv - 1,)] = -1
    elif t == "nonneg_off":
        for _ in range(rng.randint(1, 3)):
            P[mon(rng, nv)] = rng.choice([1, 1, 2, 3])
        P[()] = -rng.randint(1, 4)
    elif t == "const":
        c = rng.choice([-2, -1, 0, 1, 2])
        if c:
            P[()] = c
    elif t in ("pos", "neg"):
        for _ in range(rng.randint(0, 2)):
            P[mon(rng, nv)] = rng.choice([1, 2, 3])
        P[()] = rng.randint(1, 3)
        if t == "neg":
            P = {k: -v for k, v in P.items()}
    elif t in ("nonneg", "nonpos"):
        for _ in range(rng.randint(1, 3)):
            P[mon(rng, nv)] = rng.choice([1, 2, 3])
        if t == "nonpos":
            P = {k: -v for k, v in P.items()}
    elif t == "two":
        P[mon(rng, nv)] = rng.choice([1, 2, 3]); P[mon(rng, nv)] = -rng.choice([1, 2, 3])
        if rng.random() < 0.5:
            P[mon(rng, nv, 0)] = rng.choice([-2, -1, 1, 2])
    elif t == "cancel":
        pass      # handled by rawify (two raw keys that squash to the same key with opposite coefficients)
    elif t == "half":
        for _ in range(rng.randint(1, 3)):
            P[mon(rng, nv, 0)] = rng.choice([Fraction(1, 2), Fraction(-1, 2), Fraction(3, 2), 1, -1])
    return P

def rawify(rng, P, t, nv, ptype):
    """the user's items: for plain dicts unsorted / repeated labels in keys (distinct as tuples)"""
    items = []
    for k, v in P.items():
        k = list(k)
        if ptype == "dict" and k:
            rng.shuffle(k)
            if rng.random() < 0.25:
                k.insert(rng.randint(0, len(k)), rng.choice(k))
        items.append([k, v])
    if t == "cancel":
        if nv >= 2:
            c = rng.choice([1, 2, 3])
            items += [[[0, 1], c], [[1, 0], -c]] if ptype == "dict" else []
        if not items and rng.random() < 0.5:
            items = [[[0], 1], [[0, 0], -1]] if ptype == "dict" else []
    seen, out = set(), []
    for k, v in items:
        if tuple(k) not in seen:
            seen.add(tuple(k)); out.append([k, fs(v)])
    return out

def value_at(items, x):
    tot = Fraction(0)
    for k, v in items:
        m = Fraction(v)
        for i in k:
            m *= x[i]
        tot += m
    return tot

def gen_step(rng, nv, t=None, rel=None, lt=None, bm=None):
    t = t or rng.choice(TEMPLATES)
    rel = rel or rng.choice(RELS)
    lt = rng.random() < 0.5 if lt is None else lt
    bm = bm or rng.choice(BMS[:-1] if rng.random() < 0.93 else BMS)
    ptype = rng.choice(["dict", "dict", "PUBO", "PCBO"])
    items = rawify(rng, template(rng, t, nv), t, nv, ptype)
    vals = [value_at(items, x) for x in itertools.product((0, 1), repeat=nv)]
    tmin, tmax = min(vals), max(vals)
    lo = hi = None
    if bm == "exact":
        lo, hi = tmin, tmax
    elif bm == "loose":
        lo, hi = tmin - rng.randint(0, 3), tmax + rng.randint(0, 3)
    elif bm == "left":
        lo = tmin - rng.choice([0, 0, 1, 2])
    elif bm == "right":
        hi = tmax + rng.choice([0, 0, 1, 2])
    elif bm == "frac":
        lo, hi = tmin - rng.choice([Fraction(1, 2), Fraction(1, 3), Fraction(5, 4)]), \
                 tmax + rng.choice([Fraction(3, 2), Fraction(1, 2), Fraction(2, 3)])
    elif bm == "invalid":
        lo, hi = rng.choice([(tmin + 1, tmax), (tmin, tmax - 1), (tmin + 1, tmax + 1), (tmax, tmin), (tmin + 2, None),
                             (None, tmax - 2)])
    lam = rng.choice(["1", "2", "1/2", "3"]) if rng.random() < 0.97 else "0"
    integer = all(Fraction(v).denominator == 1 for _, v in items)
    return dict(rel=rel, P=items, ptype=ptype, t=t, lam=lam, lt=bool(lt), bm=bm,
                lo=None if lo is None else fs(lo), hi=None if hi is None else fs(hi),
                sup=rng.random() < 0.15,
                oracle=bool(integer and bm != "invalid" and lam != "0"))

def dyadic(s):
    d = Fraction(s).denominator
    return d & (d - 1) == 0

def gen_case(rng, family, first=None):
    nv = rng.randint(1, 4) if first is None or first[0] != "and" else rng.randint(3, 4)
    seq = [gen_step(rng, nv, *first) if first else gen_step(rng, nv)]
    for _ in range(rng.choice([0, 0, 1, 1, 2, 3])):
        seq.append(gen_step(rng, nv))
    num = rng.choice(["int", "frac", "float"])
    if num == "float" and not all(dyadic(v) for s in seq for v in
                                  [x[1] for x in s["P"]] + [s["lam"]] + [b for b in (s["lo"], s["hi"]) if b is not None]):
        num = "frac"
    return dict(family=family, n=nv, num=num, seq=seq, xl=gen_pool(rng))

# ------------------------------------------------------------------ implementation side

def num_of(s, style):
    f = Fraction(s)
    if style == "float":
        return float(f)
    if f.denominator == 1 and style != "frac":
        return int(f)
    return f

def cons_canon(H, L):
    return {r: [canon_terms(p, L) for p in ps] for r, ps in H.constraints.items()}

def call(H, step, L, num, sup):
    import qubovert as qv
    d = {}
    for k, v in step["P"]:
        d[L.key(k)] = num_of(v, num)
    if step["ptype"] == "PUBO":
        d = qv.PUBO(d)
    elif step["ptype"] == "PCBO":
        d = qv.PCBO(d)
    kw = dict(lam=num_of(step["lam"], num), suppress_warnings=sup)
    if step["lo"] is not None or step["hi"] is not None:
        kw["bounds"] = (None if step["lo"] is None else num_of(step["lo"], num),
                        None if step["hi"] is None else num_of(step["hi"], num))
    elif step["bm"] == "nonenone":
        kw["bounds"] = (None, None)
    if step["rel"] != "eq":
        kw["log_trick"] = step["lt"]
    with warnings.catch_warnings(record=True) as w:
        warnings.simplefilter("always")
        r = getattr(H, "add_constraint_%s_zero" % step["rel"])(d, **kw)
    ws = ["unsat" if "cannot" in str(x.message) else "always" if "always" in str(x.message) else "other:" + str(x.message)
          for x in w]
    return r, ws

def run_impl(case, style):
    """the real code; returns the state after every step, the validity table, and (per step) whether the
    library warns 'cannot be satisfied' when warnings are not suppressed"""
    import qubovert as qv
    L = labels_for(case, style)
    H = qv.PCBO()
    steps, warns, would = [], [], []
    try:
        for st in case["seq"]:
            if st["sup"]:
                Hc = qv.PCBO(H)                      # copies terms, constraints and the ancilla counter
                _, ws2 = call(Hc, st, L, case["num"], False)
                would.append("unsat" in ws2)
            r, ws = call(H, st, L, case["num"], st["sup"])
            if r is not H:
                return {"err": "add_constraint did not return self"}, None
            if st["sup"]:
                if ws:
                    return {"err": "warning despite suppress_warnings"}, None
            else:
                would.append("unsat" in ws)
            warns = warns + ws
            steps.append(dict(terms=canon_terms(H, L), anc=H.num_ancillas, cons=cons_canon(H, L), warns=list(warns)))
        n = case["n"]
        valid = [bool(H.is_solution_valid({L.lab(i): b for i, b in enumerate(bits)}))
                 for bits in itertools.product((0, 1), repeat=n)]
    except Exception as e:
        return {"err": exc_name(e) + ": " + str(e)[:80]}, None
    return dict(steps=steps, valid=valid), would

def model_line(case):
    return {"op": "cons", "trace": True, "n": case["n"],
            "seq": [dict(rel=s["rel"], P=s["P"], raw=True, lam=s["lam"], lt=s["lt"], lo=s["lo"], hi=s["hi"], sup=s["sup"])
                    for s in case["seq"]]}

def model_view(m):
    if "driver_error" in m:
        return {"err": "driver: " + m["driver_error"]}
    steps = []
    for s in m["steps"]:
        cons = {}
        for r, p in s["cons"]:
            cons.setdefault(r, []).append(p)
        steps.append(dict(terms=s["terms"], anc=s["anc"], cons=cons, warns=s["warns"]))
    return dict(steps=steps, valid=m["valid"])

# ------------------------------------------------------------------ direct oracle (shares nothing with the Lean model)

def table(terms, order):
    """values of a polynomial {key tuple: Fraction} at all assignments of the labels in `order`
    (assignment number j gives label order[i] the bit (j >> i) & 1); returns (numpy int array, common denominator)"""
    import numpy as np
    pos = {l: i for i, l in enumerate(order)}
    den = 1
    for v in terms.values():
        den = den * v.denominator // __import__("math").gcd(den, v.denominator)
    idx = np.arange(1 << len(order), dtype=np.int64)
    # extreme magnitudes (lam = 10^18 + 1, 1/2^60 next to 1/10^18 ...): exact Python integers in an object array
    big = any(abs(int(v * den)) > (1 << 40) for v in terms.values())
    tot = np.zeros(1 << len(order), dtype=object if big else np.int64)
    for k, v in terms.items():
        mask = 0
        for l in k:
            mask |= 1 << pos[l]
        c = int(v * den)
        if big:
            sel = (idx & mask) == mask
            tot[sel] = tot[sel] + c
        else:
            tot += c * ((idx & mask) == mask)
    return tot, den

def oracle(case, impl, would):
    if "err" in impl:
        return "unexpected exception/contract breach: " + impl["err"]
    n = case["n"]
    prev_terms, prev_anc = {}, 0
    skipped = 0
    for i, (st, snap) in enumerate(zip(case["seq"], impl["steps"])):
        terms = {tuple(k): Fraction(v) for k, v in snap["terms"]}
        F = {}
        for k in set(terms) | set(prev_terms):
            d = terms.get(k, 0) - prev_terms.get(k, 0)
            if d:
                F[k] = d
        anc = snap["anc"]
        if anc < prev_anc:
            return "step %d: ancilla counter decreased" % i
        A = [ANC + k for k in range(prev_anc, anc)]
        pvars = sorted({l for k, _ in st["P"] for l in k})
        fvars = {l for k in F for l in k}
        used_anc = {l for l in fvars if l >= ANC}
        old_vars = {l for k in prev_terms for l in k}
        if used_anc & old_vars:
            return "step %d: ancilla %s of this constraint already occurs in the model (not fresh)" % (
                i, sorted(used_anc & old_vars))
        if not used_anc <= set(A):
            return "step %d: ancilla labels %s outside the counter range %s" % (i, sorted(used_anc), A)
        if not (fvars - used_anc) <= set(pvars):
            return "step %d: added terms mention variables %s not in P" % (i, sorted(fvars - used_anc - set(pvars)))
        if st["oracle"]:
            if n + len(A) > 12:
                skipped += 1
            else:
                import numpy as np
                order = list(range(n)) + A
                tab, den = table(F, order)
                lam = Fraction(st["lam"])
                tab = tab.reshape((1 << len(A), 1 << n))       # rows: ancilla assignment, columns: x
                if (tab < 0).any():
                    j = int(np.argwhere(tab < 0)[0][1]); a = int(np.argwhere(tab < 0)[0][0])
                    return "step %d (%s): F < 0 at x=%s ancillas=%s: F=%s" % (
                        i, st["rel"], [(j >> b) & 1 for b in range(n)], [(a >> b) & 1 for b in range(len(A))],
                        Fraction(int(tab[a][j]), den))
                if not would[i]:
                    mins = tab.min(axis=0)
                    for j in range(1 << n):
                        x = [(j >> b) & 1 for b in range(n)]
                        pv = value_at(st["P"], x)
                        mn = Fraction(int(mins[j]), den)
                        if holds(st["rel"], pv):
                            if mn != 0:
                                return "step %d: P(x)=%s satisfies %s 0 at x=%s but min over ancillas of F is %s (not 0)" % (
                                    i, pv, st["rel"], x, mn)
                        elif mn < lam:
                            return "step %d: P(x)=%s violates %s 0 at x=%s but min over ancillas of F is %s < lam=%s" % (
                                i, pv, st["rel"], x, mn, lam)
        elif st["lam"] == "0" and F:
            return "step %d: lam=0 but terms were added" % i
        prev_terms, prev_anc = terms, anc
    # is_solution_valid <=> every recorded constraint holds
    for j, bits in enumerate(itertools.product((0, 1), repeat=n)):
        want = all(holds(st["rel"], value_at(st["P"], bits)) for st in case["seq"])
        if impl["valid"][j] != want:
            return "is_solution_valid(%s) = %s but the recorded constraints %s" % (
                list(bits), impl["valid"][j], "all hold" if want else "do not all hold")
    # recorded constraints are exactly the inputs, per relation in order
    want = {}
    for st in case["seq"]:
        d = {}
        for k, v in st["P"]:
            kk = tuple(sorted(set(k)))
            d[kk] = d.get(kk, 0) + Fraction(v)
        want.setdefault(st["rel"], []).append(sorted([[list(k), fs(v)] for k, v in d.items() if v], key=lambda t: (t[0], t[1])))
    if impl["steps"][-1]["cons"] != want:
        return "recorded constraints %s differ from the inputs %s" % (impl["steps"][-1]["cons"], want)
    return ("skipped", skipped) if skipped else None

# ------------------------------------------------------------------ driver of the check

def process(ctx, cases, tags=None):
    models = common.run_driver([model_line(c) for c in cases])
    for c, m in zip(cases, models):
        mv = model_view(m)
        first = None
        for style in styles_of(c):
            impl, would = run_impl(c, style)
            ctx.traces += 1
            if impl != mv:
                ctx.diff(c["family"] + ":" + style, c, impl, mv)
            if first is None:
                first = (impl, would)
            elif impl != first[0]:
                # the same abstract case under other labels behaves differently: judge that realisation with the truth-table
                # oracle as well (it reads the canonical ids only), and name the concrete labels
                bad = oracle(c, impl, would)
                labs = "labels %s = %r" % (style, [labels_for(c, style).lab(i) for i in range(c["n"])])
                if bad and not isinstance(bad, tuple):
                    ctx.violation("C02:" + c["seq"][0]["rel"], c, "[%s] %s" % (labs, bad))
                else:
                    ctx.violation("C02:labels", c, "label realisation %s gives a different abstract result than %s (%s)" % (
                        style, STYLES3[0], labs))
        impl, would = first
        adds = "err" not in impl and len(impl["steps"][0]["terms"]) >= 1
        ctx.case(c, len(c["seq"][0]["P"]) >= 2 and adds)
        if "driver_error" not in m:
            for t in m["tags"]:
                ctx.count("tag:" + t)
                if tags is not None:
                    tags[t] = tags.get(t, 0) + 1
        ctx.count("len:%d" % len(c["seq"]))
        for s in c["seq"]:
            ctx.count("rel:" + s["rel"]); ctx.count("bounds:" + s["bm"]); ctx.count("template:" + s["t"])
        bad = oracle(c, impl, would)
        if isinstance(bad, tuple):
            ctx.count("oracle-skipped-steps", bad[1]); bad = None
        if bad:
            ctx.violation("C02:" + c["seq"][0]["rel"], c, bad)

def grid_cases(rng, reps):
    out = []
    for _ in range(reps):
        for t in TEMPLATES:
            for rel in RELS:
                for lt in (True, False):
                    for bm in BMS:
                        out.append(gen_case(rng, "grid", (t, rel, lt, bm)))
    return out

SPECIAL = ["xley", "or", "and", "sum1"]

def special_cases(rng, reps):
    """the ancilla-free special forms (x <= y, 1 <= x + y, z == x*y, sum <= 1) reached through every relation, alone or
    followed by one more constraint, with a pool realisation that contains a bool label among the first three ids"""
    out = []
    for _ in range(reps):
        for t in SPECIAL:
            for rel in RELS:
                for lt in (True, False):
                    c = gen_case(rng, "special", (t, rel, lt, rng.choice(["none", "none", "nonenone", "exact", "left", "right"])))
                    c["seq"] = c["seq"][:2]
                    c["xl"] = gen_pool(rng, need_bool=True)
                    out.append(c)
    return out

MAG_LAMS = ["1/1000000000000000000", "3/1180591620717411303424", "1/1152921504606846976", "1/36028797018963968",
            "7/10000000000000000", "1152921504606846976", "3541774862152233910272", "1000000000000000001"]
MAG_COEF = ["1152921504606846976", "1000000000000000001", "1/1152921504606846976", "1/1000000000000000000"]

def float_exact_small(s):
    f = Fraction(s)
    m = abs(f.numerator)
    while m and m % 2 == 0:
        m //= 2
    return f.denominator & (f.denominator - 1) == 0 and m < 2 ** 20

def mag_cases(rng, reps):
    """extreme-magnitude weights (1/10^18 .. 3*2^70: exact Fractions / ints; one dyadic weight per case also as floats) for
    every template x relation, and `== 0` constraints whose coefficients and bounds are scaled by 2^60, 10^18+1, 2^-60, 1/10^18"""
    out, idx = [], 0
    for _ in range(reps):
        for t in TEMPLATES:
            for rel in RELS:
                bm = BMS[idx % (len(BMS) - 1)]
                c = gen_case(rng, "mag", (t, rel, bool(idx % 2), bm))
                same = rng.random() < 0.5
                lam0 = MAG_LAMS[idx % len(MAG_LAMS)]
                for st in c["seq"]:
                    st["lam"] = lam0 if same else rng.choice(MAG_LAMS + ["1", "2"])
                    integer = all(Fraction(v).denominator == 1 for _, v in st["P"])
                    st["oracle"] = bool(integer and st["bm"] != "invalid")
                c["num"] = "frac"
                if same and float_exact_small(lam0) and idx % 3 == 0 and all(
                        dyadic(v) for s in c["seq"] for v in [x[1] for x in s["P"]] + [b for b in (s["lo"], s["hi"]) if b is not None]):
                    c["num"] = "float"
                out.append(c)
                idx += 1
        for t in TEMPLATES:
            for cf in MAG_COEF:
                c = gen_case(rng, "mag", (t, "eq", True, BMS[idx % (len(BMS) - 1)]))
                c["seq"] = c["seq"][:1]
                st = c["seq"][0]
                f = Fraction(cf)
                st["P"] = [[k, fs(Fraction(v) * f)] for k, v in st["P"]]
                st["lo"] = None if st["lo"] is None else fs(Fraction(st["lo"]) * f)
                st["hi"] = None if st["hi"] is None else fs(Fraction(st["hi"]) * f)
                st["lam"] = rng.choice(["1", "2", "1/2"] + MAG_LAMS)
                st["oracle"] = bool(all(Fraction(v).denominator == 1 for _, v in st["P"]) and st["bm"] != "invalid")
                c["num"] = "frac"
                out.append(c)
                idx += 1
    return out

def check(ctx):
    rng = ctx.rng
    cases = grid_cases(rng, ctx.scale(2, 12))
    cases += special_cases(rng, ctx.scale(4, 40))
    cases += [gen_case(rng, "rand") for _ in range(ctx.scale(400, 12000))]
    cases += mag_cases(rng, ctx.scale(2, 20))          # generated last: the earlier streams are unchanged
    tags = {}
    process(ctx, cases, tags)
    low = {t: tags.get(t, 0) for t in ALL_TAGS if tags.get(t, 0) < MIN_TAG_HITS}
    unknown = sorted(set(tags) - set(ALL_TAGS))
    if low or unknown:
        raise Infra("coverage self-check failed: branch tags hit fewer than %d times: %s; unknown tags: %s"
                    % (MIN_TAG_HITS, low, unknown))
    if ctx.diffs and not ctx.violations:
        search(ctx)

def search(ctx):
    """failing-input search after a correspondence difference: the direct oracle on every single step of the
    disagreeing sequences (as one-constraint cases, every label style) and on a fresh larger batch"""
    extra = []
    for d in ctx.diffs[:60]:
        c = d["case"]
        for s in c["seq"]:
            extra.append(dict(c, seq=[s]))
            extra.append(dict(c, seq=[dict(s, sup=False, ptype="PUBO")], num="int"))
    extra += [gen_case(ctx.rng, "search") for _ in range(3000)]
    for c in extra:
        for style in styles_of(c):
            impl, would = run_impl(c, style)
            bad = oracle(c, impl, would)
            if bad and not isinstance(bad, tuple):
                ctx.violation("C02:" + c["seq"][0]["rel"], c, "[labels %s] %s" % (style, bad))

def replay(ctx, payload):
    c = payload.get("case") or (payload.get("first_difference") or {}).get("case")
    if not c:
        ctx.notes.append("replay file has no case; re-running the full check")
        return check(ctx)
    process(ctx, [c])
