"""Shared machinery of the correspondence checks (trusted glue, DESIGN.md §7).

staging of the current /repo working tree, the Lean driver, the Lean proof/axiom audit,
canonicalisation, evidence, replays, known findings.
"""
import atexit, fcntl, hashlib, json, os, random, re, shutil, subprocess, sys, sysconfig, time
from fractions import Fraction

ROOT = os.path.dirname(os.path.dirname(os.path.abspath(__file__)))
LEAN = os.path.join(ROOT, "lean")
REPO = os.environ.get("VERIF_REPO", "/repo")
DRIVER = os.path.join(LEAN, ".lake", "build", "bin", "driver")
ALLOWED_AXIOMS = {"propext", "Classical.choice", "Quot.sound"}
FORBIDDEN = re.compile(r"\bsorry\b|\badmit\b|^\s*axiom\s|native_decide|bv_decide|implemented_by|\bunsafe\s|maxHeartbeats\s+0\b")

class Infra(Exception):
    """infrastructure failure: exit 2, never 1"""

# ----------------------------------------------------------------------------- staging

_stage_dir = None

def _cleanup():
    if _stage_dir and os.path.isdir(_stage_dir):
        shutil.rmtree(_stage_dir, ignore_errors=True)

def _c_sources(pkg):
    sim = os.path.join(pkg, "sim")
    return [os.path.join(sim, "_canneal.c")] + sorted(
        os.path.join(sim, "src", f) for f in os.listdir(os.path.join(sim, "src")) if f.endswith(".c"))

def build_ext(pkg, sanitize=False):
    """compile qubovert.sim._canneal from the staged C sources"""
    ext = sysconfig.get_config_var("EXT_SUFFIX")
    out = os.path.join(pkg, "sim", "_canneal" + ext)
    inc = sysconfig.get_paths()["include"]
    cc = next((c for c in ("/usr/bin/clang", "/usr/bin/gcc", "/usr/bin/cc") if os.path.exists(c)), None)
    if not cc:
        raise Infra("no C compiler")
    cmd = [cc, "-shared", "-fPIC", "-O1" if sanitize else "-O2", "-g", "-I" + inc,
           "-I" + os.path.join(pkg, "sim", "src")]
    if sanitize:
        cmd += ["-fsanitize=address,undefined", "-fno-omit-frame-pointer"]
    else:
        # the plain build is the extension as `setup.py build_ext` produces it: CPython's CFLAGS carry -DNDEBUG (without it
        # a failed assert() of CPython's inline accessors aborts the in-process check instead of letting it report)
        cmd += ["-DNDEBUG"]
    cmd += _c_sources(pkg) + ["-o", out, "-lm"]
    r = subprocess.run(cmd, capture_output=True, text=True)
    if r.returncode != 0:
        # a change that does not compile is not a property violation
        raise Infra("C extension does not compile:\n" + r.stderr[-2000:])
    return out

def stage(cext="copy"):
    """shadow copy of /repo/qubovert (current working tree) outside /repo and /verif.
    cext: 'copy' (reuse the built .so if its sources are unchanged, else rebuild), 'plain', 'asan'."""
    global _stage_dir
    base = os.environ.get("VERIF_SCRATCH", "/var/tmp")
    _stage_dir = os.path.join(base, "qv-verif.%d" % os.getpid())
    shutil.rmtree(_stage_dir, ignore_errors=True)
    os.makedirs(_stage_dir)
    atexit.register(_cleanup)
    pkg = os.path.join(_stage_dir, "qubovert")
    shutil.copytree(os.path.join(REPO, "qubovert"), pkg,
                    ignore=shutil.ignore_patterns("__pycache__", "*.pyc", "*.so", "*.o"))
    build_ext(pkg, sanitize=(cext == "asan"))
    sys.path.insert(0, _stage_dir)
    for m in [m for m in sys.modules if m == "qubovert" or m.startswith("qubovert.")]:
        del sys.modules[m]
    import qubovert  # noqa
    if not os.path.abspath(qubovert.__file__).startswith(_stage_dir):
        raise Infra("staged copy is not the one imported: " + qubovert.__file__)
    return _stage_dir

# ----------------------------------------------------------------------------- Lean side

def _lake_lock():
    f = open(os.path.join(LEAN, ".lake.lock.verif"), "w")
    fcntl.flock(f, fcntl.LOCK_EX)
    return f

def lean_build(targets):
    lock = _lake_lock()
    try:
        r = subprocess.run(["lake", "build"] + targets, cwd=LEAN, capture_output=True, text=True)
    finally:
        lock.close()
    return r.returncode == 0, (r.stdout + r.stderr)

def strip_comments(src):
    # remove /- ... -/ (nested) and -- line comments
    out, i, depth = [], 0, 0
    while i < len(src):
        if src.startswith("/-", i):
            depth += 1; i += 2; continue
        if depth and src.startswith("-/", i):
            depth -= 1; i += 2; continue
        if depth:
            if src[i] == "\n": out.append("\n")
            i += 1; continue
        if src.startswith("--", i):
            while i < len(src) and src[i] != "\n": i += 1
            continue
        out.append(src[i]); i += 1
    return "".join(out)

def lean_sources():
    res = []
    for d, _, fs in os.walk(os.path.join(LEAN, "Qv")):
        for f in fs:
            if f.endswith(".lean"):
                res.append(os.path.join(d, f))
    res.append(os.path.join(LEAN, "Driver.lean"))
    return sorted(res)

def lean_audit(prop):
    """build the property's theorem file, grep for forbidden constructs, print the axioms of every
    theorem in Qv/Props/<prop>.lean.  Returns dict(ok, obligations, discharged, theorems, problems)."""
    problems = []
    props_file = os.path.join(LEAN, "Qv", "Props", prop + ".lean")
    if not os.path.exists(props_file):
        return dict(ok=False, obligations=0, discharged=0, theorems=[], problems=["no Props file"])
    ok, log = lean_build(["Qv.Props." + prop, "driver", "Qv.TieAudit"])     # Qv.TieAudit: harness/tie_audit.py
    if not ok:
        problems.append("lake build failed: " + log[-1500:])
        return dict(ok=False, obligations=0, discharged=0, theorems=[], problems=problems)
    for f in lean_sources():
        src = strip_comments(open(f).read())
        for ln, line in enumerate(src.splitlines(), 1):
            if FORBIDDEN.search(line):
                problems.append("forbidden construct in %s:%d: %s" % (os.path.relpath(f, LEAN), ln, line.strip()))
    src = strip_comments(open(props_file).read())
    ns = re.search(r"^namespace\s+(\S+)", src, re.M)
    ns = ns.group(1) + "." if ns else ""
    names = [ns + m.group(1) for m in re.finditer(r"^\s*theorem\s+([A-Za-z0-9_.']+)", src, re.M)]
    if not names:
        problems.append("no theorem in Props file")
    audit = "import Qv.Props.%s\n" % prop + "".join("#print axioms %s\n" % n for n in names)
    tmp = os.path.join(LEAN, ".lake", "audit_%s_%d.lean" % (prop, os.getpid()))
    open(tmp, "w").write(audit)
    try:
        r = subprocess.run(["lake", "env", "lean", tmp], cwd=LEAN, capture_output=True, text=True)
    finally:
        os.unlink(tmp)
    out = r.stdout + r.stderr
    theorems, discharged = [], 0
    for n in names:
        m = re.search(r"'%s' depends on axioms: \[([^\]]*)\]" % re.escape(n), out)
        m0 = re.search(r"'%s' does not depend on any axioms" % re.escape(n), out)
        if m0:
            axs = []
        elif m:
            axs = [a.strip() for a in m.group(1).replace("\n", " ").split(",") if a.strip()]
        else:
            problems.append("no axiom report for " + n); theorems.append(dict(name=n, axioms=None)); continue
        bad = [a for a in axs if a not in ALLOWED_AXIOMS]
        if bad:
            problems.append("theorem %s depends on %s" % (n, bad))
        else:
            discharged += 1
        theorems.append(dict(name=n, axioms=axs))
    if r.returncode != 0:
        problems.append("audit failed: " + out[-800:])
    return dict(ok=not problems, obligations=len(names), discharged=discharged, theorems=theorems,
                problems=problems)

def leanchecker(modules):
    r = subprocess.run(["lake", "env", "leanchecker"] + modules, cwd=LEAN, capture_output=True, text=True)
    return r.returncode == 0, (r.stdout + r.stderr)[-1500:]

OPS_USED = {}      # driver operation -> number of lines sent in this process (harness/tie_audit.py)


def run_driver(lines):
    """feed JSON objects to the Lean driver, one per line; returns the parsed outputs"""
    if not lines:
        return []
    for l in lines:
        op = l.get("op") if isinstance(l, dict) else None
        OPS_USED[op] = OPS_USED.get(op, 0) + 1
    if not os.path.exists(DRIVER):
        ok, log = lean_build(["driver"])
        if not ok:
            raise Infra("driver does not build: " + log[-1500:])
    inp = "\n".join(json.dumps(l, separators=(",", ":")) for l in lines) + "\n"
    r = subprocess.run([DRIVER], input=inp, capture_output=True, text=True)
    outs = r.stdout.splitlines()
    if r.returncode != 0 or len(outs) != len(lines):
        raise Infra("driver failed (rc=%s, %d/%d lines): %s" % (r.returncode, len(outs), len(lines), r.stderr[-500:]))
    return [json.loads(o) for o in outs]

# ----------------------------------------------------------------------------- canonicalisation

def fs(v):
    """exact rational string num/den of an int / Fraction / (dyadic) float / numpy number"""
    if isinstance(v, bool):
        v = int(v)
    if hasattr(v, "item") and not isinstance(v, (int, float, Fraction)):
        v = v.item()
    try:
        import sympy
        if isinstance(v, sympy.Basic):
            if v.is_Rational:
                v = Fraction(int(v.p), int(v.q))
            elif v.is_Float:
                v = float(v)
    except ImportError:
        pass
    f = Fraction(v)
    return str(f.numerator) if f.denominator == 1 else "%d/%d" % (f.numerator, f.denominator)

def exc_name(e):
    for t in (KeyError, ValueError, TypeError, IndexError, ZeroDivisionError, AttributeError):
        if isinstance(e, t):
            return t.__name__
    return "other"

class Labels:
    """order-preserving realisation of abstract ids as concrete Python labels (DESIGN.md §3.1)"""
    STYLES = ("int", "str", "tuple", "mixed")
    STYLES_NUM = STYLES + ("num",)      # opt-in: label sets whose native order differs from ordering_key's
    STYLES_X = STYLES + ("num", "numstr", "boolstr")   # opt-in: plus float/int/str mixes and bool labels
    STYLES_XEQ = STYLES_X + ("xeq",)    # opt-in: plus labels equal across types (order-insensitive harnesses only)

    def __init__(self, style, n=64):
        self.style = style
        if style == "int":
            self.l = list(range(n))
        elif style == "str":
            self.l = ["v%03d" % i for i in range(n)]
        elif style == "tuple":
            self.l = [("t", i) for i in range(n)]
        elif style == "num":
            # mixed numeric types: ordering_key sorts by str(type) first ("<class 'float'>" < "<class 'int'>"), while the
            # native "<" interleaves them (0 < 0.5 < 1 < 1.5 ...): ids 0..3 are floats, ids 4.. are ints
            self.l = [i + 0.5 for i in range(4)] + list(range(n - 4))
        elif style == "numstr":
            # floats, ints and strings in one model: ordering_key order is float < int < str; among the numbers the native
            # order interleaves, and a key that also holds a string cannot be sorted natively at all
            self.l = [i + 0.5 for i in range(3)] + list(range(3)) + ["s%03d" % i for i in range(6, n)]
        elif style == "boolstr":
            # bool labels (hash/compare equal to 0 and 1, but are not ints for isinstance(x, bool) dispatch) next to strings;
            # ordering_key: "<class 'bool'>" < "<class 'str'>"
            self.l = [False, True] + ["s%03d" % i for i in range(2, n)]
        elif style == "xeq":
            # labels that compare (and hash) equal across types: id i is spelled i, float(i) or bool(i) from one occurrence
            # to the next.  They are ONE variable for dict lookups, `variables`, `mapping` and evaluation, but
            # ordering_key sorts a key by type name first, so one monomial can have several "canonical" spellings.
            self.l = list(range(n))
        else:  # ordering_key sorts by str(type): int < str < tuple
            self.l = [i for i in range(3)] + ["s%03d" % i for i in range(3, 6)] + [("t", i) for i in range(6, n)]
        self.inv = {x: i for i, x in enumerate(self.l)}
        self._occ = 0

    def lab(self, i):
        if self.style == "xeq":
            self._occ += 1
            r = (self._occ * 7 + i * 3) % 4
            if r == 1:
                return float(i)
            if r == 2 and i in (0, 1):
                return bool(i)
        return self.l[i]

    def key(self, ids):
        return tuple(self.lab(i) for i in ids)

    def ident(self, x):
        if isinstance(x, str) and x.startswith("__a"):
            return ANC + int(x[3:])
        return self.inv[x]

    def ids(self, key):
        return [self.ident(x) for x in key]

ANC = 1 << 20

def canon_terms(d, labels):
    """canonical terms of a dict-like: sorted list of [sorted ids, 'num/den']; keys mapped through labels"""
    out = []
    for k, v in d.items():
        ids = labels.ids(k) if isinstance(k, tuple) else [labels.ident(k)]
        out.append([sorted(ids), fs(v)])
    if getattr(labels, "style", None) == "xeq":
        # several stored spellings of one monomial (see Labels "xeq"): compare the represented polynomial
        acc = {}
        for ids, v in out:
            acc[tuple(ids)] = acc.get(tuple(ids), Fraction(0)) + Fraction(v)
        out = [[list(k), fs(v)] for k, v in acc.items() if v != 0]
    out.sort(key=lambda t: (t[0], t[1]))
    return out

def keys_are_canonical(d):
    """direct check on the implementation's own keys: sorted by ordering_key, duplicate-free, nonzero values"""
    # the documented rule ("sort by type first, and then by object"), re-stated here so that the oracle does not depend on
    # the implementation's own ordering_key (a stale / memoised one would agree with itself)
    ordering_key = lambda x: (str(type(x)), x)
    for k, v in d.items():
        if not isinstance(k, tuple):
            return "non-tuple key %r" % (k,)
        if list(k) != sorted(set(k), key=ordering_key):
            return "key %r not sorted/duplicate-free" % (k,)
        if v == 0:
            return "zero coefficient at %r" % (k,)
    return None

def snapshot(o, ordered=True):
    """deep, type-sensitive snapshot for unchanged-operand checks.  ordered=True also records the insertion
    order of dicts; ordered=False compares dicts the way Python's == does (order-insensitive)."""
    if isinstance(o, dict):
        extra = []
        for a in ("_mapping", "_reverse_mapping", "_constraints", "_ancilla", "_degree", "_variables",
                  "_num_binary_variables", "_name"):
            if hasattr(o, a):
                extra.append((a, snapshot(getattr(o, a), ordered)))
        items = tuple((snapshot(k, ordered), snapshot(v, ordered)) for k, v in o.items())
        if not ordered:
            items = tuple(sorted(items, key=repr))
        return (type(o).__name__, items, tuple(extra))
    if isinstance(o, (list, tuple)):
        return (type(o).__name__, tuple(snapshot(x, ordered) for x in o))
    if isinstance(o, (set, frozenset)):
        return (type(o).__name__, tuple(sorted((snapshot(x, ordered) for x in o), key=repr)))
    return (type(o).__name__, repr(o))

# ----------------------------------------------------------------------------- bookkeeping of a run

class Ctx:
    def __init__(self, prop, tier, seed):
        self.prop, self.tier, self.seed = prop, tier, seed
        self.rng = random.Random((seed * 1000003 + int(hashlib.sha256(prop.encode()).hexdigest()[:8], 16)) & 0xFFFFFFFF)
        self.t0 = time.time()
        self.evaluations = 0
        self.distinct = set()
        self.samples = []
        self.hist = {}
        self.diffs = []        # correspondence differences: dict(family, case, impl, model)
        self.violations = []   # direct oracle failures: dict(signature, case, why)
        self.traces = 0
        self.notes = []
        self.exhaustive = False

    def scale(self, quick, thorough=None):
        if self.tier == "thorough":
            return thorough if thorough is not None else quick * 10
        return quick

    def count(self, tag, n=1):
        self.hist[tag] = self.hist.get(tag, 0) + n

    def case(self, case, nontrivial):
        self.evaluations += 1
        if nontrivial:
            self.distinct.add(hashlib.sha1(json.dumps(case, sort_keys=True, default=str).encode()).hexdigest())
        if len(self.samples) < 4 or (len(self.samples) < 8 and self.rng.random() < 0.01):
            self.samples.append(case)

    def diff(self, family, case, impl, model):
        self.diffs.append(dict(family=family, case=case, impl=impl, model=model))

    def violation(self, signature, case, why):
        self.violations.append(dict(signature=signature, case=case, why=why))

# ----------------------------------------------------------------------------- known findings

def load_known():
    p = os.path.join(ROOT, "known_findings.json")
    if not os.path.exists(p):
        return []
    return json.load(open(p)).get("findings", [])

def write_replay(prop, payload):
    os.makedirs(os.path.join(ROOT, "replays"), exist_ok=True)
    h = hashlib.sha1(json.dumps(payload, sort_keys=True, default=str).encode()).hexdigest()[:12]
    path = os.path.join(ROOT, "replays", "%s-%s.json" % (prop, h))
    json.dump(payload, open(path, "w"), indent=1, default=str)
    return os.path.relpath(path, ROOT)

def write_evidence(prop, tier, seed, ctx, audit, level, rule, violations, assumptions, extra=None):
    cov = dict(
        obligations=audit["obligations"], discharged=audit["discharged"],
        checker_cmd="cd lean && lake build Qv.Props.%s && lake env lean <audit file with #print axioms for each theorem>" % prop,
        trusted_base=["Lean 4.33.0 kernel", "axioms: propext, Classical.choice, Quot.sound (no others; no native_decide, bv_decide, sorry)",
                      "hand-written model Qv/Model tied to /repo by the correspondence check harness/%s.py (differential testing)" % prop.lower(),
                      "Python harness, Lean JSON driver, direct oracles"],
        theorems=audit["theorems"],
        evaluations=ctx.evaluations, distinct_nontrivial=len(ctx.distinct), rule=rule,
        samples=ctx.samples[:8], traces_validated_against_impl=ctx.traces,
        histogram=dict(sorted(ctx.hist.items())), correspondence_differences=len(ctx.diffs),
        exhaustive=ctx.exhaustive, notes=ctx.notes)
    if extra:
        cov.update(extra)
    ev = dict(property_id=prop, tier=tier, seed=seed, level=level, coverage=cov,
              assumptions=assumptions, wall_s=round(time.time() - ctx.t0, 2), violations=violations)
    # VERIF_EVIDENCE_DIR: only the seeded / neutral tooling sets it (runs against a patched copy must not overwrite the
    # evidence of the real tree); every registered command writes /verif/evidence/<id>.json
    evdir = os.environ.get("VERIF_EVIDENCE_DIR") or os.path.join(ROOT, "evidence")
    os.makedirs(evdir, exist_ok=True)
    json.dump(ev, open(os.path.join(evdir, prop + ".json"), "w"), indent=1, default=str)
