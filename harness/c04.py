"""C04 — boolean/spin conversions, enumerations and exports preserve the function (correspondence + oracle).

Families:
  conv    pubo_to_puso / puso_to_pubo / qubo_to_quso / quso_to_qubo on all ten model types and raw dicts
  meth    to_qubo / to_quso / to_pubo / to_puso / to_enumerated of the six labelled types (no degree reduction)
  sol     convert_solution with dict / list / tuple x boolean / spin x flag (+ malformed stream); 35% of the solutions spell
          their entries 0 / 1 / -1 as bool, numpy int64 / int8 / bool_ / float32, Fraction, Decimal, sympy Integer or a mix
          (what boolean_to_spin / spin_to_boolean accept inside a container: they look each entry up by value)
  isspin  is_solution_spin
  export  Q, h, J, matrix_to_qubo, qubo_to_matrix (+ round trips) on dyadic values; the matrices / QUBO coefficients of
          matrix_to_qubo and qubo_to_matrix in ten number types (int, float, Fraction, Python bool, numpy bool_, int64,
          int32, float64, float32, mixed object lists) x five shapes (full, symmetric, upper, lower, diagonal) x three
          containers (list, tuple, numpy array of the matching dtype), ragged / non-square / empty -> ValueError
  hist    one labelled object under a history of item edits (incl. cancellations), clear(), `*= dict`,
          set_mapping / set_reverse_mapping with a permutation, refresh(), copy(), interleaved with to_*,
          to_enumerated, the free functions and convert_solution; after every conversion the correspondence
          (model fed the terms / mapping / num_binary_variables the object has at that moment) and the round-trip
          oracle M.value(M.convert_solution(s)) == E.value(s) on all s, labels of E within 0..n-1
Models are built from raw items (unsorted, repeated labels, zero / cancelling coefficients) and then
refresh()ed, or from an already canonical dict; stale bookkeeping (DESIGN §10 D1) is C14's business.
"""
import itertools, json
from fractions import Fraction
from . import common
from .common import Labels, fs, exc_name, canon_terms

CEXT = "plain"
RULE = ("sources: the ten model types and raw dicts (unsorted keys, repeated labels, zero/cancelling "
        "coefficients), n<=5 labels, degree<=4, int / Fraction / dyadic-float coefficients, four label "
        "realisations; every free conversion function, every to_* method of the labelled types whenever no "
        "degree reduction is needed, convert_solution over containers/forms/flags, exports and matrix round "
        "trips; a case is non-trivial when the source has >=2 terms and a key with >=2 distinct labels (conv, "
        "meth), >=2 variables (sol), or >=2 non-zero entries (export); matrix_to_qubo / qubo_to_matrix with int, float, "
        "Fraction, Python-bool, numpy bool_/int64/int32/float64/float32 and mixed-object entries, matrices full / symmetric / "
        "upper / lower / diagonal, as list, tuple or numpy array of that dtype; plus histories on one object (edits, "
        "cancellations, clear, *= dict, set_mapping/set_reverse_mapping permutations, refresh, copy) interleaved with "
        "conversions and convert_solution round trips, non-trivial when >=3 steps on a non-empty model; "
        "distinct = distinct case JSON")
ASSUMPTIONS = ["float coefficients are restricted to dyadic rationals so IEEE arithmetic is exact",
               "the mapping / reverse_mapping / num_binary_variables the model reads are taken from the real object at "
               "the moment of the call (single-call families: constructed or refreshed objects; hist family: after an "
               "arbitrary history on the object); that they are consistent is checked by the round-trip oracle"]

BOOL_KINDS = ["QUBO", "PUBO", "PCBO", "QUBOMatrix", "PUBOMatrix"]
SPIN_KINDS = ["QUSO", "PUSO", "PCSO", "QUSOMatrix", "PUSOMatrix"]
DEG2 = {"QUBO", "QUSO", "QUBOMatrix", "QUSOMatrix"}
MATRIX = {"QUBOMatrix", "QUSOMatrix", "PUBOMatrix", "PUSOMatrix"}
LABELLED_BOOL = ["QUBO", "PUBO", "PCBO"]
LABELLED_SPIN = ["QUSO", "PUSO", "PCSO"]
DOC_TYPE = {"to_qubo": "QUBOMatrix", "to_quso": "QUSOMatrix", "to_pubo": "PUBOMatrix", "to_puso": "PUSOMatrix"}
ENUM_METH = {"QUBO": "to_qubo", "QUSO": "to_quso", "PUBO": "to_pubo", "PCBO": "to_pubo",
             "PUSO": "to_puso", "PCSO": "to_puso"}


def cls_of(name):
    import qubovert as qv
    from qubovert import utils
    return getattr(qv, name, None) or getattr(utils, name)


def is_spin_kind(k):
    return k in SPIN_KINDS


# ------------------------------------------------------------------ generation

def gen_coef(rng, dyadic=False):
    r = rng.random()
    if r < 0.55:
        return str(rng.choice([-3, -2, -1, 1, 2, 3, 4]))
    if r < 0.8 or dyadic:
        return rng.choice(["1/2", "-1/2", "3/2", "-3/4", "5/8", "1/4", "0" if r > 0.97 else "7/2"])
    return rng.choice(["1/3", "-2/3", "5/7", "0", "7/5"])


def squashed(key, spin):
    if spin:
        return sorted(i for i in set(key) if key.count(i) % 2)
    return sorted(set(key))


def gen_key(rng, n, maxdistinct, maxlen=4):
    """a raw key: unsorted, possibly with repeated labels, with at most `maxdistinct` distinct labels"""
    nd = min(rng.choice([0, 1, 1, 2, 2, 2, 3, 3, 4]), maxdistinct, n)
    base = rng.sample(range(n), nd)
    key = list(base)
    while base and len(key) < maxlen and rng.random() < 0.3:
        key.append(rng.choice(base))
    rng.shuffle(key)
    return key


def gen_terms(rng, n, maxdistinct, dyadic=False, spin=False, strict=False):
    """raw terms with pairwise distinct raw keys.  `strict`: the *squashed* key has at most `maxdistinct`
    labels also in the spin reading (repeats may cancel, never add)"""
    out, seen = [], set()
    for _ in range(rng.randint(0 if rng.random() < 0.08 else 1, 6)):
        k = gen_key(rng, n, maxdistinct)
        if tuple(k) in seen:
            continue
        seen.add(tuple(k))
        out.append([k, gen_coef(rng, dyadic)])
    if out and rng.random() < 0.15:
        # a cancelling pair: the same squashed key twice with opposite coefficients
        k, v = out[0]
        k2 = list(reversed(k))
        if tuple(k2) not in seen:
            out.append([k2, fs(-Fraction(v))])
    return out


def canonical_terms(p, spin, deg2):
    """is the raw term list already in stored form (sorted duplicate-free keys, distinct, non-zero)?"""
    seen = set()
    for k, v in p:
        if k != sorted(set(k)) or tuple(k) in seen or Fraction(v) == 0 or (deg2 and len(k) > 2):
            return False
        seen.add(tuple(k))
    return True


def all_dyadic(p):
    return all((Fraction(v).denominator & (Fraction(v).denominator - 1)) == 0 for _, v in p)


def num_of(s, style):
    f = Fraction(s)
    if style == "float" and (f.denominator & (f.denominator - 1)) == 0:
        return float(f)
    if f.denominator == 1 and style != "frac":
        return int(f)
    return f


def pick_num(rng, p):
    num = rng.choice(["int", "frac", "float"])
    if num == "float" and not all_dyadic(p):
        num = "frac"
    return num


def make_exact(rng, p, path):
    """pubo_to_puso multiplies by the floats -1/2, 1/2 (`-value / 2` on the int 1), qubo_to_quso divides ints by 2
    and 4 (floats) and Fractions exactly: on those paths use dyadic coefficients, or (qubo_to_quso only) Fractions
    throughout, so that no rounding happens (DESIGN §3.2).  Returns (terms, number style)."""
    if path is None or all_dyadic(p):
        return p, pick_num(rng, p)
    if path == "quad" and rng.random() < 0.6:
        return p, "frac"
    return [[k, gen_coef(rng, True) if not all_dyadic([[k, v]]) else v] for k, v in p], rng.choice(["int", "frac", "float"])


def build(kind, p, L, num):
    items = [(L.key(k), num_of(v, num)) for k, v in p]
    if kind == "dict":
        return dict(items)
    return cls_of(kind)(items)


def true_degree(p, spin):
    """degree of the stored model: longest squashed key among the non-cancelling ones"""
    acc = {}
    for k, v in p:
        sk = tuple(squashed(k, spin))
        acc[sk] = acc.get(sk, 0) + Fraction(v)
    return max([len(k) for k, v in acc.items() if v != 0], default=0)


# ------------------------------------------------------------------ direct evaluation (independent of qubovert and of Lean)

def raw_value(p, x):
    """value of raw terms at assignment x (id -> Fraction); a repeated label multiplies twice"""
    tot = Fraction(0)
    for key, v in p:
        m = Fraction(v)
        for i in key:
            m *= x[i]
        tot += m
    return tot


def obj_value(items, x):
    """value of a dict-like {tuple of labels: coefficient} at x (label -> Fraction), computed here"""
    tot = Fraction(0)
    for key, v in items:
        m = Fraction(v if not hasattr(v, "item") else v.item())
        for i in key:
            m *= x[i]
        tot += m
    return tot


def assignments(n):
    return itertools.product((0, 1), repeat=n)


# ------------------------------------------------------------------ family conv

FREE = {"pubo_to_puso": ("bool", False), "puso_to_pubo": ("spin", False),
        "qubo_to_quso": ("bool", True), "quso_to_qubo": ("spin", True)}
# Result-type rule, written from the property text and from nothing else: "matrix type in gives matrix type
# out, anything else gives the labelled type" — for each of the four free functions and every source type.
MATRIX_OUT = {"pubo_to_puso": "PUSOMatrix", "puso_to_pubo": "PUBOMatrix",
              "qubo_to_quso": "QUSOMatrix", "quso_to_qubo": "QUBOMatrix"}
LABELLED_OUT = {"pubo_to_puso": "PUSO", "puso_to_pubo": "PUBO", "qubo_to_quso": "QUSO", "quso_to_qubo": "QUBO"}
MATRIX_TYPES = ("QUBOMatrix", "QUSOMatrix", "PUBOMatrix", "PUSOMatrix")


def type_rule(f, kind):
    return MATRIX_OUT[f] if kind in MATRIX_TYPES else LABELLED_OUT[f]


def conv_case(rng, malformed=False):
    f = rng.choice(sorted(FREE))
    fam, quad = FREE[f]
    spin = fam == "spin"
    kinds = ["dict", "dict"] + (SPIN_KINDS if spin else BOOL_KINDS)
    kind = rng.choice(kinds)
    n = rng.randint(1, 5)
    if malformed:
        # too many labels for a quadratic function or a degree-2 type
        if not quad and kind not in DEG2:
            kind = rng.choice([k for k in kinds if k in DEG2])
        maxd = 4
    else:
        maxd = 2 if (quad or kind in DEG2) else 4
    p = gen_terms(rng, n, maxd)
    if malformed and p:
        p[rng.randrange(len(p))][0] = rng.sample(range(5), 3)
        n = 5
    labels = "int" if kind in MATRIX else rng.choice(Labels.STYLES_X)
    p, num = make_exact(rng, p, {"pubo_to_puso": "poly", "qubo_to_quso": "quad"}.get(f))
    return {"family": "conv", "f": f, "kind": kind, "n": n, "p": p, "labels": labels, "num": num}


def conv_line(c):
    return {"op": "c04conv", "f": c["f"], "kind": c["kind"], "p": c["p"]}


def conv_impl(c):
    from qubovert import utils
    L = Labels(c["labels"])
    try:
        src = build(c["kind"], c["p"], L, c["num"])
        r = getattr(utils, c["f"])(src)
    except Exception as e:
        return {"err": exc_name(e)}, None
    return {"type": type(r).__name__, "terms": canon_terms(r, L)}, r


def conv_oracle(c, canon, r):
    fam, quad = FREE[c["f"]]
    spin_src = fam == "spin"
    if "err" in canon:
        toolong = any(len(squashed(k, spin_src)) > 2 for k, _ in c["p"])
        if canon["err"] == "KeyError" and toolong and (quad or c["kind"] in DEG2):
            return None
        return "unexpected exception %s" % canon["err"]
    found = []
    want = type_rule(c["f"], c["kind"])
    if canon["type"] != want:
        # its own narrow signature (function, source type), so that a recorded finding about one pair never hides
        # another pair; the value clause is still checked below
        found.append(("C04:type-rule:%s:%s" % (c["f"], c["kind"]),
                      "%s(%s) returned a %s; the rule 'matrix type in gives matrix type out, anything else gives "
                      "the labelled type' gives %s" % (c["f"], c["kind"], canon["type"], want)))
    bad = common.keys_are_canonical(r)
    if bad:
        return found + [("C04:conv", "result not canonical: " + bad)]
    L = Labels(c["labels"])
    for bits in assignments(c["n"]):
        # boolean 0 <-> spin 1, boolean 1 <-> spin -1
        xs = {i: Fraction((1 - 2 * b) if spin_src else b) for i, b in enumerate(bits)}
        tgt = {L.lab(i): (b if spin_src else (1 - 2 * b)) for i, b in enumerate(bits)}
        want = raw_value(c["p"], xs)
        got = Fraction(r.value(tgt))
        got2 = obj_value(r.items(), {k: Fraction(v) for k, v in tgt.items()})
        if got != want or got2 != want:
            return found + [("C04:conv", "value mismatch at source bits %s: source %s, target %s (value()) / %s (terms)" % (
                bits, want, got, got2))]
    return found


# ------------------------------------------------------------------ family meth

def meth_case(rng, malformed=False):
    spin = rng.random() < 0.5
    kind = rng.choice(LABELLED_SPIN if spin else LABELLED_BOOL)
    meth = rng.choice(["to_qubo", "to_quso", "to_pubo", "to_puso", "to_enumerated"])
    n = rng.randint(1, 5)
    target = ENUM_METH[kind] if meth == "to_enumerated" else meth
    quad_target = target in ("to_qubo", "to_quso")
    maxd = 2 if (kind in DEG2 or quad_target) else 4
    p = gen_terms(rng, n, maxd)
    deg = None
    if kind not in DEG2 and meth in ("to_pubo", "to_puso") and rng.random() < 0.5:
        d = true_degree(p, spin)
        deg = max(2, d) + rng.choice([0, 0, 1, 3])
        if malformed:
            deg = rng.choice([0, 1, -1])
    if malformed and deg is None:
        kind = rng.choice(sorted(MATRIX))   # Matrix types have no to_* methods
        spin = is_spin_kind(kind)
        p = gen_terms(rng, n, 2)
    labels = "int" if kind in MATRIX else rng.choice(Labels.STYLES_X)
    path = None
    if not spin:
        path = {"to_puso": "poly", "to_quso": "quad"}.get(target)
    p, num = make_exact(rng, p, path)
    canonical = canonical_terms(p, spin, kind in DEG2)
    refresh = True if not canonical else rng.random() < 0.5
    c = {"family": "meth", "kind": kind, "meth": meth, "deg": deg, "n": n, "p": p, "labels": labels,
         "num": num, "refresh": refresh}
    if kind not in DEG2 and kind not in MATRIX and target in ("to_qubo", "to_quso") and rng.random() < 0.3:
        c["lam"] = rng.choice([1, 3])
    return c


def meth_build(c):
    L = Labels(c["labels"])
    M = build(c["kind"], c["p"], L, c["num"])
    if c.get("refresh"):
        M.refresh()
    return L, M


def meth_call(c, M):
    f = getattr(M, c["meth"])
    if c["deg"] is not None:
        return f(c["deg"])
    if "lam" in c:
        return f(lam=c["lam"])
    return f()


def meth_prepare(c):
    """build the object (needed for the mapping the model reads); returns (model line, state)"""
    try:
        L, M = meth_build(c)
    except Exception as e:
        return {"op": "ping"}, ("builderr", exc_name(e))
    mp = getattr(M, "mapping", {})
    line = {"op": "c04meth", "kind": c["kind"], "p": c["p"], "meth": c["meth"],
            "mapping": [[L.ident(k), v] for k, v in mp.items()]}
    if c["deg"] is not None:
        line["deg"] = c["deg"]
    return line, ("ok", L, M)


def meth_impl(c, st):
    if st[0] == "builderr":
        return {"err": st[1]}, None
    _, L, M = st
    try:
        r = meth_call(c, M)
    except Exception as e:
        return {"err": exc_name(e)}, None
    return {"type": type(r).__name__, "terms": canon_terms(r, Labels("int"))}, r


def meth_oracle(c, canon, r, st):
    if st[0] == "builderr":
        return "constructor raised %s" % st[1]
    _, L, M = st
    spin_src = is_spin_kind(c["kind"])
    if "err" in canon:
        if c["kind"] in MATRIX and canon["err"] == "AttributeError":
            return None
        if canon["err"] == "ValueError" and c["deg"] is not None and c["deg"] < 2:
            return None
        return "unexpected exception %s" % canon["err"]
    target = ENUM_METH[c["kind"]] if c["meth"] == "to_enumerated" else c["meth"]
    if canon["type"] != DOC_TYPE[target]:
        return "result type %s, documented %s" % (canon["type"], DOC_TYPE[target])
    bad = common.keys_are_canonical(r)
    if bad:
        return "result not canonical: " + bad
    mp = M.mapping
    labs = sorted({i for k, v in c["p"] for i in k if True})
    # labels that actually occur in the stored model
    stored = sorted({L.ident(x) for k in M for x in k})
    nv = M.num_binary_variables
    if sorted(L.ident(k) for k in mp) != stored or sorted(mp.values()) != list(range(nv)):
        return "refreshed model's mapping %r is not a bijection of its labels onto 0..%d" % (mp, nv - 1)
    spin_tgt = target in ("to_quso", "to_puso")
    size = max([nv] + [i + 1 for k in r for i in k])
    for bits in assignments(c["n"]):
        xs = {i: Fraction((1 - 2 * b) if spin_src else b) for i, b in enumerate(bits)}
        want = raw_value(c["p"], xs)
        s = [1 if spin_tgt else 0] * size
        for lab, idx in mp.items():
            b = bits[L.ident(lab)]
            s[idx] = (1 - 2 * b) if spin_tgt else b
        got = Fraction(r.value(s))
        got2 = obj_value(r.items(), {i: Fraction(v) for i, v in enumerate(s)})
        if got != want or got2 != want:
            return "value mismatch at source bits %s: source %s, %s gives %s (value()) / %s (terms) at %s" % (
                bits, want, c["meth"], got, got2, s)
    return None


# ------------------------------------------------------------------ family sol

def sol_case(rng, malformed=False):
    spin = rng.random() < 0.5
    kind = rng.choice(LABELLED_SPIN if spin else LABELLED_BOOL)
    n = rng.randint(1, 5)
    p = gen_terms(rng, n, 2 if kind in DEG2 else 4)
    canonical = canonical_terms(p, spin, kind in DEG2)
    refresh = True if not canonical else rng.random() < 0.5
    extra = rng.choice([0, 0, 0, 1, 2])
    length = n + extra
    form = rng.choice(["bool", "spin"])
    r = rng.random()
    if r < 0.15:
        bits = [0] * length      # all boolean 0 / spin 1
    elif r < 0.25:
        bits = [1] * length
    else:
        bits = [rng.randint(0, 1) for _ in range(length)]
    vals = [b if form == "bool" else 1 - 2 * b for b in bits]
    flag = rng.choice([None, True, False])
    container = rng.choice(["dict", "list", "tuple"])
    c = {"family": "sol", "kind": kind, "n": n, "p": p, "labels": rng.choice(Labels.STYLES_X), "num": "int",
         "refresh": refresh, "form": form, "vals": vals, "flag": flag, "container": container,
         "valtype": rng.choice(["int", "int", "float"]) if all_dyadic(p) else "int"}
    if rng.random() < 0.35:
        # the number type the entries of the solution are spelled in: convert_solution hands the container to
        # boolean_to_spin / spin_to_boolean, which look every entry up by value (==, hash) — measured on /repo: every
        # hashable number equal to 0 / 1 / -1 is accepted inside a dict, list or tuple
        c["valtype"] = rng.choice(SOL_VALTYPES)
    if container == "dict":
        order = list(range(length)); rng.shuffle(order)
        c["order"] = order
    if malformed:
        m = rng.choice(["short", "mixed", "two", "lie"])
        if m == "short" and length > 0:
            cut = rng.randrange(length)
            c["vals"] = vals[:cut]
            if container == "dict":
                c["order"] = [i for i in c["order"] if i < cut]
        elif m == "mixed" and length > 0:
            c["vals"][rng.randrange(length)] = rng.choice([-1, 0])
        elif m == "two" and length > 0:
            c["vals"][rng.randrange(length)] = 2
        else:
            c["vals"] = [1] * length
            c["flag"] = rng.choice([True, False])
    return c


SOL_VALTYPES = ("bool", "npint64", "npint8", "npuint8", "npuint32", "npbool", "npfloat32", "Fraction", "Decimal", "sympy", "mixed")

def sol_entry(v, ty, pos=0):
    """the integer v as a number of type ty (bool types only spell 0 / 1; anything else stays as it is)"""
    if ty == "float":
        return float(v)
    if ty == "int" or v not in (0, 1, -1):
        return int(v)
    if ty == "mixed":
        ty = SOL_VALTYPES[(pos * 5 + v + 1) % (len(SOL_VALTYPES) - 1)]
    if ty == "bool":
        return bool(v) if v >= 0 else int(v)
    if ty == "Fraction":
        return Fraction(v)
    if ty == "Decimal":
        import decimal
        return decimal.Decimal(v)
    if ty == "sympy":
        import sympy
        return sympy.Integer(v)
    import numpy as np
    if ty == "npbool":
        return np.bool_(v) if v >= 0 else np.int64(v)
    if ty in ("npuint8", "npuint32"):
        # unsigned fixed-width entries (np.unpackbits, uint8 sample arrays): only 0 / 1 can be spelled; -1 stays a signed int
        return {"npuint8": np.uint8, "npuint32": np.uint32}[ty](v) if v >= 0 else np.int64(v)
    return {"npint64": np.int64, "npint8": np.int8, "npfloat32": np.float32}[ty](v)


def sol_container(c):
    vals = [sol_entry(v, c["valtype"], i) for i, v in enumerate(c["vals"])]
    if c["container"] == "dict":
        return {i: vals[i] for i in c["order"]}
    return vals if c["container"] == "list" else tuple(vals)


def sol_prepare(c):
    try:
        L, M = meth_build(c)
    except Exception as e:
        return {"op": "ping"}, ("builderr", exc_name(e))
    s = sol_container(c)
    items = list(s.items()) if isinstance(s, dict) else list(enumerate(s))
    spin_model = is_spin_kind(c["kind"])
    flag = c["flag"] if c["flag"] is not None else spin_model
    line = {"op": "c04sol", "spin_model": spin_model,
            "rev": [[i, L.ident(l)] for i, l in M.reverse_mapping.items()],
            "n": M.num_binary_variables, "sol": [[i, fs(v)] for i, v in items],
            "is_dict": isinstance(s, dict), "flag": bool(flag)}
    return line, ("ok", L, M, s)


def sol_impl(c, st):
    if st[0] == "builderr":
        return {"err": st[1]}, None
    _, L, M, s = st
    try:
        if c["flag"] is None:
            r = M.convert_solution(s)
        elif c.get("n", 0) % 2:
            r = M.convert_solution(s, c["flag"])
        else:
            r = M.convert_solution(s, spin=c["flag"])
    except Exception as e:
        return {"err": exc_name(e)}, None
    return {"assign": sorted([L.ident(k), fs(v)] for k, v in r.items())}, r


def sol_wellformed(c, nv):
    """inside the documented contract: values all boolean or all spin, long enough, and the flag tells the
    truth whenever the values are all 1"""
    vals = c["vals"]
    if len(vals) < nv:
        return False
    spin_model = is_spin_kind(c["kind"])
    flag = c["flag"] if c["flag"] is not None else spin_model
    if all(v in (0, 1) for v in vals) and any(v == 0 for v in vals):
        return True
    if all(v in (1, -1) for v in vals) and any(v == -1 for v in vals):
        return True
    if all(v == 1 for v in vals):
        return (c["form"] == "spin") == bool(flag)
    return False


def sol_oracle(c, canon, r, st):
    if st[0] == "builderr":
        return "constructor raised %s" % st[1]
    _, L, M, s = st
    nv = M.num_binary_variables
    if not sol_wellformed(c, nv):
        return None
    if "err" in canon:
        return "unexpected exception %s" % canon["err"]
    stored = {x for k in M for x in k}
    if set(r) != stored:
        return "converted solution has labels %r, model has %r" % (sorted(map(str, r)), sorted(map(str, stored)))
    spin_model = is_spin_kind(c["kind"])
    # s in the enumerated model's own form
    form = "bool" if 0 in c["vals"] else "spin" if -1 in c["vals"] else c["form"]
    bits = [(v if form == "bool" else (1 - v) // 2) for v in c["vals"]]
    own = [Fraction((1 - 2 * b) if spin_model else b) for b in bits]
    E = M.to_enumerated()
    want = obj_value(E.items(), dict(enumerate(own)))
    # (entries that came through unconverted keep the caller's number type; the clause is about the assignment, so the
    # evaluation reads them by value — Decimal x Fraction arithmetic inside `value` is not what convert_solution promises)
    got = Fraction(fs(M.value({k: (int(v) if v == int(v) else v) for k, v in r.items()})))
    if got != want:
        return "M.value(M.convert_solution(s)) = %s but the enumerated model gives %s at s = %s" % (got, want, own)
    return None


# ------------------------------------------------------------------ family isspin

def isspin_case(rng):
    vals = [rng.choice([0, 1, 1, 1, -1, 2]) for _ in range(rng.randint(0, 5))]
    return {"family": "isspin", "vals": vals, "dflt": rng.choice([None, True, False]),
            "container": rng.choice(["dict", "list", "tuple"])}


def isspin_impl(c):
    from qubovert.utils import is_solution_spin
    s = c["vals"]
    s = dict(enumerate(s)) if c["container"] == "dict" else (tuple(s) if c["container"] == "tuple" else list(s))
    r = is_solution_spin(s) if c["dflt"] is None else is_solution_spin(s, c["dflt"])
    return {"spin": bool(r)}


def isspin_oracle(c, canon):
    dec = [v for v in c["vals"] if v in (0, -1)]
    want = (dec[0] == -1) if dec else bool(c["dflt"])
    return None if canon["spin"] == want else "is_solution_spin(%s, %s) = %s" % (c["vals"], c["dflt"], canon["spin"])


# ------------------------------------------------------------------ family export

def export_case(rng, malformed=False):
    what = rng.choice(["Q", "h", "J", "m2q", "m2q", "q2m", "q2m", "q2m"])
    if what in ("Q", "h", "J"):
        kind = rng.choice(["QUBO", "QUBOMatrix"] if what == "Q" else ["QUSO", "QUSOMatrix"])
        n = rng.randint(1, 5)
        p = gen_terms(rng, n, 2, dyadic=True)
        return {"family": "export", "what": what, "kind": kind, "n": n, "p": p,
                "labels": "int" if kind in MATRIX else rng.choice(Labels.STYLES_X), "num": pick_num(rng, p)}
    if what == "m2q":
        return m2q_case(rng, malformed)
    n = rng.randint(1, 5)
    p = gen_terms(rng, n, 2, dyadic=True)
    if not malformed:
        p = [t for t in p if len(t[0]) > 0]          # no offset
    elif rng.random() < 0.5:
        p = [[[0, 0], "1"], [[0], "-1"]] if rng.random() < 0.5 else []
    num = rng.choice(Q2M_NUMS)
    p = q2m_values(rng, p, num)
    return {"family": "export", "what": "q2m", "n": n, "p": p, "kind": rng.choice(["dict", "QUBOMatrix"]),
            "refresh": rng.random() < 0.5, "symmetric": rng.random() < 0.5, "array": rng.random() < 0.5,
            "num": num}


# number types of matrix entries / QUBO coefficients.  Python bools and numpy bools are the numbers 0 / 1 (adjacency
# matrices); numpy integer / float scalars of two widths; Fractions (object arrays); `mixed` = int, float, Fraction and bool
# entries in one nested list.  Values stay small, so the fixed-width integer types never overflow.
M2Q_NUMS = ["int", "float", "frac", "bool", "npbool", "npint", "npint32", "npfloat", "npfloat32", "mixed"]
Q2M_NUMS = ["int", "float", "frac", "bool", "npbool", "npint", "npint32", "npfloat", "npfloat32"]
M2Q_SHAPES = ["full", "sym", "upper", "lower", "diag"]
NP_DTYPE = {"npbool": "bool_", "npint": "int64", "npint32": "int32", "npfloat": "float64", "npfloat32": "float32"}


def coef_for(rng, num):
    """a coefficient (exact rational string) the number type `num` represents exactly"""
    if num in ("bool", "npbool"):
        return "1" if rng.random() < 0.7 else "0"
    if num in ("npint", "npint32"):
        return str(rng.choice([-3, -2, -1, 1, 1, 2, 3, 4, 0]))
    if num == "frac":
        return gen_coef(rng, False)
    return gen_coef(rng, True)


def shape_rows(rows, shape):
    n = len(rows)
    for i in range(n):
        for j in range(n):
            if shape == "sym" and i > j:
                rows[i][j] = rows[j][i]
            elif (shape == "upper" and i > j) or (shape == "lower" and i < j) or (shape == "diag" and i != j):
                rows[i][j] = "0"
    return rows


def m2q_case(rng, malformed=False, num=None, shape=None, container=None, n=None):
    num = num or rng.choice(M2Q_NUMS)
    shape = shape or rng.choice(M2Q_SHAPES)
    n = n or rng.randint(1, 4)
    dense = 0.85 if num in ("bool", "npbool") else 0.7
    rows = shape_rows([[(coef_for(rng, num) if rng.random() < dense else "0") for _ in range(n)] for _ in range(n)], shape)
    if malformed:
        m = rng.choice(["empty", "emptyrow", "ragged", "nonsquare"])
        if m == "empty": rows = []
        elif m == "emptyrow": rows = [[]]
        elif m == "ragged": rows = rows + [rows[0][:-1]] if n > 1 else [["1", "1"], ["1"]]
        else: rows = rows[:-1] if n > 1 else [["1", "1"]]
    ragged = len({len(r) for r in rows}) > 1
    conts = ["list", "tuple"] if ragged or not rows or not rows[0] else ["list", "tuple", "array"]
    if container not in conts:
        container = rng.choice(conts)
    return {"family": "export", "what": "m2q", "n": n, "rows": rows, "shape": shape, "container": container, "num": num}


def q2m_values(rng, p, num):
    """the coefficients of a q2m case re-drawn so that the number type `num` represents them exactly"""
    if num in ("int", "float"):
        return p
    if num == "frac":
        return [[k, v if rng.random() < 0.5 else gen_coef(rng, True)] for k, v in p]
    return [[k, coef_for(rng, num)] for k, v in p]


def entry_of(v, num, pos=0):
    """the Python / numpy object standing for the exact value `v` (a string) under the number type `num`"""
    import numpy as np
    f = Fraction(v)
    if num == "bool":
        return bool(f)
    if num in NP_DTYPE:
        t = getattr(np, NP_DTYPE[num])
        return t(bool(f)) if num == "npbool" else t(int(f)) if num.startswith("npint") else t(float(f))
    if num == "mixed":
        opts = [float(f), f]
        if f.denominator == 1:
            opts.append(int(f))
        if f in (0, 1):
            opts += [bool(f), bool(f)]
        return opts[pos % len(opts)]
    return num_of(v, num)


def m2q_input(c):
    import numpy as np
    rows = [[entry_of(v, c["num"], 3 * i + j) for j, v in enumerate(row)] for i, row in enumerate(c["rows"])]
    if c["container"] == "list":
        return rows
    if c["container"] == "tuple":
        return tuple(tuple(r) for r in rows)
    if c["num"] in NP_DTYPE:
        return np.array(rows, dtype=getattr(np, NP_DTYPE[c["num"]]))
    return np.array(rows)


def export_line(c):
    if c["what"] in ("Q", "h", "J"):
        return {"op": "c04export", "what": c["what"], "kind": c["kind"], "p": c["p"]}
    if c["what"] == "m2q":
        return {"op": "c04m2q", "rows": c["rows"]}
    p = c["p"]
    if c["kind"] != "dict" and c["refresh"]:
        # refresh() rebuilds the object from its stored terms: the constructor loop then runs on those
        p = [[list(k), fs(v)] for k, v in stored_terms(c["p"]).items()]
    return {"op": "c04q2m", "p": p, "is_obj": c["kind"] != "dict", "symmetric": c["symmetric"]}


def stored_terms(p):
    acc = {}
    for k, v in p:
        sk = tuple(sorted(set(k)))
        acc[sk] = acc.get(sk, 0) + Fraction(v)
    return {k: v for k, v in acc.items() if v != 0}


def export_terms(d, L, single=False):
    out = []
    for k, v in d.items():
        out.append([[L.ident(k)] if single else L.ids(k), fs(v)])
    out.sort(key=lambda t: (t[0], t[1]))
    return out


def export_impl(c):
    from qubovert import utils
    import numpy as np
    try:
        if c["what"] in ("Q", "h", "J"):
            L = Labels(c["labels"])
            M = build(c["kind"], c["p"], L, c["num"])
            r = getattr(M, c["what"])
            if type(r) is not dict:
                return {"err": "other"}, None
            return {"terms": export_terms(r, L, c["what"] == "h")}, (M, r)
        if c["what"] == "m2q":
            A = m2q_input(c)
            r = utils.matrix_to_qubo(A)
            back = None
            if len(r) and all_dyadic([[None, v] for row in c["rows"] for v in row]):
                # the round trip of the export clause: qubo_to_matrix(matrix_to_qubo(A)) is the same function as A
                back = [utils.qubo_to_matrix(r, symmetric=sym, array=arr) for sym, arr in ((True, True), (False, False))]
            return {"type": type(r).__name__, "terms": canon_terms(r, Labels("int"))}, (r, back)
        L = Labels("int")
        items = [(L.key(k), entry_of(v, c["num"])) for k, v in c["p"]]
        src = dict(items) if c["kind"] == "dict" else cls_of(c["kind"])(items)
        if c["kind"] != "dict" and c["refresh"]:
            src.refresh()
        r = utils.qubo_to_matrix(src, symmetric=c["symmetric"], array=c["array"])
        if c["array"] != isinstance(r, np.ndarray):
            return {"err": "other"}, None
        rows = [[fs(v) for v in row] for row in (r.tolist() if c["array"] else r)]
        back = utils.matrix_to_qubo(r)
        return {"matrix": rows, "back": {"type": type(back).__name__, "terms": canon_terms(back, L)}}, (r, back)
    except Exception as e:
        return {"err": exc_name(e)}, None


def export_oracle(c, canon, r):
    if c["what"] in ("Q", "h", "J"):
        if "err" in canon:
            toolong = any(len(squashed(k, c["what"] != "Q")) > 2 for k, _ in c["p"])
            return None if (canon["err"] == "KeyError" and toolong) else "unexpected exception %s" % canon["err"]
        M, d = r
        L = Labels(c["labels"])
        spin = c["what"] != "Q"
        if spin:
            hh, JJ = M.h, M.J
        for bits in assignments(c["n"]):
            xs = {i: Fraction((1 - 2 * b) if spin else b) for i, b in enumerate(bits)}
            xl = {L.lab(i): v for i, v in xs.items()}
            want = raw_value(c["p"], xs)
            if not spin:
                got = sum((Fraction(v) * xl[i] * xl[j] for (i, j), v in d.items()), Fraction(0)) + Fraction(M.offset)
            else:
                got = (sum((Fraction(v) * xl[i] for i, v in hh.items()), Fraction(0)) +
                       sum((Fraction(v) * xl[i] * xl[j] for (i, j), v in JJ.items()), Fraction(0)) + Fraction(M.offset))
            if got != want:
                return "export %s does not describe the model up to the offset at %s: %s vs %s" % (
                    c["what"], bits, got, want)
        return None
    if c["what"] == "m2q":
        rows = c["rows"]
        square = len(rows) > 0 and all(len(row) == len(rows) for row in rows)
        if "err" in canon:
            return None if (canon["err"] == "ValueError" and not square) else "unexpected exception %s" % canon["err"]
        if not square:
            return "matrix_to_qubo accepted a non-square input"
        if canon["type"] != "QUBOMatrix":
            return "matrix_to_qubo returned %s" % canon["type"]
        n = len(rows)
        r, back = r
        bad = common.keys_are_canonical(r)
        if bad:
            return "matrix_to_qubo: result not canonical: " + bad
        backs = [[[Fraction(fs(v)) for v in row] for row in (B.tolist() if hasattr(B, "tolist") else B)] for B in back or []]
        for B in backs:
            if len(B) > n or any(len(row) != len(B) for row in B):
                return "qubo_to_matrix(matrix_to_qubo(A)) has the wrong shape"
        for bits in assignments(n):
            want = sum((Fraction(rows[i][j]) * bits[i] * bits[j] for i in range(n) for j in range(n)), Fraction(0))
            got = Fraction(fs(r.value(list(bits))))
            got2 = obj_value(r.items(), dict(enumerate(map(Fraction, bits))))
            if got != want or got2 != want:
                return "matrix_to_qubo: x^T A x = %s but the QUBO gives %s (value()) / %s (terms) at %s" % (want, got, got2, bits)
            for B in backs:
                gotb = sum((B[i][j] * bits[i] * bits[j] for i in range(len(B)) for j in range(len(B))), Fraction(0))
                if gotb != want:
                    return "qubo_to_matrix(matrix_to_qubo(A)): x^T B x = %s but x^T A x = %s at %s" % (gotb, want, bits)
        return None
    # q2m
    stored = stored_terms(c["p"])
    if "err" in canon:
        toolong = any(len(set(k)) > 2 for k, _ in c["p"])
        if canon["err"] == "KeyError" and toolong:
            return None
        empty = (not c["p"]) if c["kind"] == "dict" else (not stored)
        if canon["err"] == "ValueError" and (empty or () in stored):
            return None
        if canon["err"] == "TypeError" and not stored:
            return None     # a dict that is non-empty but stores nothing: `None + 1`
        return "unexpected exception %s" % canon["err"]
    if () in stored or not c["p"]:
        return "qubo_to_matrix accepted an empty QUBO or one with a constant"
    A, back = r
    A = [[Fraction(fs(v)) for v in row] for row in (A.tolist() if hasattr(A, "tolist") else A)]
    m = len(A)
    if any(len(row) != m for row in A) or m <= max([i for k in stored for i in k], default=-1):
        return "matrix has the wrong shape"
    for i in range(m):
        for j in range(m):
            if c["symmetric"] and A[i][j] != A[j][i]:
                return "symmetric=True but matrix is not symmetric"
            if not c["symmetric"] and i > j and A[i][j] != 0:
                return "symmetric=False but matrix is not upper triangular"
    for bits in assignments(max(m, c["n"])):
        x = list(bits)
        want = raw_value(c["p"], dict(enumerate(map(Fraction, x))))
        got = sum((A[i][j] * x[i] * x[j] for i in range(m) for j in range(m)), Fraction(0))
        gotb = Fraction(fs(back.value(x)))
        if got != want or gotb != want:
            return "qubo_to_matrix: x^T A x = %s, round trip gives %s, QUBO gives %s at %s" % (got, gotb, want, x)
    return None


# ------------------------------------------------------------------ driver of the check

# ------------------------------------------------------------------ family hist
# One labelled object with a HISTORY: item edits (incl. cancellations), clear(), `*= dict`, set_mapping /
# set_reverse_mapping with a permutation, refresh(), copy(), interleaved with conversions and convert_solution.
# After every conversion: the correspondence (the Lean model is fed the terms, mapping, reverse_mapping and
# num_binary_variables the object has at that moment) and the oracle
#   M.value(M.convert_solution(s)) == E.value(s) on every assignment s of 0..n-1, labels of E within 0..n-1
#   and within the image of M's labels under M.mapping.

HIST_METHS = ["to_qubo", "to_quso", "to_pubo", "to_puso", "to_enumerated"]


def hist_edit(rng, n, maxd):
    r = rng.random()
    if r < 0.2:
        return {"op": "cancel", "j": rng.randrange(8)}
    key = gen_key(rng, n, maxd, maxlen=3)
    return {"op": "add" if r < 0.7 else "set", "key": key, "v": gen_coef(rng, True)}


def hist_conv(rng, kind, maxd):
    r = rng.random()
    if r < 0.7:
        meth = rng.choice(HIST_METHS)
        st = {"op": "to", "meth": meth}
        if kind not in DEG2 and meth in ("to_pubo", "to_puso") and rng.random() < 0.25:
            st["degplus"] = rng.choice([0, 1, 2])     # deg = max(2, current degree) + degplus
        return st
    if r < 0.85:
        spin = is_spin_kind(kind)
        fs_ = [f for f, (fam, quad) in sorted(FREE.items()) if (fam == "spin") == spin and (maxd <= 2 or not quad)]
        return {"op": "free", "f": rng.choice(fs_)}
    return {"op": "sol", "bits": [rng.randint(0, 1) for _ in range(8)], "form": rng.choice(["bool", "spin"]),
            "container": rng.choice(["dict", "list", "tuple"]), "flag": rng.choice([None, True, False])}


def hist_relabel(rng):
    return {"op": "relabel", "perm": [rng.randrange(100) for _ in range(6)], "reverse": rng.random() < 0.5}


def hist_case(rng, malformed=False):
    spin = rng.random() < 0.5
    kind = rng.choice(LABELLED_SPIN if spin else LABELLED_BOOL)
    n = rng.randint(2, 4)
    maxd = 2 if (kind in DEG2 or rng.random() < 0.5) else 3
    init = gen_terms(rng, n, maxd, dyadic=True)
    steps = []
    shape = rng.random()
    if shape < 0.3:
        # convert, relabel, convert again (no term change in between)
        cv = hist_conv(rng, kind, maxd)
        steps += [cv, hist_relabel(rng), dict(cv)]
        if rng.random() < 0.5:
            steps.append(hist_conv(rng, kind, maxd))
    elif shape < 0.6:
        # empty the object (clear / *= dict), rebuild with partly other labels, convert
        steps.append(hist_conv(rng, kind, maxd))
        if rng.random() < 0.6:
            steps.append({"op": "clear"})
        else:
            steps.append({"op": "imul", "d": [[[rng.randrange(n)] if rng.random() < 0.7 else [], gen_coef(rng, True)]]})
        for _ in range(rng.randint(1, 3)):
            steps.append(hist_edit(rng, n, maxd))
        steps += [hist_conv(rng, kind, maxd), hist_conv(rng, kind, maxd)]
    for _ in range(rng.randint(2, 7)):
        r = rng.random()
        if r < 0.4:
            steps.append(hist_conv(rng, kind, maxd))
        elif r < 0.7:
            steps.append(hist_edit(rng, n, maxd))
        elif r < 0.8:
            steps.append(hist_relabel(rng))
        elif r < 0.86:
            steps.append({"op": "clear"})
        elif r < 0.9:
            steps.append({"op": "imul", "d": [[[rng.randrange(n)] if rng.random() < 0.7 else [], gen_coef(rng, True)]]})
        elif r < 0.95:
            steps.append({"op": "refresh"})
        else:
            steps.append({"op": "copy"})
    if not any(st["op"] in ("to", "free", "sol") for st in steps[-2:]):
        steps.append(hist_conv(rng, kind, maxd))
    return {"family": "hist", "kind": kind, "n": n, "init": init, "steps": steps,
            "labels": rng.choice(Labels.STYLES_X), "num": rng.choice(["int", "frac", "float"])}


def hist_terms(M, L):
    """the object's terms, in dict order, as the model reads them"""
    return [[L.ids(k), fs(v)] for k, v in M.items()]


def hist_sol_container(vals, container, i=0):
    if container == "dict":
        order = list(range(len(vals)))
        order = order[i % (len(order) or 1):] + order[:i % (len(order) or 1)]
        return {j: vals[j] for j in order}
    return list(vals) if container == "list" else tuple(vals)


def hist_roundtrip(M, E, target, L):
    """M.value(M.convert_solution(s)) == E.value(s) on all assignments; labels of E"""
    nv = M.num_binary_variables
    mp = M.mapping
    stored = {x for k in M for x in k}
    elabs = {i for k in E for i in k}
    if not elabs <= set(range(nv)):
        return "%s uses the labels %s but num_binary_variables is %d (mapping %r)" % (target, sorted(elabs), nv, mp)
    if not stored <= set(mp) or not elabs <= {mp[l] for l in stored}:
        return "%s uses the labels %s, the model's labels are mapped to %s (mapping %r)" % (
            target, sorted(elabs), sorted(mp[l] for l in stored if l in mp), mp)
    spin_tgt = target in ("to_quso", "to_puso")
    for idx, bits in enumerate(assignments(nv)):
        vals = [(1 - 2 * b) if spin_tgt else b for b in bits]
        sol = hist_sol_container(vals, ("tuple", "list", "dict")[idx % 3], idx)
        ev = obj_value(E.items(), dict(enumerate(map(Fraction, vals))))
        r = M.convert_solution(sol, spin_tgt)
        if not stored <= set(r):
            return "convert_solution(%r) = %r misses labels of the model %r" % (sol, r, sorted(map(str, stored)))
        mv = obj_value(M.items(), {k: Fraction(v) for k, v in r.items()})
        mv2 = Fraction(M.value(r))
        ev2 = Fraction(E.value(sol))
        if not (ev == mv == mv2 == ev2):
            return "%s().value(s) = %s (%s by terms) but M.value(M.convert_solution(s)) = %s (%s by terms) at s = %r " \
                   "(mapping %r)" % (target, ev2, ev, mv2, mv, sol, mp)
    return None


def run_hist(c, want_lines=True):
    """execute the history on the real object.  Returns (records, findings): records = (line, impl canon, tag) for
    the driver; findings = (signature, why) from the direct oracle."""
    from qubovert import utils
    L = Labels(c["labels"])
    recs, found = [], []
    try:
        M = build(c["kind"], c["init"], L, c["num"])
    except Exception as e:
        return recs, [("C04:hist", "constructor raised %s: %s" % (type(e).__name__, e))]
    kind, spin_model = c["kind"], is_spin_kind(c["kind"])
    for i, st in enumerate(c["steps"]):
        op = st["op"]
        where = "step %d (%s)" % (i, json.dumps(st))
        try:
            if op in ("add", "set"):
                key, v = L.key(st["key"]), num_of(st["v"], c["num"])
                if kind in DEG2 and len(squashed(st["key"], spin_model)) > 2:
                    continue
                if op == "add":
                    M[key] += v
                else:
                    M[key] = v
            elif op == "cancel":
                ks = list(M)
                if ks:
                    k = ks[st["j"] % len(ks)]
                    M[k] -= M[k]
            elif op == "clear":
                M.clear()
            elif op == "imul":
                d = {L.key(k): num_of(v, c["num"]) for k, v in st["d"]}
                try:
                    M *= d
                except KeyError:
                    if kind not in DEG2:
                        raise
            elif op == "refresh":
                M.refresh()
            elif op == "copy":
                M = M.copy()
            elif op == "relabel":
                mp = M.mapping
                labs, vals = list(mp), list(mp.values())
                order = sorted(range(len(vals)), key=lambda t: (st["perm"][t % len(st["perm"])], t))
                new = {labs[t]: vals[order[t]] for t in range(len(labs))}
                if st["reverse"]:
                    M.set_reverse_mapping({v: k for k, v in new.items()})
                else:
                    M.set_mapping(new)
            elif op == "to":
                deg_now = max([len(k) for k in M], default=0)
                target = ENUM_METH[kind] if st["meth"] == "to_enumerated" else st["meth"]
                if kind not in DEG2 and target in ("to_qubo", "to_quso") and deg_now > 2:
                    continue          # degree reduction would be needed: property C01
                deg = max(2, deg_now) + st["degplus"] if "degplus" in st else None
                line = {"op": "c04meth", "kind": kind, "p": hist_terms(M, L), "meth": st["meth"],
                        "mapping": [[L.ident(k), v] for k, v in M.mapping.items()]}
                if deg is not None:
                    line["deg"] = deg
                E = getattr(M, st["meth"])(deg) if deg is not None else getattr(M, st["meth"])()
                recs.append((line, {"type": type(E).__name__, "terms": canon_terms(E, Labels("int"))},
                             "hist:%s:%s" % (kind, st["meth"])))
                if type(E).__name__ != DOC_TYPE[target]:
                    found.append(("C04:hist", "%s: result type %s, documented %s" % (where, type(E).__name__, DOC_TYPE[target])))
                bad = common.keys_are_canonical(E) or hist_roundtrip(M, E, target, L)
                if bad:
                    found.append(("C04:hist", "%s: %s" % (where, bad)))
            elif op == "free":
                f = st["f"]
                if FREE[f][1] and max([len(k) for k in M], default=0) > 2:
                    continue
                line = {"op": "c04conv", "f": f, "kind": kind, "p": hist_terms(M, L)}
                R = getattr(utils, f)(M)
                recs.append((line, {"type": type(R).__name__, "terms": canon_terms(R, L)}, "hist:%s:%s" % (kind, f)))
                if type(R).__name__ != type_rule(f, kind):
                    found.append(("C04:type-rule:%s:%s" % (f, kind), "%s: returned a %s" % (where, type(R).__name__)))
                labs = sorted({x for k in M for x in k} | {x for k in R for x in k}, key=L.ident)
                for bits in assignments(len(labs)):
                    src = {l: Fraction((1 - 2 * b) if spin_model else b) for l, b in zip(labs, bits)}
                    tgt = {l: Fraction(b if spin_model else (1 - 2 * b)) for l, b in zip(labs, bits)}
                    if obj_value(M.items(), src) != obj_value(R.items(), tgt):
                        found.append(("C04:hist", "%s: %s changes the value at %r" % (where, f, src)))
                        break
            elif op == "sol":
                nv = M.num_binary_variables
                bits = (st["bits"] * 2)[:nv + (st["bits"][0] if st["bits"] else 0)]
                vals = [b if st["form"] == "bool" else 1 - 2 * b for b in bits]
                sol = hist_sol_container(vals, st["container"], st["bits"][-1] if st["bits"] else 0)
                flag = st["flag"] if st["flag"] is not None else spin_model
                items = list(sol.items()) if isinstance(sol, dict) else list(enumerate(sol))
                line = {"op": "c04sol", "spin_model": spin_model,
                        "rev": [[j, L.ident(l)] for j, l in M.reverse_mapping.items()], "n": nv,
                        "sol": [[j, fs(v)] for j, v in items], "is_dict": isinstance(sol, dict), "flag": bool(flag)}
                try:
                    r = M.convert_solution(sol) if st["flag"] is None else M.convert_solution(sol, st["flag"])
                    canon = {"assign": sorted([L.ident(k), fs(v)] for k, v in r.items())}
                except (KeyError, IndexError) as e:
                    canon = {"err": exc_name(e)}
                recs.append((line, canon, "hist:%s:sol" % kind))
                allones = all(v == 1 for v in vals)
                if "err" in canon and not (allones and (st["form"] == "spin") != bool(flag)) and len(vals) >= nv:
                    found.append(("C04:hist", "%s: convert_solution raised %s" % (where, canon["err"])))
        except Exception as e:
            found.append(("C04:hist", "%s raised %s: %s" % (where, type(e).__name__, e)))
            break
    return recs, found


def shrink_hist(c, sig):
    """greedy removal of steps and initial terms while the direct oracle still reports `sig`"""
    def fails(d):
        try:
            return any(s_ == sig for s_, _ in run_hist(d)[1])
        except Exception:
            return False
    cur = c
    changed = True
    while changed:
        changed = False
        for field in ("steps", "init"):
            i = 0
            while i < len(cur[field]):
                d = dict(cur, **{field: cur[field][:i] + cur[field][i + 1:]})
                if fails(d):
                    cur, changed = d, True
                else:
                    i += 1
    return cur


def process_hist(ctx, cases):
    runs, lines = [], []
    for c in cases:
        recs, found = run_hist(c)
        runs.append((c, recs, found, len(lines)))
        lines += [r[0] for r in recs]
    models = common.run_driver(lines)
    for c, recs, found, off in runs:
        ctx.case(c, len(c["steps"]) >= 3 and len(c["init"]) >= 1)
        ctx.count("hist:histories")
        ctx.count("hist:steps", len(c["steps"]))
        for (line, canon, tag), m in zip(recs, models[off:off + len(recs)]):
            if "driver_error" in m:
                raise common.Infra("driver error %s on %s" % (m, json.dumps(line)[:300]))
            if m.get("noop") is False:
                ctx.count("skipped:reduction-needed")
                continue
            m = {k: v for k, v in m.items() if k != "noop"}
            ctx.count(tag + (":err:" + canon["err"] if "err" in canon else ""))
            ctx.traces += 1
            if canon != m:
                ctx.diff("hist", dict(c, at=line), canon, m)
        seen = set()
        for sig, why in found:
            if sig in seen:
                continue
            seen.add(sig)
            small = shrink_hist(c, sig)
            why2 = [w for s_, w in run_hist(small)[1] if s_ == sig]
            ctx.violation(sig, small, why2[0] if why2 else why)


def nontrivial(c):
    if c["family"] in ("conv", "meth"):
        return len(c["p"]) >= 2 and any(len(set(k)) >= 2 for k, _ in c["p"])
    if c["family"] == "sol":
        return c["n"] >= 2 and len(c["p"]) >= 1
    if c["family"] == "isspin":
        return len(c["vals"]) >= 2
    if c["what"] == "m2q":
        return sum(1 for row in c["rows"] for v in row if Fraction(v) != 0) >= 2
    return len(c["p"]) >= 2


def guarded(oracle, *args):
    """an oracle that cannot even interpret the implementation's result reports that as its finding"""
    try:
        return oracle(*args)
    except Exception as e:
        return "result cannot be interpreted by the oracle: %s: %s" % (type(e).__name__, e)


def process(ctx, cases):
    hist = [c for c in cases if c["family"] == "hist"]
    if hist:
        process_hist(ctx, hist)
        cases = [c for c in cases if c["family"] != "hist"]
    lines, states = [], []
    for c in cases:
        fam = c["family"]
        if fam == "conv":
            lines.append(conv_line(c)); states.append(None)
        elif fam == "meth":
            line, st = meth_prepare(c); lines.append(line); states.append(st)
        elif fam == "sol":
            line, st = sol_prepare(c); lines.append(line); states.append(st)
        elif fam == "isspin":
            lines.append({"op": "c04isspin", "vals": [str(v) for v in c["vals"]], "dflt": bool(c["dflt"])})
            states.append(None)
        else:
            lines.append(export_line(c)); states.append(None)
    models = common.run_driver(lines)
    for c, st, m in zip(cases, states, models):
        fam = c["family"]
        if "driver_error" in m:
            raise common.Infra("driver error %s on %s" % (m, json.dumps(c)[:300]))
        if fam == "conv":
            canon, r = conv_impl(c)
            bad = guarded(conv_oracle, c, canon, r)
            tag = "conv:%s:%s" % (c["f"], c["kind"])
        elif fam == "meth":
            canon, r = meth_impl(c, st)
            bad = guarded(meth_oracle, c, canon, r, st)
            tag = "meth:%s:%s" % (c["kind"], c["meth"])
            if st[0] == "ok" and m.get("noop") is False:
                ctx.count("skipped:reduction-needed")
                continue
            m = {k: v for k, v in m.items() if k != "noop"}
            if st[0] == "builderr":
                m = canon
        elif fam == "sol":
            canon, r = sol_impl(c, st)
            bad = guarded(sol_oracle, c, canon, r, st)
            tag = "sol:%s:%s:%s" % (c["container"], c["form"], c["flag"])
            if st[0] == "builderr":
                m = canon
        elif fam == "isspin":
            canon = isspin_impl(c)
            bad = guarded(isspin_oracle, c, canon)
            tag = "isspin"
        else:
            canon, r = export_impl(c)
            bad = guarded(export_oracle, c, canon, r)
            tag = "export:" + c["what"]
        ctx.case(c, nontrivial(c))
        ctx.count(tag + (":err:" + canon["err"] if "err" in canon else ""))
        ctx.traces += 1
        if canon != m:
            ctx.diff(fam, c, canon, m)
        if isinstance(bad, str):
            bad = [("C04:" + fam, bad)]
        for sig, why in bad or []:
            ctx.violation(sig, c, why)


GEN = {"conv": conv_case, "meth": meth_case, "sol": sol_case, "export": export_case}


def gen_cases(rng, k):
    cases = []
    for fam, share in (("conv", 0.3), ("meth", 0.35), ("sol", 0.17), ("export", 0.18)):
        g = GEN[fam]
        for _ in range(int(k * share)):
            cases.append(g(rng, malformed=rng.random() < 0.08))
    cases += [isspin_case(rng) for _ in range(max(20, k // 30))]
    cases += [hist_case(rng) for _ in range(k // 6)]
    return cases


def fixed_cases():
    """every (free function, source kind) pair and every (labelled kind, method) pair on fixed polynomials"""
    out = []
    quad = [[[1, 0], "2"], [[1], "-1"], [[], "1/2"], [[0, 0], "3"]]
    cubic = [[[2, 0, 1], "2"], [[1, 1, 0], "-1"], [[], "1/2"], [[2], "3/4"], [[0, 1, 2, 0], "5"]]
    for f, (fam, isquad) in sorted(FREE.items()):
        for kind in ["dict"] + (SPIN_KINDS if fam == "spin" else BOOL_KINDS):
            p = quad if (isquad or kind in DEG2) else cubic
            out.append({"family": "conv", "f": f, "kind": kind, "n": 3, "p": p,
                        "labels": "int" if kind in MATRIX else "mixed", "num": "frac"})
    for kind in LABELLED_BOOL + LABELLED_SPIN:
        for meth in ("to_qubo", "to_quso", "to_pubo", "to_puso", "to_enumerated"):
            target = ENUM_METH[kind] if meth == "to_enumerated" else meth
            p = quad if (kind in DEG2 or target in ("to_qubo", "to_quso")) else cubic
            out.append({"family": "meth", "kind": kind, "meth": meth, "deg": None, "n": 3, "p": p,
                        "labels": "str", "num": "frac", "refresh": True})
    # a dict that is non-empty but stores nothing (`max_index` is None), a cancelling pair that keeps its
    # labels in `_variables`, an all-ones solution with either flag
    out.append({"family": "export", "what": "q2m", "n": 1, "p": [[[0], "0"]], "kind": "dict", "refresh": False,
                "symmetric": False, "array": True, "num": "int"})
    out.append({"family": "export", "what": "q2m", "n": 2, "p": [[[0, 1], "1"], [[1, 0], "-1"], [[0], "2"]],
                "kind": "QUBOMatrix", "refresh": False, "symmetric": True, "array": False, "num": "int"})
    # matrix_to_qubo: every number type x shape x container (fixed generator: the same matrices on every seed), and
    # qubo_to_matrix of every number type, symmetric and upper-triangular
    import random
    frng = random.Random(20240229)
    for num in M2Q_NUMS:
        for shape in M2Q_SHAPES:
            for cont in ("list", "tuple", "array"):
                out.append(m2q_case(frng, False, num, shape, cont, n=3 if shape != "diag" else 2))
        out.append(m2q_case(frng, True, num))
    for num in Q2M_NUMS:
        for sym in (True, False):
            for kind in ("dict", "QUBOMatrix"):
                p = q2m_values(frng, [[[0, 1], "3/2"], [[1], "-1"], [[2, 0], "1/2"], [[1, 0], "2"], [[2, 2], "1"]], num)
                out.append({"family": "export", "what": "q2m", "n": 3, "p": p, "kind": kind, "refresh": sym,
                            "symmetric": sym, "array": kind == "dict", "num": num})
    for kind in LABELLED_BOOL + LABELLED_SPIN:
        for flag in (None, True, False):
            for cont in ("dict", "list", "tuple"):
                out.append({"family": "sol", "kind": kind, "n": 3, "p": quad, "labels": "str", "num": "int",
                            "refresh": True, "form": "spin" if flag else "bool", "vals": [1, 1, 1], "flag": flag,
                            "container": cont, "valtype": "int", "order": [2, 0, 1]})
    return out


def check(ctx):
    rng = ctx.rng
    cases = fixed_cases() + gen_cases(rng, ctx.scale(9000, 150000))
    process(ctx, cases)
    if ctx.diffs and not ctx.violations:
        search(ctx)


def search(ctx):
    """failing-input search after a correspondence difference: the direct oracles on single-term and
    dropped-term variants of the disagreeing cases and on a fresh larger batch"""
    extra = []
    for d in ctx.diffs[:40]:
        c = d["case"]
        if "p" in c and len(c["p"]) > 1:
            for i in range(len(c["p"])):
                extra.append(dict(c, p=[c["p"][i]]))
                extra.append(dict(c, p=c["p"][:i] + c["p"][i + 1:]))
    extra += gen_cases(ctx.rng, 4000)
    sub = common.Ctx(ctx.prop, ctx.tier, ctx.seed)
    process(sub, extra)
    ctx.violations.extend(sub.violations)


def replay(ctx, payload):
    c = payload.get("case") or (payload.get("first_difference") or {}).get("case")
    if not c:
        ctx.notes.append("replay file has no case; re-running the full check")
        return check(ctx)
    process(ctx, [c])
