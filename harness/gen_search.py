"""Distinguishing-input search for a broken equivalence obligation of the generated-source tie (DESIGN.md §2.4, §7).

When `Qv.Proofs.GenEq.<group>` stops checking, the generated definitions still elaborate (only the proof broke).
`search_group` builds `lean/Qv/Gen/Search/<group>.lean` (hand-written: evaluates `Qv.Gen.<f>` and the model function
on a structured stream of small inputs — `lean/Qv/Gen/Search/Lib.lean`) against the definitions generated from the
*current* source and reads off, per function, the first input on which they differ (or that they agree on all N).

`replay_findings` (called after the property's own `check`, when the staged /repo is importable) replays each
distinguishing input on the REAL function:
  * real code ≠ model on that input  -> `ctx.diff("generated-vs-model:<f>", …)`: a correspondence difference with a
    concrete input (it lands in the replay file as `first_difference`);
  * the function has a direct oracle written from its property (REAL below) and the real code breaks it on that input
    -> `ctx.violation("gen-tie:<f>", …)`: a concrete failing input;
  * real code = model but generated ≠ model -> a note: the translator / prelude reading is off for this input.
Nothing here runs while every obligation checks.
"""
import itertools, json, os, re, signal, subprocess
from fractions import Fraction
from . import common

SEARCH_DIR = os.path.join(common.LEAN, "Qv", "Gen", "Search")
SEARCH_TIMEOUT = 120        # seconds per group; the streams are sized to need a few seconds


def search_group(group, lean_names):
    """-> {lean_name: dict(tried, input, generated, model) | dict(unavailable=reason)}"""
    out = {}
    if not os.path.exists(os.path.join(SEARCH_DIR, group + ".lean")):
        return {n: dict(unavailable="no search file Qv/Gen/Search/%s.lean" % group) for n in lean_names}
    target = "Qv.Gen.Search." + group
    b = subprocess.run(["lake", "build", target], cwd=common.LEAN, capture_output=True, text=True)
    if b.returncode != 0:
        errs = [l for l in (b.stdout + b.stderr).splitlines() if l.startswith("error:")][:2]
        return {n: dict(unavailable="search file does not build against the current generated definitions: " +
                        " | ".join(errs)[:300]) for n in lean_names}
    src = open(os.path.join(SEARCH_DIR, group + ".lean")).read()
    have = [n for n in lean_names if re.search(r"^def search_%s\b" % re.escape(n), src, re.M)]
    for n in lean_names:
        if n not in have:
            out[n] = dict(unavailable="no search_%s in Qv/Gen/Search/%s.lean" % (n, group))
    if not have:
        return out
    tmp = os.path.join(common.LEAN, ".lake", "search_%s_%d.lean" % (group, os.getpid()))
    open(tmp, "w").write("import %s\n" % target + "".join(
        "#eval IO.println Qv.Gen.Search.search_%s\n" % n for n in have))
    proc = subprocess.Popen(["lake", "env", "lean", tmp], cwd=common.LEAN, stdout=subprocess.PIPE, stderr=subprocess.PIPE,
                            text=True, start_new_session=True)
    try:
        text, _ = proc.communicate(timeout=SEARCH_TIMEOUT)
    except subprocess.TimeoutExpired:
        os.killpg(proc.pid, signal.SIGKILL)          # lake and the lean process it started
        text, _ = proc.communicate()
    finally:
        os.unlink(tmp)
    for line in text.splitlines():
        try:
            j = json.loads(line)
        except ValueError:
            continue
        if isinstance(j, dict) and j.get("function") in have:
            out[j["function"]] = j
    for n in have:
        out.setdefault(n, dict(unavailable="search produced no result"))
    return out


def describe(name, res):
    if "unavailable" in res:
        return "distinguishing-input search for %s unavailable: %s" % (name, res["unavailable"])
    if res.get("input") is None:
        return ("distinguishing-input search: generated and model definitions of %s agree on %d inputs; "
                "if its proof obligation is among the broken ones of this module it is broken by shape only" % (
                    name, res["tried"]))
    return ("distinguishing-input search: generated and model definitions of %s differ on input %s "
            "(generated: %s, model: %s; input #%d of the stream)" % (
                name, json.dumps(res["input"]), res["generated"], res["model"], res["tried"]))


# ----------------------------------------------------------------------------- the real functions and their oracles

def F(s):
    return Fraction(s)


def poly(j):
    return {tuple(k): F(v) for k, v in j}


def fs(v):
    """the textual form of a value shared with the Lean side (`ratStr`, `pairStr`, `boolStr`)"""
    if isinstance(v, bool):
        return "true" if v else "false"
    if v is None:
        return "None"
    if isinstance(v, (int, Fraction)):
        v = Fraction(v)
        return str(v.numerator) if v.denominator == 1 else "%d/%d" % (v.numerator, v.denominator)
    if isinstance(v, (tuple, list)):
        return "(" + ", ".join(fs(x) for x in v) + ")"
    if isinstance(v, SatResult):
        return str(v)
    return repr(v)


def prod(xs):
    p = Fraction(1)
    for x in xs:
        p *= x
    return p


def _labels(P):
    return sorted({i for k in P for i in k})


def _value_oracle(maxdeg):
    """C05: the value functions evaluate the polynomial — sum of coefficient times the product of the variables
    of the key (on the type's domain: keys of at most `maxdeg` labels)"""
    def oracle(inp, got, names):
        x = {i: F(v) for i, v in enumerate(inp[names[0]])}
        P = poly(inp[names[1]])
        if maxdeg is not None and any(len(k) > maxdeg for k in P):
            return None, "a key longer than %d labels is outside the domain of this function's property" % maxdeg
        want = sum((v * prod(x[i] for i in k) for k, v in P.items()), Fraction(0))
        return (got == want), "polynomial value %s, function returned %s" % (fs(want), fs(got))
    return oracle


def _extrema_oracle(dom):
    """C15: the returned pair encloses the true minimum and maximum over all assignments"""
    def oracle(inp, got, names):
        P = poly(inp[names[0]])
        labs = _labels(P)
        vals = []
        for t in itertools.product(dom, repeat=len(labs)):
            x = dict(zip(labs, t))
            vals.append(sum((v * prod(Fraction(x[i]) for i in k) for k, v in P.items()), Fraction(0)))
        lo, hi = min(vals), max(vals)
        return (got[0] <= lo and got[1] >= hi), "true extrema (%s, %s), function returned (%s, %s)" % (
            fs(lo), fs(hi), fs(got[0]), fs(got[1]))
    return oracle


def _real_value(fname, names):
    def real(inp):
        import qubovert.utils as u
        x = {i: F(v) for i, v in enumerate(inp[names[0]])}
        return getattr(u, fname)(x, poly(inp[names[1]]))
    return real


def _real_extrema(fname, names):
    def real(inp):
        import qubovert.utils as u
        return tuple(getattr(u, fname)(poly(inp[names[0]])))
    return real


def _real_num_bits(inp):
    from qubovert.utils import num_bits
    return num_bits(F(inp["val"]), inp["log_trick"])


def _real_default_lam(inp):
    from qubovert import PUBO
    return PUBO.default_lam(F(inp["v"]))


def _real_is_solution_spin(inp):
    from qubovert.utils import is_solution_spin
    sol = [F(v) for v in inp["solution"]]
    return is_solution_spin(dict(enumerate(sol)) if inp["is_dict"] else sol, inp["default"])


def _sat_real(gate):
    def real(inp):
        import qubovert.sat as sat
        ops = [o["lbl"] if "lbl" in o else None for o in inp["operands"]]
        if any(o is None for o in ops):
            raise NotImplementedError("operand kind")
        P = getattr(sat, gate)(*ops)
        return SatResult(type(P).__name__, [(tuple(k), Fraction(v)) for k, v in P.items()])
    return real


class SatResult:
    """type and items (in dict order) of a gate result; printed like the Lean side's `showVal`"""
    def __init__(self, ty, items):
        self.ty, self.items = ty, items

    def __str__(self):
        return "%s [%s]" % (self.ty, ", ".join("[[%s], \"%s\"]" % (", ".join(str(i) for i in k), fs(v))
                                               for k, v in self.items))


def _sat_oracle(gate):
    """C07: the returned model evaluates to the gate's truth value at every boolean assignment"""
    truth = {"BUFFER": all, "AND": all, "OR": any, "XOR": lambda t: sum(t) % 2 == 1,
             "NOT": lambda t: not all(t), "NAND": lambda t: not all(t), "NOR": lambda t: not any(t),
             "XNOR": lambda t: sum(t) % 2 == 0}[gate]

    def oracle(inp, got, names):
        labs = sorted({o["lbl"] for o in inp["operands"]})
        terms = dict(got.items)
        for t in itertools.product((0, 1), repeat=len(labs)):
            x = dict(zip(labs, t))
            val = sum((v * prod(Fraction(x[i]) for i in k) for k, v in terms.items()), Fraction(0))
            want = 1 if truth([x[o["lbl"]] for o in inp["operands"]]) else 0
            if val != want:
                return False, "%s of operands %s at %s: the returned model evaluates to %s, the gate is %d" % (
                    gate, [o["lbl"] for o in inp["operands"]], x, fs(val), want)
        return True, "truth table holds"
    return oracle


# lean name -> (property, real function on the decoded input, names of the input fields in parameter order,
#               oracle(inp, real result, names) -> (holds | None if outside the property's domain, detail) or None)
REAL = {
    "pubo_value": ("C05", _real_value("pubo_value", ("x", "P")), ("x", "P"), _value_oracle(None)),
    "qubo_value": ("C05", _real_value("qubo_value", ("x", "Q")), ("x", "Q"), _value_oracle(2)),
    "puso_value": ("C05", _real_value("puso_value", ("z", "H")), ("z", "H"), _value_oracle(None)),
    "quso_value": ("C05", _real_value("quso_value", ("z", "L")), ("z", "L"), _value_oracle(2)),
    "approximate_pubo_extrema": ("C15", _real_extrema("approximate_pubo_extrema", ("P",)), ("P",), _extrema_oracle((0, 1))),
    "approximate_qubo_extrema": ("C15", _real_extrema("approximate_qubo_extrema", ("Q",)), ("Q",), _extrema_oracle((0, 1))),
    "approximate_puso_extrema": ("C15", _real_extrema("approximate_puso_extrema", ("H",)), ("H",), _extrema_oracle((1, -1))),
    "approximate_quso_extrema": ("C15", _real_extrema("approximate_quso_extrema", ("L",)), ("L",), _extrema_oracle((1, -1))),
    "num_bits": ("C02", _real_num_bits, ("val", "log_trick"), None),
    "default_lam": ("C01", _real_default_lam, ("v",), None),
    "is_solution_spin": ("C04", _real_is_solution_spin, ("solution", "is_dict", "default"), None),
}
for _g in ("BUFFER", "NOT", "AND", "NAND", "OR", "NOR", "XOR", "XNOR"):
    REAL[_g] = ("C07", _sat_real(_g), ("operands",), _sat_oracle(_g))


def replay_case(ctx, prop, case):
    """re-execute one distinguishing input on the real code; returns the record that was written to ctx"""
    info = case["gen_tie"]
    name, inp = info["function"], info["input"]
    from . import translate
    translate.load_ext()
    for _m in translate.EXT_MODULES:
        for _k, _v in getattr(_m, "REAL", {}).items():
            REAL.setdefault(_k, _v)
    rec = dict(function=name, input=inp, generated=info.get("generated"), model=info.get("model"))
    if name not in REAL:
        rec["real"] = "no real-code replay for this function (its input is a partial state / an effect list)"
        ctx.notes.append("gen-tie %s: %s" % (name, json.dumps(rec, default=str)))
        return rec
    _, real, names, oracle = REAL[name]
    try:
        got = real(inp)
        rec["real"] = fs(got)
    except NotImplementedError as e:
        rec["real"] = "not replayed: %s" % e
        ctx.notes.append("gen-tie %s: %s" % (name, json.dumps(rec, default=str)))
        return rec
    except Exception as e:                  # noqa: BLE001 — the real code may raise; that is its observable result
        got = e
        rec["real"] = "raise " + common.exc_name(e)
    ctx.case(dict(gen_tie=name, input=inp), True)
    same_as_model = info.get("model") is not None and rec["real"].replace(" ", "") == str(info["model"]).replace(" ", "")
    rec["real_equals_model"] = same_as_model
    if not same_as_model:
        ctx.diff("generated-vs-model:" + name, dict(gen_tie=info), rec["real"], info.get("model"))
    else:
        ctx.notes.append("gen-tie %s: the generated definition differs from the model on %s but the real code agrees "
                         "with the model there — the translator / prelude reading is off for this input" % (
                             name, json.dumps(inp)))
    if oracle is not None and not isinstance(got, Exception):
        holds, detail = oracle(inp, got, names)
        rec["oracle"] = dict(holds=holds, detail=detail)
        if holds is False:
            ctx.violation("gen-tie:" + name, dict(gen_tie=info),
                          "%s on the distinguishing input %s found by the generated-vs-model search: %s" % (
                              name, json.dumps(inp), detail))
    ctx.notes.append("gen-tie %s: %s" % (name, json.dumps(rec, default=str)))
    return rec


def replay_findings(ctx, prop, findings):
    for name, res in findings.items():
        if res.get("input") is not None:
            replay_case(ctx, prop, dict(gen_tie=dict(function=name, input=res["input"], generated=res.get("generated"),
                                                     model=res.get("model"), tried=res.get("tried"))))
