"""C16 — symbolic coefficients commute with substitution (correspondence + direct oracle).

A sympy `Symbol('lam')` is the weight of every constraint builder and the penalty of every reduction route.

Families
  cons     sequences of 1..3 add_constraint_R_zero calls on a PCBO(objective): every C02 shape template x relation x
           log_trick x bounds mode (the C02 generator), weights X, 2X, X/2, 1+X and plain numbers mixed in
  logic    add_constraint_[eq_]G calls (the C06 generators: templates, all 16 methods, random operand kinds)
  pcso     sequences of PCSO.add_constraint_R_zero calls on spin polynomials
  reduce   to_qubo / to_quso / to_pubo(deg) / to_puso(deg) of PUBO/PUSO/PCBO/PCSO (the C01 generator) with the
           symbolic constant penalty X or a callable from the fixed menu  v -> X,  v -> |v|*X,  v -> v*X
Checks per case
  (i)   correspondence: the coefficients of the symbolic result, extracted as polynomials in `lam`
        (`sympy.Poly(expr, lam).all_coeffs()`), equal the Lean model's `st_sym + w . G` resp.
        `D0 + sum lamSym(v_t) . gadget_t` coefficientwise; ancilla counter, recorded constraints, warnings too
  (ii)  DIRECT ORACLE: `.subs({lam: c})` for c in {1, 2, 1/2, 3, 5/2} equals the direct numeric build with the number
        c: terms (exact, after Fraction(float(.))), type, recorded `constraints`, `num_ancillas`; both also equal the
        model's `subs c` / direct numeric model (run-time form of T16.1/T16.2)
  (iii) DIRECT ORACLE: `subs` returns a new object and leaves the original unchanged (snapshot)
  (iv)  DIRECT ORACLE, HISTORIES before subs: the symbolic model (constrained model, or reduced Matrix form) first goes
        through 1..2 maintenance steps — refresh(), copy(), copy()+refresh(), the constructor, clear() + term-by-term rebuild,
        info round trip, set_mapping / set_reverse_mapping permutation, `*= 1`, `+= 0`, subs({}), an earlier subs at another value
        (alone, or followed by `*= 2`), PUBO(H) / PUSO(H) + refresh(), refresh() followed by a purely
        numeric write, numeric in-place and out-of-place arithmetic (`+= {..}`, `-= {..}`, `*= 2`, `/= 2`, `-H`, `H + {..}`,
        `2 * H`), to_pubo() / to_puso() / to_pubo after refresh — and only then `subs`; the very same steps are applied to the
        direct numeric build, and `form.subs(lam -> c)` must equal the form built with the number c (terms through the
        models' own label mappings, type, recorded constraints, ancilla counter).  For the steps that keep the terms the
        result is also compared with the Lean model's `subs c`
  pre/mid: a quarter of the constraint sequences have one term-preserving maintenance step (same menu) before the first or
        the second constraint call — in the symbolic and in every numeric build alike
  call forms: every substitution is written in one of 18 ways sympy's `subs` accepts (and the unchanged code accepts):
        {lam: c}, (lam, c), [(lam, c)], ((lam, c),), list(zip([lam], [c])), a set of pairs, each of the first three with
        simultaneous=True, the string forms ('lam', c), {'lam': c}, [('lam', c)], two-symbol dict / list with an unrelated
        symbol, the chain [(lam, mu), (mu, c)], and c given as float / sympy Integer / sympy Rational; the form rotates with
        the case index and the value index so that every form meets every value
(ii)+(iii)+(iv) use the real objects only and share nothing with the Lean model.
"""
import itertools, random, time, warnings
from fractions import Fraction
from . import common, c01, c02, c06
from .common import Labels, fs, exc_name, canon_terms, snapshot, ANC, Infra

CEXT = "plain"
RULE = ("sympy Symbol('lam') as weight: (cons) 1..3 add_constraint_R_zero calls on PCBO(objective) from the 14 C02 shape "
        "templates x 6 relations x log_trick x 7 bounds modes, weights X/2X/X/2/1+X/numbers, objective either random or "
        "built to cancel a penalty coefficient at one of the substituted values; (logic) the 16 logical methods with the "
        "C06 operand kinds; (pcso) 1..2 PCSO.add_constraint_R_zero calls on spin polynomials; (reduce) the C01 generator "
        "(PUBO/PUSO/PCBO/PCSO, 4 targets, deg, pairs) with penalty X or a callable v->X, v->|v|X, v->vX; every case is "
        "substituted at c in {1,2,1/2,3,5/2} and compared with the direct numeric build; numbers are dyadic; the substitution "
        "is written in one of 18 call forms (rotating); two thirds of the cases additionally put the symbolic model through "
        "1..2 maintenance steps (refresh, copy, constructor, clear+rebuild, info round trip, relabelling, neutral and numeric "
        "in-place / out-of-place arithmetic, to_pubo / to_puso) before subs and compare with the numeric build put through "
        "the same steps. "
        "non-trivial = the symbolic result has >= 2 coefficients that contain the symbol; distinct = distinct case JSON")
ASSUMPTIONS = ["sympy's automatic normal form of polynomial expressions in one symbol is the ring normal form of Q[lam] "
               "(trusted; the model computes in Q[lam] as normalised coefficient lists)",
               "all numbers (coefficients, bounds of the symbolic runs, substituted values) are dyadic, so "
               "float(expr.subs(...)) is exact and results are compared exactly after Fraction(float(.))",
               "PCSO constraints are covered through a minimal local symbolic model in Qv/Model/Symbolic.lean whose "
               "substitution is compared with the C03 model Qv.Pcso.addConstraint and with the real code (correspondence + "
               "direct oracle; no PCSO theorem); likewise the target to_quso"]

CS = ["1", "2", "1/2", "3", "5/2"]
WEIGHTS = [["0", "1"]] * 12 + [["0", "2"], ["0", "1/2"], ["0", "3"], ["1", "1"], ["1"], ["2"], ["0"]]
MENU = ["const", "abs", "lin"]

# ------------------------------------------------------------------ numbers and symbols

def dyadic(s):
    d = Fraction(s).denominator
    return d & (d - 1) == 0

_sym = {}
def LAM():
    import sympy
    if "lam" not in _sym:
        _sym["lam"] = sympy.Symbol("lam")
    return _sym["lam"]

def num_of(s, style):
    f = Fraction(s)
    if style == "float":
        return float(f)
    if f.denominator == 1 and style != "frac":
        return int(f)
    return f

def _mu():
    import sympy
    if "mu" not in _sym:
        _sym["mu"] = sympy.Symbol("mu")
    return _sym["mu"]

def _sy(kind, val):
    import sympy
    f = Fraction(val)
    return sympy.Integer(int(f)) if (kind == "int" and f.denominator == 1) else sympy.Rational(f.numerator, f.denominator)

# every way of writing  lam -> val  that sympy's subs accepts and the unchanged code accepts
FORMS = [
    ("dict", lambda o, lam, val: o.subs({lam: val})),
    ("pos", lambda o, lam, val: o.subs(lam, val)),
    ("list", lambda o, lam, val: o.subs([(lam, val)])),
    ("tuple", lambda o, lam, val: o.subs(((lam, val),))),
    ("ziplist", lambda o, lam, val: o.subs(list(zip([lam], [val])))),
    ("dict-simultaneous", lambda o, lam, val: o.subs({lam: val}, simultaneous=True)),
    ("list-simultaneous", lambda o, lam, val: o.subs([(lam, val)], simultaneous=True)),
    ("pos-simultaneous", lambda o, lam, val: o.subs(lam, val, simultaneous=True)),
    ("set", lambda o, lam, val: o.subs({(lam, val)})),
    ("str", lambda o, lam, val: o.subs("lam", val)),
    ("str-dict", lambda o, lam, val: o.subs({"lam": val})),
    ("str-list", lambda o, lam, val: o.subs([("lam", val)])),
    ("two-dict", lambda o, lam, val: o.subs({lam: val, _mu(): 5})),
    ("two-list", lambda o, lam, val: o.subs([(_mu(), 5), (lam, val)])),
    ("chain", lambda o, lam, val: o.subs([(lam, _mu()), (_mu(), val)])),
    ("float", lambda o, lam, val: o.subs(lam, float(val))),
    ("sympy-number", lambda o, lam, val: o.subs(lam, _sy("int", val))),
    ("sympy-rational-dict", lambda o, lam, val: o.subs({lam: _sy("rat", val)})),
]

def subs_form(obj, c, i, ctx=None):
    """the same substitution lam -> c in each of the call forms (rotating with i)"""
    name, f = FORMS[i % len(FORMS)]
    if ctx is not None:
        ctx.count("subs-form:" + name)
    return f(obj, LAM(), c_py(c))

def form_index(case, ci):
    """rotation: consecutive cases cover consecutive blocks of five forms, so every form meets every value of c"""
    return case.get("idx", 0) * len(CS) + ci

def c_py(c):
    f = Fraction(c)
    return int(f) if f.denominator == 1 else float(f)

def weight_sym(w, style):
    """the weight as a Python object: a number (constant weight) or a sympy expression in lam"""
    if len(w) == 1:
        return num_of(w[0], style)
    e = 0
    for i, a in enumerate(w):
        if Fraction(a) != 0:
            e = e + num_of(a, style if i == 0 else "int" if Fraction(a).denominator == 1 else "frac") * LAM() ** i
    return e

def weight_at(w, c, style):
    v = sum(Fraction(a) * Fraction(c) ** i for i, a in enumerate(w))
    return num_of(fs(v), style if dyadic(fs(v)) else "frac")

def coeffs_of(v):
    """coefficient list (lowest degree first, exact strings) of a dict value as a polynomial in lam"""
    import sympy
    if isinstance(v, sympy.Basic) and v.free_symbols:
        try:
            cs = sympy.Poly(v, LAM()).all_coeffs()
            out = [fs(x) for x in reversed(cs)]
        except Exception:               # not a polynomial in lam with rational coefficients
            return ["not-a-polynomial: " + str(v)]
    else:
        out = [fs(v)]
    while out and Fraction(out[-1]) == 0:
        out.pop()
    return out

def sym_terms(d, L):
    out = []
    for k, v in d.items():
        ids = L.ids(k) if L is not None else list(k)
        out.append([sorted(ids), coeffs_of(v)])
    out.sort(key=lambda t: t[0])
    return out

def cons_canon(H, L):
    out = {}
    for r, ps in H.constraints.items():
        out[r] = [canon_terms(p, L) for p in ps]
    return out

def model_cons(lst):
    out = {}
    for r, p in lst:
        out.setdefault(r, []).append(p)
    return out

def n_symbolic(terms):
    return sum(1 for _, cs in terms if len(cs) >= 2)

# ------------------------------------------------------------------ histories before subs (check iv)

# steps that keep the terms (the Lean model's `subs c` of the final symbolic state still applies afterwards)
MAINT_KEEP = ["refresh", "copy", "copy_refresh", "ctor", "info", "relabel", "imul1", "iadd0", "subs_empty", "refresh_twice",
              "presubs"]
# steps that change the terms by numbers only (oracle only)
MAINT_NUM = ["refresh_touch", "clear_rebuild", "clear_rebuild_refresh", "iadd_num", "isub_num", "imul2", "idiv2", "neg",
             "add_num", "rmul2", "refresh_iadd_fresh", "presubs_imul2", "as_plain_refresh"]
# conversions of the symbolic model (the result is a Matrix form with integer labels)
MAINT_CONV = ["to_pubo", "to_puso", "refresh_to_pubo", "copy_to_puso"]
MAINT_MATRIX = ["refresh", "copy", "copy_refresh", "ctor", "imul1", "iadd0", "subs_empty", "refresh_twice", "refresh_touch",
                "clear_rebuild", "iadd_num", "imul2", "idiv2", "neg", "rmul2", "info", "presubs", "presubs_imul2"]

def gen_maint(rng, idx, matrix=False):
    """1..2 steps; the first one rotates through the whole menu with the case index"""
    menu = MAINT_MATRIX if matrix else MAINT_KEEP + MAINT_NUM + MAINT_CONV
    ops = [menu[idx % len(menu)]]
    if ops[0] not in MAINT_CONV and rng.random() < 0.35:
        ops.insert(0, rng.choice([o for o in menu if o not in MAINT_CONV]))
    return ops

class Form:
    """a model after its history: the object, and (for a converted Matrix form) the reverse mapping that spells its
    integer labels"""
    def __init__(self, obj, rev=None):
        self.obj, self.rev = obj, rev

def maintain(H, ops, L, matrix=False, c="7"):
    """apply the steps to H (symbolic or numeric alike: nothing here looks at the coefficients); returns a Form"""
    import qubovert as qv
    rev = None
    fresh = (63,) if matrix else (L.lab(40),)
    k0 = (0,) if matrix else (L.lab(0),)
    with warnings.catch_warnings():
        warnings.simplefilter("ignore")
        for op in ops:
            if op == "refresh":
                H.refresh()
            elif op == "refresh_twice":
                H.refresh(); H.refresh()
            elif op == "copy":
                H = H.copy()
            elif op == "copy_refresh":
                H = H.copy(); H.refresh()
            elif op == "ctor":
                H = type(H)(H)
            elif op == "info":
                H = qv.utils.create_from_info(qv.utils.get_info(H))
            elif op == "relabel":
                mp = H.mapping
                labs, vals = list(mp), list(mp.values())
                new = {labs[t]: vals[len(vals) - 1 - t] for t in range(len(labs))}
                if len(labs) % 2:
                    H.set_reverse_mapping({v: k for k, v in new.items()})
                else:
                    H.set_mapping(new)
            elif op == "imul1":
                H *= 1
            elif op == "iadd0":
                H += 0
            elif op == "subs_empty":
                H = H.subs({})
            elif op in ("presubs", "presubs_imul2"):
                # an earlier substitution whose result is dropped: at another value, or at the value asked for later
                # with an in-place scaling in between
                if op == "presubs":
                    H.subs({LAM(): 7})
                else:
                    H.subs({LAM(): c_py(c)})
                    H *= 2
            elif op == "as_plain_refresh":                  # the unconstrained labelled class holding the same terms
                H = (qv.PUSO if type(H).__name__ == "PCSO" else qv.PUBO)(H); H.refresh()
            elif op == "refresh_touch":
                H.refresh(); H[fresh] += -1                 # a numeric write that meets no symbolic coefficient
            elif op == "refresh_iadd_fresh":
                H.refresh(); H += {fresh: 3, (): 1}
            elif op in ("clear_rebuild", "clear_rebuild_refresh"):
                items = list(H.items())
                H.clear()
                for k, v in items:
                    H[k] += v
                if op.endswith("refresh"):
                    H.refresh()
            elif op == "iadd_num":
                H += {k0: 1, (): 2, fresh: -1}
            elif op == "isub_num":
                H -= {k0: 2, fresh: 1}
            elif op == "imul2":
                H *= 2
            elif op == "idiv2":
                H /= 2
            elif op == "neg":
                H = -H
            elif op == "add_num":
                H = H + {k0: 1, fresh: 2}
            elif op == "rmul2":
                H = 2 * H
            elif op in ("to_pubo", "refresh_to_pubo", "to_puso", "copy_to_puso"):
                if op.startswith("refresh"):
                    H.refresh()
                if op.startswith("copy"):
                    H = H.copy()
                rev = dict(H.reverse_mapping)
                H = H.to_pubo() if op.endswith("pubo") else H.to_puso()
            else:
                raise AssertionError("unknown maintenance step " + op)
    return Form(H, rev)

def form_view(F, L, matrix=False):
    """what is compared between `form.subs(lam -> c)` and the form built with the number c"""
    o = F.obj
    if F.rev is not None:
        terms = sorted([[sorted(L.ident(F.rev[i]) for i in k), fs(v)] for k, v in o.items()])
    elif matrix:
        terms = canon_matrix(o)
    else:
        terms = canon_terms(o, L)
    v = dict(terms=terms, type=type(o).__name__)
    if hasattr(o, "_constraints"):
        v["cons"] = cons_canon(o, L)
        v["anc"] = o.num_ancillas
    return v

def maint_check(ctx, case, fam, sym_obj, L, build_numeric, model_at, matrix=False):
    """check (iv): history, then subs, against the numeric build put through the same history.
    build_numeric(c) -> (object, labels) ; model_at(ci) -> the Lean model's subs terms at CS[ci] (or None)"""
    ops = case["maint"]
    ci = case.get("idx", 0) % len(CS)
    c = CS[ci]
    sig = "C16:subs-after-history:" + fam
    vc = dict(case, c=c)
    for o in ops:
        ctx.count("maint:" + o)
    try:
        F = maintain(sym_obj, ops, L, matrix, c)
    except Exception as e:
        # the same steps on the numeric build must then fail the same way
        try:
            D, L2 = build_numeric(c)
            maintain(D, ops, L2, matrix, c)
        except Exception as e2:
            if exc_name(e2) == exc_name(e):
                ctx.count("maint-raises-both"); return
        ctx.violation(sig, vc, "the steps %s raise %s(%s) on the symbolic model but not on the model built with lam=%s" % (
            ops, exc_name(e), str(e)[:100], c)); return
    before = snapshot(F.obj)
    try:
        S = Form(subs_form(F.obj, c, form_index(case, ci) + 7, ctx), F.rev)
    except Exception as e:
        ctx.violation(sig, vc, "after the steps %s, subs(lam -> %s) raises %s(%s)" % (ops, c, exc_name(e), str(e)[:100])); return
    if snapshot(F.obj) != before:
        ctx.violation("C16:subs-mutates", vc, "after the steps %s, subs(lam -> %s) changed the model" % (ops, c)); return
    if S.obj is F.obj:
        ctx.violation("C16:subs-same-object", vc, "after the steps %s, subs returned the model itself" % (ops,)); return
    D, L2 = build_numeric(c)
    FD = maintain(D, ops, L2, matrix, c)
    try:
        sv = form_view(S, L, matrix)
    except Exception as e:
        ctx.violation(sig, vc, "after the steps %s, subs(lam -> %s) left a non-numeric coefficient: %s" % (ops, c, str(e)[:200])); return
    dv = form_view(FD, L2, matrix)
    ctx.count("subs-after-history-evaluations")
    if sv != dv:
        what = [k for k in sv if sv[k] != dv.get(k)]
        ctx.violation(sig, vc, "after the steps %s, subs(lam -> %s) differs from the model built with lam=%s and put through the "
                      "same steps, in %s: subs=%s direct=%s" % (ops, c, c, what, {k: sv[k] for k in what},
                                                                 {k: dv.get(k) for k in what}))
        return
    if all(o in MAINT_KEEP for o in ops):
        want = model_at(ci)
        if want is not None and sv["terms"] != want:
            ctx.diff(fam + ":subs-after-history", vc, sv["terms"], want)

# ------------------------------------------------------------------ constraint sequences (PCBO comparison, logic, PCSO)

def call_cmp(H, step, L, num, lam):
    import qubovert as qv
    d = {}
    for k, v in step["P"]:
        kk = L.key(k)
        d[kk] = num_of(v, num)
    if step.get("ptype") == "PUBO":
        d = qv.PUBO(d)
    elif step.get("ptype") == "PCBO":
        d = qv.PCBO(d)
    kw = dict(lam=lam, suppress_warnings=step["sup"])
    if step["lo"] is not None or step["hi"] is not None:
        kw["bounds"] = (None if step["lo"] is None else num_of(step["lo"], num),
                        None if step["hi"] is None else num_of(step["hi"], num))
    if step["rel"] != "eq":
        kw["log_trick"] = step["lt"]
    return getattr(H, "add_constraint_%s_zero" % step["rel"])(d, **kw)

def call_logic(H, step, L, lam):
    ops = [c06.build_operand(o, L) for o in step["ops"]]
    name = "add_constraint_" + ("eq_" if step["eq"] else "") + step["g"]
    return getattr(H, name)(*ops, lam=lam)

def build_seq(case, lam_of):
    """run the sequence on the real code; lam_of(step) gives the weight object.  Returns (H, L, per-step status, warns)"""
    import qubovert as qv
    L = Labels(case["labels"])
    cls = qv.PCSO if case["spin"] else qv.PCBO
    num = case["num"]
    obj = {}
    for k, v in case["obj"]:
        obj[L.key(k)] = num_of(v, num)
    H = cls(obj)
    status, warns = [], []
    for si, st in enumerate(case["seq"]):
        # term-preserving maintenance before the first / the second constraint (the same in the symbolic and numeric builds)
        mop = case.get("pre") if si == 0 else case.get("mid") if si == 1 else None
        if mop:
            H = maintain(H, mop, L).obj
        try:
            with warnings.catch_warnings(record=True) as w:
                warnings.simplefilter("always")
                if st["type"] == "logic":
                    r = call_logic(H, st, L, lam_of(st))
                else:
                    r = call_cmp(H, st, L, num, lam_of(st))
            for x in w:
                m = str(x.message)
                warns.append("unsat" if "cannot" in m else "always" if "always" in m else "other:" + m)
            status.append({"anc": H.num_ancillas} if r is H else {"err": "not-self"})
        except Exception as e:
            status.append({"err": exc_name(e)})
    return H, L, status, warns

def state_view(H, L, warns, symbolic):
    return dict(terms=sym_terms(H, L) if symbolic else canon_terms(H, L), anc=H.num_ancillas,
                cons=cons_canon(H, L), warns=list(warns), type=type(H).__name__)

def seq_model_line(case):
    seq = []
    for s in case["seq"]:
        if s["type"] == "logic":
            seq.append(dict(type="logic", eq=s["eq"], g=s["g"], ops=s["ops"], w=s["w"]))
        else:
            seq.append(dict(type="cmp", rel=s["rel"], P=s["P"], w=s["w"], lt=s["lt"], lo=s["lo"], hi=s["hi"], sup=s["sup"]))
    return {"op": "sym_cons", "spin": case["spin"], "obj": case["obj"], "seq": seq, "subs": CS}

def run_seq_case(ctx, case, m):
    """all three checks for a constraint-sequence case; returns nothing, records diffs/violations"""
    fam = case["family"]
    if "driver_error" in m:
        ctx.diff(fam + ":driver", case, None, m); return
    # ---- symbolic build on the real code
    H, L, status, warns = build_seq(case, lambda st: weight_sym(st["w"], case["num"]))
    impl = dict(state_view(H, L, warns, True), steps=status)
    mf = m["final"]
    model = dict(terms=mf["sym"], anc=mf["anc"], cons=model_cons(mf["cons"]), warns=mf["warns"],
                 type="PCSO" if case["spin"] else "PCBO", steps=m["steps"])
    for t in mf["tags"]:
        ctx.count("tag:" + t)
    nontriv = n_symbolic(impl["terms"]) >= 2
    ctx.case(case, nontriv); ctx.traces += 1
    ctx.count("family:" + fam)
    if impl != model:
        ctx.diff(fam + ":symbolic", case, impl, model)
    # ---- (iii) + (ii): subs versus the direct numeric build
    for ci, (c, mc) in enumerate(zip(CS, m["at"])):
        before = snapshot(H)
        S = subs_form(H, c, form_index(case, ci), ctx)
        if snapshot(H) != before:
            ctx.violation("C16:subs-mutates", dict(case, c=c), "H.subs({lam: %s}) changed H" % c); return
        if S is H:
            ctx.violation("C16:subs-same-object", dict(case, c=c), "H.subs returned H itself"); return
        if c == CS[0]:
            # the new object shares no mutable state with the original: editing a copy of it leaves H alone
            S2 = H.subs({LAM(): c_py(c)})
            try:
                S2.add_constraint_eq_zero({(L.lab(0),): 1, (L.lab(1),): -1}, lam=3)
                S2[(L.lab(0),)] += 7
                for lst in S2._constraints.values():
                    for P in lst:
                        P[(L.lab(0),)] += 1
            except Exception as e:
                ctx.violation("C16:subs-differs:" + fam, dict(case, c=c), "the substituted model cannot be edited: %s" % e); return
            if snapshot(H) != before:
                ctx.violation("C16:subs-aliases", dict(case, c=c),
                              "editing H.subs({lam: %s}) changed H (shared mutable state)" % c); return
        D, L2, status2, warns2 = build_seq(case, lambda st: weight_at(st["w"], c, case["num"]))
        try:
            sv = dict(terms=canon_terms(S, L), cons=cons_canon(S, L), type=type(S).__name__)
        except Exception as e:        # a coefficient that is still symbolic / not a number
            ctx.violation("C16:subs-differs:" + fam, dict(case, c=c),
                          "subs({lam: %s}) left a non-numeric coefficient: %s" % (c, e)); return
        dv = dict(terms=canon_terms(D, L2), cons=cons_canon(D, L2), type=type(D).__name__)
        ctx.count("subs-evaluations")
        if [s.get("err") for s in status] != [s.get("err") for s in status2]:
            ctx.violation("C16:subs-differs:" + fam, dict(case, c=c),
                          "symbolic and numeric (lam=%s) runs raise differently: %s vs %s" % (c, status, status2)); return
        if sv != dv:
            what = [k for k in sv if sv[k] != dv[k]]
            ctx.violation("C16:subs-differs:" + fam, dict(case, c=c),
                          "subs({lam: %s}) differs from the direct build with lam=%s in %s: subs=%s direct=%s" % (
                              c, c, what, {k: sv[k] for k in what}, {k: dv[k] for k in what})); return
        if S.num_ancillas != D.num_ancillas:
            ctx.violation("C16:subs-drops-num-ancillas", dict(case, c=c),
                          "H.subs({lam: %s}).num_ancillas = %d but the direct build with lam=%s has num_ancillas = %d "
                          "(H.num_ancillas = %d): the substituted model would reuse ancilla names" % (
                              c, S.num_ancillas, c, D.num_ancillas, H.num_ancillas))
        if len(sv["terms"]) < len(impl["terms"]):
            ctx.count("subs-dropped-a-vanishing-coefficient")
        # both against the model (run-time form of T16.1)
        md = mc["direct"]
        if sv["terms"] != mc["subs"]:
            ctx.diff(fam + ":subs", dict(case, c=c), sv["terms"], mc["subs"])
        if dict(terms=dv["terms"], anc=D.num_ancillas, cons=dv["cons"], warns=list(warns2)) != \
                dict(terms=md["terms"], anc=md["anc"], cons=model_cons(md["cons"]), warns=md["warns"]):
            ctx.diff(fam + ":direct", dict(case, c=c), dict(dv, anc=D.num_ancillas, warns=warns2), md)
    # ---- simplify() (in place, makes floats) keeps the substituted model
    if case.get("simplify"):
        H2 = type(H)(H)
        try:
            H2.simplify()
            S2 = H2.subs({LAM(): c_py(CS[1])})
            S1 = H.subs({LAM(): c_py(CS[1])})
            if canon_terms(S2, L) != canon_terms(S1, L):
                ctx.violation("C16:simplify", case, "simplify() then subs({lam: 2}) differs from subs({lam: 2})")
            ctx.count("simplify-checked")
        except Exception as e:
            ctx.violation("C16:simplify", case, "simplify()/subs raised %s: %s" % (exc_name(e), str(e)[:100]))
    # ---- (iv) history on the symbolic model, then subs (last: the history may edit H in place)
    if case.get("maint"):
        def build_numeric(c):
            D, L2, _, _ = build_seq(case, lambda st: weight_at(st["w"], c, case["num"]))
            return D, L2
        maint_check(ctx, case, fam, H, L, build_numeric, lambda ci: m["at"][ci]["subs"])

# ---- generators

def pick_weight(rng):
    return list(rng.choice(WEIGHTS))

def cancel_objective(rng, case):
    """objective that makes some coefficient of the penalised model vanish at one of the substituted values:
    a numeric pre-run at lam = c0 (no sympy), then obj[key] = -(coefficient at c0)"""
    c0 = rng.choice(CS)
    base = dict(case, obj=[])
    try:
        D, L, status, _ = build_seq(base, lambda st: weight_at(st["w"], c0, "frac"))
    except Exception:
        return []
    cand = [(L.ids(k), v) for k, v in D.items() if all(not (isinstance(x, str) and x.startswith("__a")) for x in k)]
    cand = [(k, v) for k, v in cand if dyadic(fs(v))]
    rng.shuffle(cand)
    obj = [[k, fs(-Fraction(fs(v)))] for k, v in cand[:rng.randint(1, 3)]]
    # plus an untouched term
    if rng.random() < 0.5:
        obj.append([[0], fs(rng.choice([1, 2, -1]))]) if not any(k == [0] for k, _ in obj) else None
    return obj

def random_objective(rng, nv):
    obj, seen = [], set()
    for _ in range(rng.randint(0, 3)):
        k = sorted(rng.sample(range(nv), rng.randint(0, min(2, nv))))
        if tuple(k) in seen:
            continue
        seen.add(tuple(k))
        obj.append([k, fs(rng.choice([-3, -2, -1, 1, 2, 3, Fraction(1, 2), Fraction(-3, 2)]))])
    return obj

def dyadic_step(s):
    return all(dyadic(v) for _, v in s["P"]) and all(dyadic(b) for b in (s["lo"], s["hi"]) if b is not None)

def cons_case(rng, first=None, idx=0):
    while True:
        base = c02.gen_case(rng, "cons", first)
        seq = [s for s in base["seq"][:3] if dyadic_step(s)]
        if seq and (first is None or seq[0] is base["seq"][0]):
            break
    for s in seq:
        s["type"] = "cmp"; s["w"] = pick_weight(rng)
        for k in ("lam", "oracle", "t", "bm"):
            s.pop(k, None)
    num = base["num"]
    case = dict(family="cons", spin=False, labels=("int", "str", "mixed")[idx % 3], n=base["n"], num=num, seq=seq,
                obj=[], simplify=rng.random() < 0.06)
    r = rng.random()
    if r < 0.45:
        case["obj"] = cancel_objective(rng, case)
    elif r < 0.8:
        case["obj"] = random_objective(rng, base["n"])
    return case

def logic_case(rng, base, idx=0):
    seq = []
    for s in base["seq"]:
        seq.append(dict(type="logic", eq=s["eq"], g=s["g"], ops=s["ops"], w=pick_weight(rng)))
    case = dict(family="logic", spin=False, labels=base["labels"] if base["labels"] != "tuple" else "str", n=base["n"],
                num="int", seq=seq, obj=[], simplify=False)
    if rng.random() < 0.4:
        case["obj"] = cancel_objective(rng, case)
    elif rng.random() < 0.5 and base["n"]:
        case["obj"] = random_objective(rng, base["n"])
    return case

def spin_values(items, nv):
    vals = []
    for z in itertools.product((1, -1), repeat=nv):
        tot = Fraction(0)
        for k, v in items:
            m = Fraction(v)
            for i in k:
                m *= z[i]
            tot += m
        vals.append(tot)
    return vals

def pcso_case(rng, idx=0):
    nv = rng.randint(1, 3)
    seq = []
    for _ in range(rng.choice([1, 1, 2])):
        items, seen = [], set()
        for _ in range(rng.randint(1, 3)):
            k = rng.sample(range(nv), rng.randint(0, min(2, nv)))
            if frozenset(k) in seen:
                continue
            seen.add(frozenset(k))
            items.append([k, fs(rng.choice([-2, -1, 1, 2, 1, -1, Fraction(1, 2)]))])
        vals = spin_values(items, nv)
        bm = rng.choice(["none", "none", "exact", "loose"])
        lo = hi = None
        if bm == "exact":
            lo, hi = min(vals), max(vals)
        elif bm == "loose":
            lo, hi = min(vals) - rng.randint(0, 2), max(vals) + rng.randint(0, 2)
        seq.append(dict(type="cmp", spin=True, rel=rng.choice(c02.RELS), P=items, w=pick_weight(rng),
                        lt=rng.random() < 0.5, lo=None if lo is None else fs(lo), hi=None if hi is None else fs(hi),
                        sup=rng.random() < 0.2))
    case = dict(family="pcso", spin=True, labels=("int", "str")[idx % 2], n=nv, num=rng.choice(["int", "frac"]), seq=seq,
                obj=[], simplify=False)
    if rng.random() < 0.4:
        case["obj"] = cancel_objective(rng, case)
    elif rng.random() < 0.5:
        case["obj"] = random_objective(rng, nv)
    return case

# ------------------------------------------------------------------ reductions

def red_lam(case, X, style):
    """the `lam` argument: the weight itself (constant penalty) or a callable from the menu"""
    k = case["menu"]
    if k == "const":
        return X
    if k == "abs":
        return lambda v: abs(v) * X
    return lambda v: v * X

def red_kwargs(case, L, X):
    kw = {"lam": red_lam(case, X, case["num"])}
    if case["pairs"] is not None:
        kw["pairs"] = {tuple(L.lab(i) for i in p) for p in case["pairs"]}
    if case["target"] in ("pubo", "puso"):
        kw["deg"] = case["deg"]
    return kw

def reduce_case(rng):
    while True:
        a = c01.gen_abstract(rng)
        if all(dyadic(v) for _, v in a["terms"]):
            break
    a.pop("lam")
    a["family"] = "reduce"
    a["menu"] = rng.choice(MENU)
    a["w"] = list(rng.choice([["0", "1"]] * 6 + [["0", "2"], ["0", "1/2"], ["1", "1"]]))
    if a["num"] not in ("int", "frac", "float"):
        a["num"] = "frac"
    a["labels"] = rng.choice(["int", "str", "mixed"])
    return a

def canon_matrix(R):
    return sorted([[list(k), fs(v)] for k, v in R.items()])

def run_reduce_case(ctx, case, m, info):
    fam = "reduce"
    M, L = info["M"], info["L"]
    if "driver_error" in m:
        ctx.diff(fam + ":driver", case, None, m); return
    X = weight_sym(case["w"], case["num"])
    try:
        R = getattr(M, "to_" + case["target"])(**red_kwargs(case, L, X))
        impl = {"sym": sym_terms(R, None), "type": type(R).__name__}
    except Exception as e:
        R = None
        impl = {"err": exc_name(e)}
    model = {"err": m["err"]} if "err" in m else {"sym": m["sym"]}
    ctx.case(case, R is not None and n_symbolic(impl["sym"]) >= 2); ctx.traces += 1
    ctx.count("family:reduce"); ctx.count("reduce:%s:%s" % (case["target"], case["menu"]))
    if {k: v for k, v in impl.items() if k != "type"} != model:
        ctx.diff(fam + ":symbolic", case, impl, model)
    if R is None:
        # the numeric build must fail the same way
        try:
            getattr(M, "to_" + case["target"])(**red_kwargs(case, L, weight_at(case["w"], "1", case["num"])))
            ctx.violation("C16:subs-differs:reduce", case, "symbolic penalty raises %s, numeric penalty does not" % impl["err"])
        except Exception as e:
            if exc_name(e) != impl["err"]:
                ctx.violation("C16:subs-differs:reduce", case, "symbolic penalty raises %s, numeric %s" % (impl["err"], exc_name(e)))
        return
    for ci, (c, mc) in enumerate(zip(CS, m["at"])):
        before = snapshot(R)
        S = subs_form(R, c, form_index(case, ci), ctx)
        if snapshot(R) != before:
            ctx.violation("C16:subs-mutates", dict(case, c=c), "R.subs({lam: %s}) changed R" % c); return
        if S is R:
            ctx.violation("C16:subs-same-object", dict(case, c=c), "R.subs returned R itself"); return
        D = getattr(M, "to_" + case["target"])(**red_kwargs(case, L, weight_at(case["w"], c, case["num"])))
        try:
            sv = dict(terms=canon_matrix(S), type=type(S).__name__)
        except Exception as e:
            ctx.violation("C16:subs-differs:reduce", dict(case, c=c), "subs left a non-numeric coefficient: %s" % e); return
        dv = dict(terms=canon_matrix(D), type=type(D).__name__)
        ctx.count("subs-evaluations")
        if sv != dv:
            what = [k for k in sv if sv[k] != dv[k]]
            ctx.violation("C16:subs-differs:reduce", dict(case, c=c),
                          "to_%s(lam=X).subs({lam: %s}) differs from to_%s(lam=%s) in %s: subs=%s direct=%s" % (
                              case["target"], c, case["target"], c, what, {k: sv[k] for k in what}, {k: dv[k] for k in what}))
            return
        if len(sv["terms"]) < len(impl["sym"]):
            ctx.count("subs-dropped-a-vanishing-coefficient")
        if sv["terms"] != mc["subs"]:
            ctx.diff(fam + ":subs", dict(case, c=c), sv["terms"], mc["subs"])
        if dv["terms"] != mc["direct"]:
            ctx.diff(fam + ":direct", dict(case, c=c), dv["terms"], mc["direct"])
    if case.get("maint"):
        def build_numeric(c):
            return getattr(M, "to_" + case["target"])(**red_kwargs(case, L, weight_at(case["w"], c, case["num"]))), L
        maint_check(ctx, case, fam, R, L, build_numeric, lambda ci: m["at"][ci]["subs"], matrix=True)

def reduce_line(case, info):
    return {"op": "sym_reduce", "spin": case["kind"] in c01.SPIN, "target": case["target"], "terms": info["terms"],
            "mapping": info["mapping"], "n": info["n"], "deg": case["deg"], "menu": case["menu"], "w": case["w"],
            "pairs": case["pairs"] or [], "subs": CS}

def reduce_info(case):
    M, L = c01.build(case)
    return dict(M=M, L=L, terms=[[L.ids(k), fs(v)] for k, v in M.items()],
                mapping=[[L.ident(lab), int(i)] for lab, i in M.mapping.items()], n=int(M.num_binary_variables))

# ------------------------------------------------------------------ the check

def process(ctx, cases):
    nv = len(ctx.violations)
    _process(ctx, cases)
    for v in ctx.violations[nv:]:
        ctx.count("violation:" + v["signature"])

def _process(ctx, cases):
    seqs = [c for c in cases if c["family"] != "reduce"]
    reds = [c for c in cases if c["family"] == "reduce"]
    infos = [reduce_info(c) for c in reds]
    outs = common.run_driver([seq_model_line(c) for c in seqs] + [reduce_line(c, i) for c, i in zip(reds, infos)])
    for c, m in zip(seqs, outs[:len(seqs)]):
        run_seq_case(ctx, c, m)
    for c, i, m in zip(reds, infos, outs[len(seqs):]):
        run_reduce_case(ctx, c, m, i)

def grid_cons(rng, stride, offset):
    out, idx = [], 0
    for t in c02.TEMPLATES:
        for rel in c02.RELS:
            for lt in (True, False):
                for bm in c02.BMS[:-1]:
                    if idx % stride == offset:
                        out.append(cons_case(rng, (t, rel, lt, bm), idx))
                    idx += 1
    return out

def gen_cases(ctx):
    rng = ctx.rng
    thorough = ctx.tier == "thorough"
    cases = []
    # every (template, relation, log_trick, bounds mode) combination: all of them (thorough) or a seed-dependent third
    stride = 1 if thorough else 3
    cases += grid_cons(rng, stride, ctx.seed % stride)
    cases += [cons_case(rng, None, i) for i in range(ctx.scale(120, 3000))]
    tm = c06.tmpl_cases()
    en = c06.enum_cases(rng)
    lg = tm[::1 if thorough else 3] + en[(ctx.seed % 7)::(1 if thorough else 7)]
    lg += [c06.rand_case(rng) for _ in range(ctx.scale(120, 2500))]
    lg += [c06.rand_case(rng, rng.choice([2, 3])) for _ in range(ctx.scale(40, 800))]
    cases += [logic_case(rng, b, i) for i, b in enumerate(lg)]
    cases += [pcso_case(rng, i) for i in range(ctx.scale(150, 3000))]
    cases += [reduce_case(rng) for _ in range(ctx.scale(330, 6000))]
    mrng = random.Random(ctx.seed * 7919 + 16)       # its own stream: the cases above are the ones of earlier rounds
    for i, c in enumerate(cases):
        c["idx"] = i
        if i % 3 != 2:
            c["maint"] = gen_maint(mrng, i // 3 * 2 + i % 3, matrix=(c["family"] == "reduce"))
        if c["family"] != "reduce" and i % 4 == 1:
            c["pre" if (i // 4) % 2 == 0 or len(c["seq"]) < 2 else "mid"] = [MAINT_KEEP[(i // 8) % len(MAINT_KEEP)]]
    return cases

def check(ctx):
    cases = gen_cases(ctx)
    process(ctx, cases)
    for need in ("tag:eq-square", "tag:eq-special-and", "tag:le-special-sum1", "tag:le-special-unary", "tag:le-special-or",
                 "tag:le-special-xley", "tag:le-logslack", "tag:le-unaryslack", "tag:ne-twosided", "tag:ne-unsat",
                 "tag:lt-shift", "tag:eq-min0", "tag:eq-max0", "subs-dropped-a-vanishing-coefficient"):
        if ctx.hist.get(need, 0) < 1 and not ctx.violations and not ctx.diffs:
            raise Infra("coverage self-check failed: %s seen %d times" % (need, ctx.hist.get(need, 0)))
    if ctx.diffs and not ctx.violations:
        search(ctx)

def search(ctx):
    """failing-input search after a correspondence difference: the direct oracle (ii)+(iii) on the single steps of the
    disagreeing cases and on a fresh batch (the oracle ran on every case already; this widens the sample)"""
    extra = []
    for d in ctx.diffs[:40]:
        c = {k: v for k, v in d["case"].items() if k != "c"}
        if c.get("family") == "reduce":
            extra.append(c)
        else:
            for s in c["seq"]:
                extra.append(dict(c, seq=[s], obj=[]))
    rng = ctx.rng
    extra += [cons_case(rng, None, i) for i in range(200)] + [reduce_case(rng) for _ in range(200)]
    keep = list(ctx.diffs)
    process(ctx, extra)
    ctx.diffs = keep

def replay(ctx, payload):
    c = payload.get("case") or (payload.get("first_difference") or {}).get("case")
    if not c:
        ctx.notes.append("replay file has no case; re-running the full check")
        return check(ctx)
    c = {k: v for k, v in c.items() if k != "c"}
    process(ctx, [c])
