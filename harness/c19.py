"""C19 — copy / info round trips (model correspondence + oracle) and no-aliasing / no-mutation of arguments.

Families:
  heap      histories of API calls: the real sharing graph (identity of mutable containers) and the changed cells after
            every call vs the explicit-heap Lean model (T19.A/B/C), + the independent aliasing oracle — harness/c19h.py
  info      create_from_info(get_info(M)) vs the Lean model's createFromInfo(getInfo m), + direct oracle (incl. the exact
            type of every recorded constraint polynomial, value() and is_solution_valid() on all assignments)
  copy      M.copy() vs copyObj (same oracle, also for the copy constructor)
  unchanged every public function/method taking a model, dict or constraint polynomial: deep snapshot of every
            argument before / after
  alias     copy(), copy constructors and the getters mapping / reverse_mapping / variables / constraints:
            reachable mutable containers disjoint from the source; mutate either side, re-snapshot the other
"""
import itertools, warnings
from fractions import Fraction
from . import common
from .common import Labels, fs, exc_name, snapshot, ANC

CEXT = "plain"
RULE = ("random model objects of the ten types (three label realisations, stale bookkeeping, names, 0-3 constraints of "
        "all six relations with lam in {0,1,2}) round-tripped through get_info/create_from_info and copy(); plus one call of "
        "every public function/method that takes a model/dict/constraint argument with argument snapshots; plus aliasing "
        "probes on copies and getters; plus generated histories of 8-20 API calls over 1-4 objects (8 scripted openings: copy then "
        "mutate, receiver = argument, model arguments passed twice, update-induced sharing, getters, conversions/solvers/annealers, "
        "copy constructors, operators in place and not (a+a, a*=a, a-=a, a**=n, refresh, clear), sat gates, free utilities, random; then 3-7 random applicable calls) whose sharing graph and changed cells are compared with the "
        "explicit-heap model after every call. non-trivial = model with >=2 terms (info/copy) or a call whose argument has >=2 terms; "
        "distinct = distinct case JSON")
ASSUMPTIONS = ["'unchanged argument' is judged by value equality (dict ==, order-insensitive): the brute-force solvers "
               "pop and re-insert the offset key, which moves it to the end of the dict's iteration order",
               "the aliasing theorems (T19.A/B/C) are about the explicit-heap model Qv/Model/Heap.lean; that it says what the "
               "code does to the object graph is established by comparing the real identity graph and changed-cell set with "
               "its prediction after every call of the generated histories (testing); functions not modelled as heap "
               "transformers (simplify, pretty_str, problems/*) are covered by before/after snapshots only",
               "a mutable container = dict / list / set (and subclasses); attributes named _verif_* (the DESIGN §5 hook) are "
               "not part of the library's state"]

BOOL = ["QUBO", "PUBO", "PCBO", "QUBOMatrix", "PUBOMatrix"]
SPIN = ["QUSO", "PUSO", "PCSO", "QUSOMatrix", "PUSOMatrix"]
ALL = BOOL + SPIN
DEG2 = {"QUBO", "QUSO", "QUBOMatrix", "QUSOMatrix"}
MATRIX = {"QUBOMatrix", "QUSOMatrix", "PUBOMatrix", "PUSOMatrix"}
LABELLED = {"QUBO", "QUSO", "PUBO", "PUSO", "PCBO", "PCSO"}
CONSTRAINED = {"PCBO", "PCSO"}
RELS = ["eq", "ne", "lt", "le", "gt", "ge"]

def cls_of(name):
    import qubovert as qv
    return getattr(qv, name, None) or getattr(qv.utils, name)

def rand_terms(rng, n, deg2, nterms=None):
    d = {}
    for _ in range(nterms if nterms is not None else rng.randint(0, 5)):
        ln = rng.choice([0, 1, 1, 2, 2] if deg2 else [0, 1, 1, 2, 2, 3, 4])
        key = tuple(sorted(rng.sample(range(n), min(ln, n))))
        d[key] = rng.choice([-3, -2, -1, 1, 2, 3, Fraction(1, 2), Fraction(-3, 4)])
    return d

def build(rng, kind=None):
    """a real model object with history; returns (M, labels, case description)"""
    kind = kind or rng.choice(ALL)
    L = Labels("int" if kind in MATRIX else rng.choice(Labels.STYLES_X))
    n = rng.randint(1, 5)
    desc = {"kind": kind, "labels": L.style, "n": n, "steps": []}
    M = cls_of(kind)()
    terms = rand_terms(rng, n, kind in DEG2)
    for k, v in terms.items():
        M[L.key(k)] += v
        desc["steps"].append(["add", list(k), fs(v)])
    if rng.random() < 0.3 and n >= 2:           # stale bookkeeping: a term that appears and cancels
        k = tuple(sorted(rng.sample(range(n), rng.randint(1, 2))))
        if M[L.key(k)] == 0:
            M[L.key(k)] += 5; M[L.key(k)] -= 5
            desc["steps"].append(["cancel", list(k)])
    if rng.random() < 0.5:
        # any hashable object may be a name; falsy ones (the name of boolean_var(0) is 0) must survive a round trip too
        M.name = rng.choice(["m", "model_7", "x y", "m", "x y", 0, "", 0.0, False, (), 1, ("a", 2), -1])
        desc["name"] = repr(M.name)
    if kind in CONSTRAINED:
        for _ in range(rng.choice([0, 1, 1, 2, 3])):
            rel = rng.choice(RELS)
            P = rand_terms(rng, n, False, rng.randint(1, 3))
            lam = rng.choice([0, 1, 2])
            lt = True if kind == "PCSO" else rng.random() < 0.5   # unary slack on spin models explodes (2^k terms)
            kw = {"lam": lam}
            if rel != "eq":
                kw["log_trick"] = lt
            with warnings.catch_warnings():
                warnings.simplefilter("ignore")
                getattr(M, "add_constraint_%s_zero" % rel)({L.key(k): v for k, v in P.items()}, **kw)
            desc["steps"].append(["cons", rel, [[list(k), fs(v)] for k, v in P.items()], lam, lt])
    return M, L, desc

def terms_ordered(d, L):
    # ids sorted inside a key: "__a10" < "__a2" as strings while ANC+2 < ANC+10 (DESIGN §3.1)
    return [[sorted(L.ids(k)), fs(v)] for k, v in d.items()]

def observe(M, L):
    kind = type(M).__name__
    o = {"kind": kind, "terms": terms_ordered(M, L), "name": M.name if isinstance(M.name, str) and not M.name.startswith("repr:") else (None if M.name is None else "repr:" + repr(M.name)),
         "mapping": [], "anc": 0, "cons": [], "ckinds": []}
    if kind in LABELLED:
        o["mapping"] = [[L.ident(k), v] for k, v in M._mapping.items()]
    if kind in CONSTRAINED:
        o["anc"] = M.num_ancillas
        o["cons"] = [[r, [terms_ordered(p, L) for p in ps]] for r, ps in M._constraints.items()]
        o["ckinds"] = [[r, [type(p).__name__ for p in ps]] for r, ps in M._constraints.items()]
    return o

# ------------------------------------------------------------------ info / copy

def behaves_differently(M, C, what):
    """M and C (a round-trip copy / copy() / copy constructor result of M) must be the same model: the exact type of
    every recorded constraint polynomial, and — for small models — `value` and `is_solution_valid` on every assignment of
    the variables (ancillas included; +-1 for spin models).  Returns a description of the first difference or None."""
    kind = type(M).__name__
    if kind in CONSTRAINED:
        mc, cc = M._constraints, C._constraints
        if list(mc) != list(cc) or any(len(mc[r]) != len(cc[r]) for r in mc):
            return "%s: recorded constraints are grouped differently" % what
        for r in mc:
            for i, (p, q) in enumerate(zip(mc[r], cc[r])):
                if type(p) is not type(q):
                    return "%s: constraint %r #%d is a %s, the model's is a %s" % (what, r, i, type(q).__name__, type(p).__name__)
                if dict(p) != dict(q):
                    return "%s: constraint %r #%d has different terms" % (what, r, i)
    labels = set(M._variables) | {x for k in M for x in k}
    if kind in CONSTRAINED:
        labels |= {x for ps in M._constraints.values() for p in ps for k in p for x in k}
    labels = sorted(labels, key=repr)
    if kind in MATRIX and labels:
        labels = list(range(max(labels) + 1))
    if len(labels) > 7:
        return None
    vals = (1, -1) if kind in SPIN else (0, 1)
    for xs in itertools.product(vals, repeat=len(labels)):
        x = dict(zip(labels, xs))
        try:
            a = (M.value(x), M.is_solution_valid(x))
        except Exception as e:      # the original itself cannot be evaluated here: nothing to compare
            continue
        try:
            b = (C.value(x), C.is_solution_valid(x))
        except Exception as e:
            return "%s: value / is_solution_valid(%r) raises %s on the copy, gives %r on the model" % (what, x, type(e).__name__, a)
        if a != b:
            return "%s: (value, is_solution_valid)(%r) is %r on the model and %r on the copy" % (what, x, a, b)
    return None

def info_cases(ctx, N):
    from qubovert.utils import get_info, create_from_info
    lines, impls, cases = [], [], []
    for i in range(N):
        M, L, desc = build(ctx.rng, ALL[i % len(ALL)] if i < 4 * len(ALL) else None)
        before = snapshot(M)
        try:
            info = get_info(M)
            M2 = create_from_info(info)
            impl = observe(M2, L)
            bad = None
            if type(M2) is not type(M): bad = "type differs"
            elif dict(M2) != dict(M): bad = "terms differ"
            elif type(M2.name) is not type(M.name) or M2.name != M.name: bad = "name differs: %r, the model's is %r" % (M2.name, M.name)
            elif get_info(M2) != info: bad = "get_info of the copy differs from get_info(M)"
            elif type(M).__name__ in LABELLED and (M2.mapping != M.mapping or M2.reverse_mapping != M.reverse_mapping):
                bad = "mapping differs"
            elif type(M).__name__ in CONSTRAINED and (M2.num_ancillas != M.num_ancillas or M2.constraints != M.constraints):
                bad = "ancilla count / constraints differ"
            elif snapshot(M) != before: bad = "get_info/create_from_info modified the model"
            else: bad = behaves_differently(M, M2, "create_from_info(get_info(M))")
        except Exception as e:
            impl, bad = {"err": exc_name(e)}, "round trip raised %r" % (e,)
        case = {"family": "info", "desc": desc}
        cases.append((case, bad)); impls.append(impl)
        lines.append({"op": "info", "m": observe(M, L)})
        # copy
        try:
            C = M.copy()
            cimpl = observe(C, L)
            cbad = None
            if type(C) is not type(M) or dict(C) != dict(M): cbad = "copy differs in type/terms"
            elif type(M).__name__ in CONSTRAINED and (C.num_ancillas != M.num_ancillas or C.constraints != M.constraints):
                cbad = "copy differs in ancilla count / constraints"
            else:
                cbad = behaves_differently(M, C, "copy()") or behaves_differently(M, type(M)(M), "the copy constructor")
        except Exception as e:
            cimpl, cbad = {"err": exc_name(e)}, "copy raised %r" % (e,)
        cases.append(({"family": "copy", "desc": desc}, cbad)); impls.append(cimpl)
        lines.append({"op": "copy", "m": observe(M, L)})
    models = common.run_driver(lines)
    for (case, bad), impl, m in zip(cases, impls, models):
        if case["family"] == "copy" and "mapping" in impl and "mapping" in m:
            # the enumeration order of a copy's mapping depends on ordering_key of the concrete ancilla strings
            # ("__a5" < "v002", "__a10" < "__a2"), which the id map does not preserve: compare its domain and
            # that it is a bijection onto 0..n-1 (DESIGN §3.1)
            for o in (impl, m):
                o["mapping_is_enumeration"] = sorted(v for _, v in o["mapping"]) == list(range(len(o["mapping"])))
                o["mapping"] = sorted(k for k, _ in o["mapping"])
        nt = sum(1 for s in case["desc"]["steps"] if s[0] == "add") >= 2
        ctx.case(case, nt); ctx.count(case["family"] + ":" + case["desc"]["kind"]); ctx.traces += 1
        if impl != m:
            ctx.diff(case["family"], case, impl, m)
        if bad:
            ctx.violation("C19:" + case["family"], case, bad)

# ------------------------------------------------------------------ arguments unchanged

SHAPE = ["normal"]      # set by unchanged(): "normal" | "offset" (only the constant term) | "empty"

def mk(rng, kind, n=3, nterms=3):
    L = Labels("int")
    if SHAPE[0] == "offset":
        d = {(): rng.choice([5, -2, Fraction(3, 2)])}
    elif SHAPE[0] == "empty":
        d = {}
    elif SHAPE[0] == "zeroconst":
        # a plain dict can hold an explicit zero constant term (model types drop zeros on construction)
        d = rand_terms(rng, n, kind in DEG2 or kind == "dict2", nterms)
        d = {k: v for k, v in d.items() if k}
        if not d:
            d[(0,)] = 1
        d[()] = 0
    elif SHAPE[0] == "onlyzero":
        d = {(): 0}
    else:
        d = rand_terms(rng, n, kind in DEG2 or kind == "dict2", nterms)
        if not any(k for k in d):
            d[(0,)] = 1
    obj = dict(d) if kind.startswith("dict") else cls_of(kind)(d)
    if SHAPE[0] == "stale" and not kind.startswith("dict"):
        # a model object whose highest-labelled variable cancelled after construction: the cached `variables`,
        # `num_binary_variables`, mapping / max_index are now upper bounds (a legal state, C14) — a callee must not "repair"
        # the caller's object (e.g. by refresh()) any more than it may change its terms
        labs = sorted({i for k in obj for i in k})
        if labs:
            top = labs[-1]
            for k in [k for k in list(obj) if top in k]:
                obj[k] -= obj[k]
            if not any(k for k in obj):
                obj[(labs[0],)] += 1
    return obj

def unchanged_calls(rng):
    """yield (name, thunk, [arguments to watch])"""
    import qubovert as qv
    from qubovert import utils, sat, sim
    for kind in ALL + ["dict", "dict2"]:
        spin = kind in SPIN
        deg2 = kind in DEG2 or kind == "dict2"
        for fam in (["bool", "spin"] if kind.startswith("dict") else ["spin" if spin else "bool"]):
            sp = fam == "spin"
            A = mk(rng, kind); B = mk(rng, kind if not kind.startswith("dict") else ("PUSO" if sp else "PUBO"))
            tag = kind + ":" + fam
            yield tag + ":pubo_to_puso/puso_to_pubo", (lambda A=A, sp=sp: utils.puso_to_pubo(A) if sp else utils.pubo_to_puso(A)), [A]
            if deg2:
                yield tag + ":qubo_to_quso/quso_to_qubo", (lambda A=A, sp=sp: utils.quso_to_qubo(A) if sp else utils.qubo_to_quso(A)), [A]
            sol = {"bool": {0: 1, 1: 0, 2: 1}, "spin": {0: -1, 1: 1, 2: -1}}[fam]
            vf = {(False, False): utils.pubo_value, (False, True): utils.qubo_value,
                  (True, False): utils.puso_value, (True, True): utils.quso_value}[(sp, deg2)]
            yield tag + ":value", (lambda A=A, sol=sol, vf=vf: vf(sol, A)), [A, sol]
            sv = {(False, False): utils.solve_pubo_bruteforce, (False, True): utils.solve_qubo_bruteforce,
                  (True, False): utils.solve_puso_bruteforce, (True, True): utils.solve_quso_bruteforce}[(sp, deg2)]
            yield tag + ":solve_bruteforce", (lambda A=A, sv=sv: sv(A)), [A]
            yield tag + ":solve_bruteforce_all", (lambda A=A, sv=sv: sv(A, all_solutions=True)), [A]
            ex = utils.approximate_puso_extrema if sp else utils.approximate_pubo_extrema
            yield tag + ":extrema", (lambda A=A, ex=ex: ex(A)), [A]
            an = {(False, False): sim.anneal_pubo, (False, True): sim.anneal_qubo,
                  (True, False): sim.anneal_puso, (True, True): sim.anneal_quso}[(sp, deg2)]
            init = dict(sol)
            yield tag + ":anneal", (lambda A=A, an=an, init=init: an(A, num_anneals=2, anneal_duration=5, seed=3, initial_state=init)), [A, init]
            yield tag + ":anneal_temperature_range", (lambda A=A, sp=sp: sim.anneal_temperature_range(A, spin=sp)), [A]
            nodes, conn, vals = {0, 1}, {2: 1}, {0: 1}
            yield tag + ":subgraph", (lambda A=A, nodes=nodes, conn=conn: utils.subgraph(A, nodes, conn)), [A, nodes, conn]
            yield tag + ":subvalue", (lambda A=A, vals=vals: utils.subvalue(vals, A)), [A, vals]
            yield tag + ":normalize", (lambda A=A: utils.normalize(A, 2)), [A]
            if not kind.startswith("dict"):
                yield tag + ":get_info", (lambda A=A: utils.get_info(A)), [A]
                info = utils.get_info(A)
                yield tag + ":create_from_info", (lambda info=info: utils.create_from_info(info)), [info]
                yield tag + ":copy", (lambda A=A: A.copy()), [A]
                yield tag + ":method solve_bruteforce", (lambda A=A: A.solve_bruteforce()), [A]
                yield tag + ":method value", (lambda A=A, sol=sol: A.value(sol)), [A, sol]
                yield tag + ":method subgraph", (lambda A=A, nodes=nodes, conn=conn: A.subgraph(nodes, conn)), [A, nodes, conn]
                yield tag + ":method subvalue", (lambda A=A, vals=vals: A.subvalue(vals)), [A, vals]
                yield tag + ":A+B", (lambda A=A, B=B: A + B), [A, B]
                yield tag + ":A-B", (lambda A=A, B=B: A - B), [A, B]
                yield tag + ":A*2", (lambda A=A: A * 2), [A]
                yield tag + ":-A", (lambda A=A: -A), [A]
                yield tag + ":A/2", (lambda A=A: A / 2), [A]
                for other in ALL:
                    if (other in SPIN) == spin:
                        yield tag + ":" + other + "(A)", (lambda A=A, other=other: try_call(cls_of(other), A)), [A]
                if not deg2:
                    yield tag + ":A*B", (lambda A=A, B=B: A * B), [A, B]
                    yield tag + ":A**2", (lambda A=A: A ** 2), [A]
                if kind in LABELLED:
                    for m in ("to_pubo", "to_puso", "to_qubo", "to_quso", "to_enumerated"):
                        yield tag + ":" + m, (lambda A=A, m=m: getattr(A, m)()), [A]
                    s2 = [sol[i] for i in range(3)]
                    yield tag + ":convert_solution", (lambda A=A, s2=s2, sp=sp: A.convert_solution(s2, spin=sp)), [A, s2]
                if not spin:
                    for g in ("AND", "OR", "XOR", "NAND", "NOR", "XNOR"):
                        if not deg2:
                            yield tag + ":sat." + g, (lambda A=A, B=B, g=g: getattr(sat, g)(A, B, "z")), [A, B]
                    yield tag + ":sat.NOT", (lambda A=A: sat.NOT(A)), [A]
                    yield tag + ":sat.BUFFER", (lambda A=A: sat.BUFFER(A)), [A]
            # constraint polynomials passed to PCBO / PCSO
            Hc = qv.PCSO if sp else qv.PCBO
            for rel in RELS:
                for lt in (True, False):
                    P = mk(rng, kind)
                    bounds = (-20, 20)
                    kw = dict(lam=2) if rel == "eq" else dict(lam=2, log_trick=lt)
                    yield tag + ":add_constraint_%s_zero" % rel, (lambda P=P, rel=rel, kw=kw, Hc=Hc: quiet(getattr(Hc(), "add_constraint_%s_zero" % rel), P, **kw)), [P]
                    yield tag + ":add_constraint_%s_zero+bounds" % rel, (lambda P=P, rel=rel, kw=kw, Hc=Hc, bounds=bounds: quiet(getattr(Hc(), "add_constraint_%s_zero" % rel), P, bounds=bounds, **kw)), [P, bounds]
            if not sp and not kind.startswith("dict") and not deg2:
                for g in ("AND", "OR", "XOR", "NAND", "NOR", "XNOR"):
                    X, Y, Z = mk01(rng, kind), mk01(rng, kind), mk01(rng, kind)
                    yield tag + ":add_constraint_" + g, (lambda X=X, Y=Y, g=g: getattr(qv.PCBO(), "add_constraint_" + g)(X, Y, lam=2)), [X, Y]
                    yield tag + ":add_constraint_eq_" + g, (lambda X=X, Y=Y, Z=Z, g=g: getattr(qv.PCBO(), "add_constraint_eq_" + g)(Z, X, Y, lam=2)), [X, Y, Z]
                X, Y = mk01(rng, kind), mk01(rng, kind)
                yield tag + ":add_constraint_NOT", (lambda X=X: qv.PCBO().add_constraint_NOT(X)), [X]
                yield tag + ":add_constraint_BUFFER", (lambda X=X: qv.PCBO().add_constraint_BUFFER(X)), [X]
                yield tag + ":add_constraint_eq_NOT", (lambda X=X, Y=Y: qv.PCBO().add_constraint_eq_NOT(X, Y)), [X, Y]
                yield tag + ":add_constraint_eq_BUFFER", (lambda X=X, Y=Y: qv.PCBO().add_constraint_eq_BUFFER(X, Y)), [X, Y]
            if not kind.startswith("dict"):
                H2 = cls_of(kind)()
                yield tag + ":update", (lambda A=A, H2=H2: H2.update(A)), [A]
                yield tag + ":iadd-arg", (lambda A=A, B=B: iadd(B.copy(), A)), [A]
                if not deg2:
                    yield tag + ":imul-arg", (lambda A=A, B=B: imul(B.copy(), A)), [A]

def mk01(rng, kind):
    """a {0,1}-valued model of the given boolean kind: a product of variables"""
    k = tuple(sorted(rng.sample(range(3), rng.randint(1, 2))))
    return cls_of(kind)({k: 1})

def try_call(f, *a):
    try:
        return f(*a)
    except KeyError:
        return None

def quiet(f, *a, **k):
    with warnings.catch_warnings():
        warnings.simplefilter("ignore")
        return f(*a, **k)

def iadd(x, y):
    x += y; return x

def imul(x, y):
    x *= y; return x

def unchanged(ctx):
    for shape in ("normal", "offset", "empty", "zeroconst", "onlyzero", "stale"):
        SHAPE[0] = shape
        _unchanged_shape(ctx, shape)
    SHAPE[0] = "normal"

def _unchanged_shape(ctx, shape):
    for name, thunk, watch in unchanged_calls(ctx.rng):
        name = name if shape == "normal" else name + " [" + shape + " model]"
        before = [snapshot(w, ordered=False) for w in watch]
        err = None
        try:
            quiet(thunk)
        except Exception as e:
            err = exc_name(e)
        case = {"family": "unchanged", "call": name, "args": [repr(b)[:200] for b in before]}
        ctx.case(case, True); ctx.count("unchanged:" + name.split(":", 2)[2].split("(")[0].split(" ")[0])
        after = [snapshot(w, ordered=False) for w in watch]
        if after != before:
            i = [a != b for a, b in zip(after, before)].index(True)
            ctx.violation("C19:argument-mutated", dict(case, after=repr(after[i])[:300]),
                          "%s mutated its argument #%d" % (name, i))
        if err in ("other",):
            ctx.notes.append("call %s raised an unexpected exception kind" % name)

# ------------------------------------------------------------------ aliasing

def reach(o, acc, depth=0):
    """ids of mutable containers reachable from o"""
    if depth > 8: return acc
    if isinstance(o, (dict, list, set)):
        if id(o) in acc: return acc
        acc[id(o)] = type(o).__name__
        if isinstance(o, dict):
            for k, v in o.items():
                reach(k, acc, depth + 1); reach(v, acc, depth + 1)
        else:
            for v in o: reach(v, acc, depth + 1)
    elif isinstance(o, (tuple, frozenset)):
        for v in o: reach(v, acc, depth + 1)
    if hasattr(o, "__dict__") and not isinstance(o, type):
        for v in vars(o).values():
            reach(v, acc, depth + 1)
    return acc

def mutate(o):
    """mutate a result in place, every way that applies"""
    import qubovert as qv
    if isinstance(o, dict):
        for v in list(o.values()):
            if isinstance(v, (dict, list, set)): mutate(v)
        if type(o) is dict:
            o["__new__"] = 12345
            for k in list(o)[:1]: o.pop(k)
        else:
            try:
                o[(0,)] += 7; o[(1, 2)] += 3 if type(o).__name__ not in MATRIX | DEG2 else 0
            except Exception:
                pass
            for a in ("_mapping", "_reverse_mapping", "_constraints", "_variables"):
                if hasattr(o, a):
                    x = getattr(o, a)
                    if isinstance(x, dict):
                        for v in x.values():
                            if isinstance(v, list): v.append("junk")
                        x["__junk__"] = 1
                    elif isinstance(x, set): x.add("__junk__")
    elif isinstance(o, list):
        for v in o:
            if isinstance(v, (dict, list, set)): mutate(v)
        o.append("junk")
    elif isinstance(o, set):
        o.add("__junk__")

def alias(ctx, N):
    import qubovert as qv
    for i in range(N):
        M, L, desc = build(ctx.rng, ALL[i % len(ALL)])
        kind = type(M).__name__
        getters = [("copy", lambda M=M: M.copy()), ("ctor", lambda M=M: type(M)(M)), ("pos", lambda M=M: +M)]
        if kind in LABELLED:
            getters += [("mapping", lambda M=M: M.mapping), ("reverse_mapping", lambda M=M: M.reverse_mapping)]
        getters += [("variables", lambda M=M: M.variables)]
        if kind in CONSTRAINED:
            getters += [("constraints", lambda M=M: M.constraints)]
            if kind == "PCBO":
                getters += [("PCBO(PCBO)", lambda M=M: qv.PCBO(M))]
        for name, g in getters:
            src_ids = reach(M, {})
            before = snapshot(M)
            R = g()
            shared = set(reach(R, {})) & set(src_ids)
            case = {"family": "alias", "getter": name, "desc": desc}
            ctx.case(case, len(M) >= 2); ctx.count("alias:" + name)
            if shared:
                ctx.violation("C19:alias-shared-container", case, "%s of a %s shares %d mutable container(s) with the model" % (name, kind, len(shared)))
                continue
            mutate(R)
            if snapshot(M) != before:
                ctx.violation("C19:alias-mutation-leaks", case, "mutating the result of %s changed the model" % name)
                continue
            # other direction: mutate the model, the earlier result must not change
            R2 = g(); b2 = snapshot(R2)
            M2 = M.copy()
            try:
                M[(0,)] += 11
            except Exception:
                pass
            if snapshot(R2) != b2:
                ctx.violation("C19:alias-mutation-leaks", case, "mutating the model changed an earlier result of %s" % name)
        # constraint polynomial recorded, then mutated by the caller
        if kind in CONSTRAINED:
            H = type(M)()
            P = (qv.PUSO if kind == "PCSO" else qv.PUBO)({(0,): 1, (1,): 1, (): -1})
            quiet(H.add_constraint_le_zero, P, lam=1)
            rec = snapshot(H)
            P[(0, 1)] += 4; P[(5,)] += 1
            case = {"family": "alias", "getter": "recorded-constraint", "desc": {"kind": kind}}
            ctx.case(case, True); ctx.count("alias:recorded-constraint")
            if snapshot(H) != rec:
                ctx.violation("C19:alias-recorded-constraint", case, "mutating P after add_constraint_le_zero(P) changed the model")
            d = {(0,): 1, (1, 2): 2}
            H3 = type(M)(d); rec = snapshot(H3); d[(7,)] = 1
            if snapshot(H3) != rec:
                ctx.violation("C19:alias-ctor-dict", case, "mutating the dict after construction changed the model")

def info_symbolic(ctx, N):
    """round trips of models whose terms / recorded constraints carry sympy-symbol coefficients (oracle only: the
    rational Lean model has no symbols).  Constraints with symbolic coefficients need explicit bounds when added;
    create_from_info re-adds them with lam=0, which must not need bounds."""
    import sympy
    import qubovert as qv
    from qubovert.utils import get_info, create_from_info
    a, w = sympy.Symbol("a"), sympy.Symbol("w")
    rng = ctx.rng
    for i in range(N):
        kind = ["PCBO", "PCSO", "PUBO", "QUSO"][i % 4]
        M = cls_of(kind)({(0,): 1, (0, 1): a if i % 3 else 2, (): w if i % 5 == 0 else 1})
        desc = {"kind": kind, "symbolic_terms": True, "cons": []}
        if kind in CONSTRAINED:
            for rel in rng.sample(RELS, rng.randint(1, 3)):
                P = {(0,): a, (1,): 1, (): -1} if rng.random() < 0.7 else {(0,): 1, (1,): 1, (): -1}
                kw = dict(lam=rng.choice([0, 1, w]), bounds=(-3, 3))
                if rel != "eq":
                    kw["log_trick"] = True
                quiet(getattr(M, "add_constraint_%s_zero" % rel), P, **kw)
                desc["cons"].append([rel, "symbolic" if (0,) in P and P[(0,)] is a else "numeric", str(kw["lam"])])
        case = {"family": "info-symbolic", "desc": desc}
        ctx.case(case, True); ctx.count("info-symbolic:" + kind)
        bad = None
        try:
            info = get_info(M)
            M2 = create_from_info(info)
            if type(M2) is not type(M) or dict(M2) != dict(M): bad = "type/terms differ"
            elif get_info(M2) != info: bad = "get_info of the copy differs from get_info(M)"
        except Exception as e:
            bad = "create_from_info(get_info(M)) raised %s: %s" % (type(e).__name__, str(e)[:120])
        if bad:
            ctx.violation("C19:info-symbolic", case, bad)

def check(ctx):
    from . import c19h
    c19h.check(ctx, ctx.scale(360, 3600))
    info_cases(ctx, ctx.scale(300, 3000))
    info_symbolic(ctx, ctx.scale(60, 400))
    for _ in range(ctx.scale(1, 5)):
        unchanged(ctx)
    alias(ctx, ctx.scale(60, 600))

def replay(ctx, payload):
    case = payload.get("case") or (payload.get("first_difference") or {}).get("case") or {}
    if case.get("family") == "heap":
        from . import c19h
        return c19h.replay(ctx, case)
    ctx.notes.append("C19 replays re-run the whole (deterministic, seeded) check; the stored case names the failing call")
    check(ctx)
