"""C18 — substitution and scaling utilities preserve the represented function (correspondence + oracle).

Families:
  subvalue   subvalue(values, G) / G.subvalue(values) on the ten model types, DictArithmetic and raw dicts
  subgraph   subgraph(G, nodes, connections) / G.subgraph(...)
  normalize  normalize(D, value) (function) and D.normalize(value) (method, in place)
  symbolic   subvalue / subgraph with sympy symbols among the substituted values; compared after numeric
             substitution on both sides (harness only: the theorems are about rational values)
  malformed  non-tuple keys (ValueError), empty / all-zero dicts for normalize, method on a builtin dict
"""
import itertools, json
from fractions import Fraction
from . import common
from .common import Labels, fs, exc_name, snapshot

CEXT = "plain"
RULE = ("G: 0-6 terms over <=6 labels (canonical keys for the ten model types, raw unsorted/repeated keys for "
        "dict/DictArithmetic), dyadic coefficients as int/Fraction/float; values/connections over random label subsets "
        "(also labels absent from G) in {0,1}, {+-1} or small dyadics; nodes as set/list/tuple/frozenset/dict; "
        "normalize with value in {1,2,1/2,-1,3/2,-2,3,0}. Non-trivial: subvalue/subgraph with >=2 terms and a key that "
        "contains a substituted (outside) label; normalize with >=2 terms of different magnitude. distinct = distinct case JSON")
ASSUMPTIONS = ["coefficients and substituted values are restricted to dyadic rationals (np.prod returns floats; IEEE "
               "arithmetic is exact on them); normalize additionally runs with arbitrary Fractions",
               "symbolic substituted values are exercised by the harness only (sympy), not by the theorems"]

BOOL_KINDS = ["QUBO", "PUBO", "PCBO", "QUBOMatrix", "PUBOMatrix"]
SPIN_KINDS = ["QUSO", "PUSO", "PCSO", "QUSOMatrix", "PUSOMatrix"]
DICTS = ["dict", "DictArithmetic"]
TYPES = DICTS + BOOL_KINDS + SPIN_KINDS
DEG2 = {"QUBO", "QUSO", "QUBOMatrix", "QUSOMatrix"}
MATRIX = {"QUBOMatrix", "QUSOMatrix", "PUBOMatrix", "PUSOMatrix"}
# signature of the (repaired) defect `D.normalize(0)` -> RuntimeError; normalize(0) on non-empty models stays in the
# generated stream and in `all_types_cases` as regression input, and the oracle reports a relapse under this signature
KNOWN_METHOD_ZERO = "C18:normalize-method-zero-value"


def cls_of(name):
    if name == "dict":
        return dict
    import qubovert as qv
    from qubovert import utils
    return getattr(qv, name, None) or getattr(utils, name)

# ------------------------------------------------------------------ generation

DY_INT = ["-3", "-2", "-1", "1", "2", "3", "4"]
DY_FRAC = ["1/2", "-1/2", "3/2", "-3/4", "5/8", "1/4", "-5/2"]
NONDY = ["1/3", "-2/3", "5/7", "7/5", "-1/6"]


def gen_coef(rng, zero_ok=False):
    r = rng.random()
    if zero_ok and r < 0.08:
        return "0"
    return rng.choice(DY_INT) if r < 0.65 else rng.choice(DY_FRAC)


def gen_G(rng, ty, n, zero_ok=False, minterms=0):
    """distinct keys; canonical (sorted, duplicate-free, <=2 labels for degree-2 types) for the model types"""
    seen, out = set(), []
    nt = rng.randint(minterms, 6) if rng.random() > 0.06 else minterms
    for _ in range(nt):
        if ty in DICTS:
            ln = rng.choice([0, 1, 1, 2, 2, 3, 4])
            key = [rng.randrange(n) for _ in range(ln)]
        else:
            ln = rng.choice([0, 1, 1, 2, 2, 2] if ty in DEG2 else [0, 1, 1, 2, 2, 3, 3, 4])
            key = sorted(rng.sample(range(n), min(ln, n)))
        if tuple(key) in seen:
            continue
        seen.add(tuple(key))
        out.append([key, gen_coef(rng, zero_ok and ty == "dict")])
    return out


def gen_value(rng, dom):
    if dom == "bool":
        return rng.choice(["0", "1"])
    if dom == "spin":
        return rng.choice(["1", "-1"])
    return rng.choice(["0", "1", "-1", "2", "-2", "3", "1/2", "-1/2", "3/2", "-3/4", "1/4"])


def gen_assoc(rng, pool, dom, p_each):
    return [[i, gen_value(rng, dom)] for i in pool if rng.random() < p_each]


def base_case(rng, family, ty=None):
    ty = ty or rng.choice(TYPES)
    n = rng.randint(2, 6)
    return {"family": family, "ty": ty, "n": n,
            "labels": "int" if ty in MATRIX else rng.choice(Labels.STYLES_X),
            "num": rng.choice(["int", "frac", "float"]), "vnum": rng.choice(["int", "frac", "float", "mixed"])}


def dom_of(rng, ty):
    r = rng.random()
    if r < 0.4:
        return "dyadic"
    if ty in SPIN_KINDS:
        return "spin" if r < 0.85 else "bool"
    if ty in BOOL_KINDS:
        return "bool" if r < 0.85 else "spin"
    return rng.choice(["bool", "spin"])


def subvalue_case(rng, ty=None):
    c = base_case(rng, "subvalue", ty)
    c["g"] = gen_G(rng, c["ty"], c["n"], zero_ok=True)
    pool = list(range(c["n"] + 2))           # two labels that never occur in G
    rng.shuffle(pool)
    c["vals"] = gen_assoc(rng, pool, dom_of(rng, c["ty"]), rng.choice([0.0, 0.3, 0.5, 0.5, 0.8, 1.0]))
    c["via"] = "method" if (c["ty"] != "dict" and rng.random() < 0.4) else "function"
    return c


def subgraph_case(rng, ty=None):
    c = base_case(rng, "subgraph", ty)
    c["g"] = gen_G(rng, c["ty"], c["n"], zero_ok=True)
    pool = list(range(c["n"] + 2))
    rng.shuffle(pool)
    c["nodes"] = [i for i in pool if rng.random() < rng.choice([0.3, 0.5, 0.7])]
    c["nodes_as"] = rng.choice(["set", "set", "set", "list", "tuple", "frozenset", "dict"])
    if rng.random() < 0.2:
        c["conn"] = None
    else:                                    # connections may also (uselessly) mention nodes
        c["conn"] = gen_assoc(rng, pool, dom_of(rng, c["ty"]), rng.choice([0.3, 0.6, 1.0]))
    c["via"] = "method" if (c["ty"] != "dict" and rng.random() < 0.4) else "function"
    return c


def pow2(f):
    f = abs(Fraction(f))
    return f != 0 and (f.numerator & (f.numerator - 1)) == 0 and (f.denominator & (f.denominator - 1)) == 0


def normalize_case(rng, ty=None):
    c = base_case(rng, "normalize", ty)
    c["g"] = gen_G(rng, c["ty"], c["n"], zero_ok=True, minterms=0 if rng.random() < 0.05 else 1)
    c["c"] = rng.choice(["1", "1", "1", "2", "1/2", "-1", "3/2", "-2", "3", "1/4"] + (["0"] if rng.random() < 0.25 else []))
    c["default"] = c["c"] == "1" and rng.random() < 0.5           # call without the `value` argument
    c["via"] = "method" if (c["ty"] != "dict" and rng.random() < 0.5) else "function"
    if rng.random() < 0.3:                                         # arbitrary rationals, exact Fractions throughout
        c["g"] = [[k, rng.choice(DY_INT + DY_FRAC + NONDY)] for k, _ in c["g"]]
        c["c"] = rng.choice([c["c"], "2/3", "-5/7"])
        c["default"] = False
        c["num"] = "frac"
    mx = max([abs(Fraction(v)) for _, v in c["g"]] or [0])
    if c["num"] != "frac" and not pow2(mx):
        c["num"] = "frac"                                          # value / max would round
    return c


def malformed_cases(rng, count):
    out = []
    for _ in range(count):
        r = rng.random()
        if r < 0.55:
            c = (subvalue_case if rng.random() < 0.5 else subgraph_case)(rng, rng.choice(DICTS))
            c["family"] = "malformed"; c["op"] = "subvalue" if "vals" in c else "subgraph"
            c["bad_at"] = rng.randint(0, len(c["g"]))              # a non-tuple key inserted at this position
            c["bad_kind"] = rng.choice(["label", "str", "frozenset"])
            c["labels"] = rng.choice(["int", "str", "mixed"])
        elif r < 0.8:
            c = normalize_case(rng, "dict" if rng.random() < 0.5 else rng.choice(TYPES))
            c["family"] = "malformed"; c["op"] = "normalize"
            # empty (ValueError for the function, no-op for the method) or, for a builtin dict, all-zero values
            c["g"] = [] if (rng.random() < 0.4 or c["ty"] != "dict") else [[k, "0"] for k, _ in c["g"]]
            c["num"] = rng.choice(["int", "frac", "float"])
        else:
            c = normalize_case(rng, "dict")
            c["family"] = "malformed"; c["op"] = "normalize"; c["via"] = "method"
        out.append(c)
    return out


def symbolic_case(rng):
    c = (subvalue_case if rng.random() < 0.55 else subgraph_case)(rng)
    c["op"] = c["family"]; c["family"] = "symbolic"
    c["g"] = gen_G(rng, c["ty"], c["n"], minterms=2)
    key = "vals" if c["op"] == "subvalue" else "conn"
    if not c.get(key):
        pool = list(range(c["n"])); rng.shuffle(pool)
        c[key] = gen_assoc(rng, pool, "dyadic", 0.6) or [[pool[0], "2"]]
    # each substituted value becomes symbol / multiple of a symbol / stays numeric; two symbols a, b
    c["sym"] = [rng.choice(["a", "b", "2a", "a", "num"]) for _ in c[key]]
    if all(s == "num" for s in c["sym"]):
        c["sym"][0] = "a"
    c["symvals"] = {"a": gen_value(rng, "dyadic"), "b": gen_value(rng, "dyadic")}
    c["num"] = rng.choice(["int", "float"]); c["vnum"] = "int"
    return c

# ------------------------------------------------------------------ implementation side


def num_of(s, style):
    f = Fraction(s)
    dy = (f.denominator & (f.denominator - 1)) == 0
    if style == "float" and dy:
        return float(f)
    if f.denominator == 1 and style != "frac":
        return int(f)
    return f


def vstyle(c, idx):
    s = c.get("vnum", "int")
    return ("int", "frac", "float")[idx % 3] if s == "mixed" else s


def build_G(c, L):
    d = {}
    items = [(L.key(k), num_of(v, c["num"])) for k, v in c["g"]]
    if "bad_at" in c:
        bad = {"label": L.lab(0), "str": "k", "frozenset": frozenset([L.lab(0), L.lab(1)])}[c["bad_kind"]]
        items.insert(c["bad_at"], (bad, 1))
    for k, v in items:
        d[k] = v
    ty = c["ty"]
    if ty == "dict":
        return d
    return cls_of(ty)(d)


def items_line(G, L):
    """the dict as the model sees it: items in order, raw keys as ids, `null` for a non-tuple key"""
    return [[L.ids(k) if isinstance(k, tuple) else None, fs(v)] for k, v in G.items()]


def build_assoc(c, pairs, L, symbols=None):
    d = {}
    for idx, (i, v) in enumerate(pairs):
        val = num_of(v, vstyle(c, idx))
        if symbols is not None:
            tag = c["sym"][idx]
            if tag == "a": val = symbols["a"]
            elif tag == "b": val = symbols["b"]
            elif tag == "2a": val = 2 * symbols["a"]
        d[L.lab(i)] = val
    return d


def build_nodes(c, L):
    labs = [L.lab(i) for i in c["nodes"]]
    kind = c.get("nodes_as", "set")
    if kind == "set": return set(labs)
    if kind == "list": return list(labs)
    if kind == "tuple": return tuple(labs)
    if kind == "frozenset": return frozenset(labs)
    return {l: None for l in labs}


def canon(r, L, drop_zero=False):
    terms = []
    for k, v in r.items():
        f = fs(v)
        if drop_zero and f == "0":
            continue
        terms.append([L.ids(k), f])
    terms.sort(key=lambda t: (t[0], t[1]))
    # the model reports keys as stored (raw for dicts, canonical for models): no sorting inside keys
    return {"type": type(r).__name__, "terms": terms}


def run_impl(c):
    """returns (canonical result, real result object or None, real input object, log of side-condition breaches, line)"""
    from qubovert import utils
    L = Labels(c["labels"])
    log = []
    fam = c["family"]
    op = c.get("op", fam)
    symbols = None
    if fam == "symbolic":
        import sympy
        symbols = {"a": sympy.Symbol("a"), "b": sympy.Symbol("b")}
    G = build_G(c, L)
    line = {"op": op, "ty": c["ty"], "g": items_line(G, L)}
    s_in = snapshot(G)
    try:
        if op == "subvalue":
            vals = build_assoc(c, c["vals"], L, symbols)
            num_vals = build_assoc(c, c["vals"], L) if symbols is None else \
                {k: subs_num(v, c) for k, v in vals.items()}
            line["vals"] = [[L.ident(k), fs(v)] for k, v in num_vals.items()]
            s_v = snapshot(vals)
            R = G.subvalue(vals) if c["via"] == "method" else utils.subvalue(vals, G)
            if snapshot(vals) != s_v: log.append("subvalue modified `values`")
        elif op == "subgraph":
            nodes = build_nodes(c, L)
            conn = None if c["conn"] is None else build_assoc(c, c["conn"], L, symbols)
            num_conn = {} if conn is None else {k: subs_num(v, c) for k, v in conn.items()}
            line["nodes"] = c["nodes"]
            line["conn"] = [[L.ident(k), fs(v)] for k, v in num_conn.items()]
            s_n, s_c = snapshot(nodes), snapshot(conn)
            if c["via"] == "method":
                R = G.subgraph(nodes) if conn is None else G.subgraph(nodes, conn)
            else:
                R = utils.subgraph(G, nodes) if conn is None else utils.subgraph(G, nodes, conn)
            if snapshot(nodes) != s_n or snapshot(conn) != s_c: log.append("subgraph modified nodes/connections")
        else:
            cval = num_of(c["c"], c["num"])
            line["c"] = c["c"]; line["via"] = c["via"]
            if c["via"] == "method":
                G2 = build_G(c, L)            # the receiver is modified in place; keep G as the reference
                ret = G2.normalize() if c.get("default") else G2.normalize(cval)
                if ret is not None: log.append("normalize method returned %r" % (ret,))
                R = G2
            else:
                R = utils.normalize(G) if c.get("default") else utils.normalize(G, cval)
                if R is G: log.append("normalize function returned its argument")
    except Exception as e:
        if snapshot(G) != s_in: log.append("input G modified")
        return {"err": exc_name(e), "exc": type(e).__name__}, None, G, log, line
    if snapshot(G) != s_in: log.append("input G modified")
    if type(R) is not type(G): log.append("result type %s, input type %s" % (type(R).__name__, type(G).__name__))
    if fam == "symbolic":
        R = numeric(R, c)
    return canon(R, L, drop_zero=(fam == "symbolic")), R, G, log, line


def subs_num(v, c):
    """numeric value of a (possibly symbolic) substituted value"""
    try:
        import sympy
        if isinstance(v, sympy.Basic):
            v = v.subs({sympy.Symbol(s): sympy.Rational(Fraction(x).numerator, Fraction(x).denominator)
                        for s, x in c["symvals"].items()})
            return Fraction(int(v.p), int(v.q)) if v.is_Rational else Fraction(float(v))
    except ImportError:
        pass
    return Fraction(fs(v))


def numeric(R, c):
    """plain sympy substitution of the symbols in every coefficient (not qubovert's `.subs`, which is C16's)"""
    out = type(R)() if type(R) is dict else R.__class__()
    for k, v in R.items():
        val = subs_num(v, c)
        if val != 0:
            dict.__setitem__(out, k, val)
    return out

# ------------------------------------------------------------------ direct oracle (independent of the Lean model)


def evalpoly(d, x, skip_const=False):
    tot = Fraction(0)
    for k, v in d.items():
        if skip_const and k == ():
            continue
        m = Fraction(fs(v))
        for lab in k:
            m *= x[lab]
        tot += m
    return tot


def domain_of(c):
    if c["ty"] in BOOL_KINDS: return (Fraction(0), Fraction(1))
    if c["ty"] in SPIN_KINDS: return (Fraction(1), Fraction(-1))
    return (Fraction(0), Fraction(1), Fraction(-1))          # plain dicts: any numbers; plus random points below


def labels_of(d):
    s = []
    for k in d:
        for lab in k:
            if lab not in s:
                s.append(lab)
    return s


def oracle(c, can, R, G, log, rng):
    """the property statement evaluated on the real objects; returns (signature suffix, message) or None"""
    fam = c["family"]
    op = c.get("op", fam)
    if log:
        return op, "type/unchanged-input clause: " + "; ".join(log)
    L = Labels(c["labels"])
    if "err" in can:
        if op in ("subvalue", "subgraph"):
            if can["err"] == "ValueError" and "bad_at" in c:
                return None
            return op, "unexpected %s" % can["exc"]
        nonempty = len(c["g"]) > 0
        allzero = all(Fraction(v) == 0 for _, v in c["g"])
        if c["via"] == "method" and c["ty"] == "dict" and can["err"] == "AttributeError":
            return None                       # a builtin dict has no method
        if not nonempty and c["via"] == "function" and can["err"] == "ValueError":
            return None                       # no largest magnitude
        if nonempty and allzero and can["err"] == "ZeroDivisionError":
            return None
        if c["via"] == "method" and nonempty and Fraction(c["c"]) == 0 and can["exc"] == "RuntimeError":
            return "normalize-method-zero-value", ("regression of the repaired defect: %s(%s).normalize(0) raises RuntimeError (dictionary changed "
                   "size during iteration) and leaves the model partially modified; the function returns the all-zero (empty) model"
                   % (c["ty"], dict((tuple(k), v) for k, v in c["g"])))
        return op, "unexpected %s" % can["exc"]
    if op in ("subvalue", "subgraph"):
        if c["ty"] not in DICTS:
            bad = common.keys_are_canonical(R)
            if bad:
                return op, "result not canonical: " + bad
        if fam == "symbolic":
            fixed = {L.lab(i): subs_num(v, c) for i, v in (c["vals"] if op == "subvalue" else (c["conn"] or []))
                     for v in [sym_value(c, i, v, op)]}
        else:
            fixed = {L.lab(i): Fraction(v) for i, v in (c["vals"] if op == "subvalue" else (c["conn"] or []))}
        glabs = labels_of(G)
        if op == "subvalue":
            free = [l for l in glabs if l not in fixed]
        else:
            nodes = [L.lab(i) for i in c["nodes"]]
            free = [l for l in glabs if l in nodes]
        stray = [l for l in labels_of(R) if l not in free]
        if stray:
            return op, "result mentions labels %r that are substituted / outside the node set" % (stray,)
        dom = domain_of(c)
        points = list(itertools.product(dom, repeat=len(free)))
        if c["ty"] in DICTS:
            points += [tuple(Fraction(rng.randint(-6, 6), rng.choice([1, 2, 4])) for _ in free) for _ in range(4)]
        for pt in points:
            x = dict(zip(free, pt))
            if op == "subvalue":
                full = dict(x); full.update(fixed)
                want = evalpoly(G, full)
            else:
                full = {l: (x[l] if l in x else fixed.get(l, Fraction(0))) for l in glabs}
                want = evalpoly(G, full, skip_const=True)
            got = evalpoly(R, x)
            if got != want:
                return op, "%s result gives %s at %s, G with the fixed values gives %s" % (op, got, x, want)
        return None
    # normalize
    cval = Fraction(c["c"])
    Gd = dict(G.items())
    if not set(R.keys()) <= set(Gd.keys()):
        return op, "normalize created keys %r" % (set(R.keys()) - set(Gd.keys()),)
    if not Gd:
        return None if not R else (op, "normalize of an empty model is not empty")
    k0 = next((k for k, v in Gd.items() if Fraction(fs(v)) != 0), None)
    m = Fraction(0) if k0 is None else Fraction(fs(R.get(k0, 0))) / Fraction(fs(Gd[k0]))
    for k, v in Gd.items():
        if Fraction(fs(R.get(k, 0))) != m * Fraction(fs(v)):
            return op, "coefficients are not scaled by one common factor: %r -> %r" % (Gd, dict(R))
    big = max([abs(Fraction(fs(v))) for v in R.values()] or [Fraction(0)])
    if big != abs(cval):
        return op, "largest magnitude after normalize is %s, requested %s" % (big, cval)
    if c["ty"] not in DICTS:
        bad = common.keys_are_canonical(R)
        if bad:
            return op, "result not canonical: " + bad
    return None


def sym_value(c, i, v, op):
    """the (symbolic) value substituted for label id i, rebuilt from the case description"""
    import sympy
    key = "vals" if op == "subvalue" else "conn"
    idx = [p[0] for p in c[key]].index(i)
    tag = c["sym"][idx]
    a, b = sympy.Symbol("a"), sympy.Symbol("b")
    return {"a": a, "b": b, "2a": 2 * a}.get(tag, sympy.Rational(Fraction(v).numerator, Fraction(v).denominator))

# ------------------------------------------------------------------ driver of the check


def nontrivial(c):
    op = c.get("op", c["family"])
    g = c["g"]
    if len(g) < 2:
        return False
    if op == "subvalue":
        s = {i for i, _ in c["vals"]}
        return any(set(k) & s for k, _ in g)
    if op == "subgraph":
        s = set(c["nodes"])
        return any(set(k) - s for k, _ in g)
    return len({abs(Fraction(v)) for _, v in g}) >= 2


def process(ctx, cases):
    impls = [run_impl(c) for c in cases]
    models = common.run_driver([im[4] for im in impls])
    for c, (can, R, G, log, line), m in zip(cases, impls, models):
        ctx.case(c, nontrivial(c))
        tag = c["family"] + ":" + c.get("op", "") + ":" + ("err:" + can["exc"] if "err" in can else c["ty"])
        ctx.count(tag.replace("::", ":"))
        ctx.traces += 1
        cmp_impl = {k: v for k, v in can.items() if k != "exc"}
        if c["family"] == "symbolic" and "terms" in m:
            m = dict(m, terms=[t for t in m["terms"] if t[1] != "0"])
        if cmp_impl != m:
            ctx.diff(c["family"], c, cmp_impl, m)
        bad = oracle(c, can, R, G, log, ctx.rng)
        if bad:
            ctx.violation("C18:" + bad[0], c, bad[1])


def all_types_cases(rng):
    """every type x every operation at least a few times, plus the documented examples"""
    out = []
    for ty in TYPES:
        for _ in range(6):
            out.append(subvalue_case(rng, ty)); out.append(subgraph_case(rng, ty)); out.append(normalize_case(rng, ty))
    doc = [[[0, 1], "-4"], [[0, 2], "-1"], [[0], "3"], [[1], "2"], [[], "2"]]
    for ty in TYPES:
        b = {"ty": ty, "n": 3, "labels": "int", "num": "int", "vnum": "int", "g": doc, "via": "function"}
        out.append(dict(b, family="subvalue", vals=[[0, "2"]]))
        out.append(dict(b, family="subvalue", vals=[[2, "-3"]]))
        out.append(dict(b, family="subvalue", vals=[[0, "0"], [1, "0"], [2, "0"]]))
        out.append(dict(b, family="subvalue", vals=[]))
        out.append(dict(b, family="subgraph", nodes=[0, 2], conn=[[1, "5"]], nodes_as="set"))
        out.append(dict(b, family="subgraph", nodes=[0, 1], conn=[[2, "-10"]], nodes_as="set"))
        out.append(dict(b, family="subgraph", nodes=[0, 1], conn=None, nodes_as="set"))
        out.append(dict(b, family="subgraph", nodes=[], conn=[[0, "1"], [1, "1"], [2, "1"]], nodes_as="set"))
        i38 = dict(b, g=[[[2], "1"], [[2, 3], "-1"]], n=4)      # GitHub issue #38: terms cancel
        out.append(dict(i38, family="subgraph", nodes=[2], conn=[[3, "1"]], nodes_as="set"))
        out.append(dict(i38, family="subvalue", vals=[[3, "1"]]))
        out.append(dict(b, family="normalize", g=[[[0, 1], "1"], [[1, 2], "-4"]], c="1", default=True))
        if ty != "dict":
            out.append(dict(b, family="normalize", g=[[[0, 1], "1"], [[1, 2], "-4"]], c="1", default=True, via="method"))
            out.append(dict(b, family="normalize", g=[[[0, 1], "1"], [[1, 2], "-4"]], c="0", via="method"))
            out.append(dict(b, family="normalize", g=[], c="2", via="method"))
    return out


def check(ctx):
    rng = ctx.rng
    cases = all_types_cases(rng)
    cases += [subvalue_case(rng) for _ in range(ctx.scale(450, 8000))]
    cases += [subgraph_case(rng) for _ in range(ctx.scale(400, 7000))]
    cases += [normalize_case(rng) for _ in range(ctx.scale(300, 5000))]
    cases += [symbolic_case(rng) for _ in range(ctx.scale(100, 1200))]
    cases += malformed_cases(rng, ctx.scale(60, 600))
    process(ctx, cases)
    if ctx.diffs and not ctx.violations:
        search(ctx)


def variants(c):
    """shrunk forms of a case: one term / one substituted value / one node removed"""
    for i in range(len(c["g"])):
        if "bad_at" not in c:
            yield dict(c, g=c["g"][:i] + c["g"][i + 1:])
    for key in ("vals", "conn", "nodes"):
        if c.get(key) and c["family"] != "symbolic":
            for i in range(len(c[key])):
                yield dict(c, **{key: c[key][:i] + c[key][i + 1:]})


def search(ctx):
    """failing-input search after a correspondence difference: the direct oracle on the disagreeing cases' shrunk
    forms and on a fresh, larger batch of every family"""
    extra = []
    for d in ctx.diffs[:60]:
        extra += list(variants(d["case"]))
    rng = ctx.rng
    for _ in range(1200):
        extra += [subvalue_case(rng), subgraph_case(rng), normalize_case(rng)]
    for c in extra:
        can, R, G, log, _ = run_impl(c)
        bad = oracle(c, can, R, G, log, rng)
        if bad:
            ctx.violation("C18:" + bad[0], c, bad[1])


def replay(ctx, payload):
    c = payload.get("case") or (payload.get("first_difference") or {}).get("case")
    if not c:
        ctx.notes.append("replay file has no case; re-running the full check")
        return check(ctx)
    process(ctx, [c])
