"""C08 — constrained optimum survives penalisation, reduction and solution conversion (correspondence + oracle).

The README workflow end to end on the real code:

    H = PCBO(objective) / PCSO(objective)         n <= 4 user variables
    H.add_constraint_...(..., lam=w_i)            1..3 comparison / logical constraints, log_trick both ways
    H.solve_bruteforce([all_solutions])           validity-filtered brute force
    H, H.to_pubo(), H.to_puso(), H.to_qubo(), H.to_quso()   -> every minimiser -> H.convert_solution
    H.remove_ancilla_from_solution

Families
  big        every weight strictly greater than max f - min f (computed from the truth table of f)
  small      weights from {1/4, 1/2, 1} (usually too small): only the solve_bruteforce / remove_ancilla clauses of the
             property apply (they need no condition on the weights); the correspondence is compared in full
  uncovered  a feasible constraint that is always satisfied and mentions a variable occurring nowhere else
             (the library adds no penalty, so the variable is unknown to the model's bookkeeping)
  deep       objectives with n = 5..6 and terms of degree 3..5 sharing two disjoint variable pairs (degree reduction
             reuses ancillas, also inside keys where both pairs are already replaced), constraints with few slack bits
  variants   scenarios: a base model with constraints; variants derived by copy() / the constructor / + 0 / * 1 / - 0 /
             + 3 / 2 * H; further constraints, mostly of a kind already recorded, added to base and variants in
             interleaved order (and maintenance calls on any of them); every model of the scenario is checked in full
             against its own history
  history    ONE constrained model object with maintenance calls between (and around) its 2..3 constraints: refresh(),
             copy(), create_from_info(get_info(H)), set_mapping / set_reverse_mapping with a permutation, H *= 1, H += 0,
             H.subs({}), type(H)(H); most constraints introduce slack ancillas.  The model reads a maintenance call as the
             identity (state after = state before; the correspondence compares the state after every call); a fixed grid
             runs every maintenance call x both kinds between two slack-introducing constraints on every seed
  bounds     every documented form of the `bounds` keyword — absent, (None, None), (lo, hi) exact or loose, (lo, None),
             (None, hi) — on every relation and both kinds (fixed grid); the random families draw a form for every
             comparison constraint as well (the given numbers are valid bounds, from the truth table of the polynomial)

  nested     constraint polynomials with NESTED-TERM structure under the default `bounds=None`: the variable set of one term
             is contained in the variable sets of two or three terms of the opposite sign (x - xy - xz, xy + xz - x,
             xy - xyz - xyw, with weights 1..2, optionally a further unrelated term / an offset), every relation, both
             kinds, log_trick both ways; plus the same shapes with user-supplied bounds (a minority).  The library's own
             `approximate_pubo_extrema` decides from such a polynomial whether a constraint is always / never satisfied,
             whether slack ancillas are needed and how many, so a "bound" that is not one (e.g. one that credits the
             nested term once per containing term) removes the slack or the whole penalty.  A fixed grid (2 shapes x 2
             signs x 6 relations x 2 kinds) runs on every seed
Correspondence (model = lean/Qv/Model/Workflow.lean through op "wf", plus ops "c04sol", "cons", "c04conv"):
  build      PCBO: the state after PCBO(objective) and after every constraint call (terms, num_ancillas, recorded
             constraints, is_solution_valid table) against the model's own composition of C02/C06
  build-pcso PCSO: the final state (terms, num_ancillas, recorded constraints, warnings) against Qv.Pcso.runHist (C03)
             started from PCSO(objective); everything below then runs on the model's own final state
  pcso-pen   PCSO: terms after all calls = objective + pubo_to_puso(sum of the PCBO penalties of puso_to_pubo(P_i))
             through the existing ops "c04conv" and "cons"
  valid      is_solution_valid on total and partial assignment dicts (KeyError on a missing label)
  brute      solve_bruteforce() and solve_bruteforce(all_solutions=True) exactly (BO types enumerate in mapping order)
  forms      to_qubo/to_quso/to_pubo/to_puso of the final model exactly
  convert    convert_solution of minimisers of every form (list and dict form)
  remove     remove_ancilla_from_solution, order of the dict included
Direct oracle: truth tables on the real objects, from the property text only (no Lean model involved).
"""
import itertools, json, math, warnings
from fractions import Fraction
from . import common
from .common import Labels, fs, exc_name, canon_terms, ANC, Infra
from . import c06

CEXT = "plain"
RULE = ("objective: 2..5 terms of degree <= 3 over n in 2..4 variables (every variable occurs), integer or half-integer "
        "coefficients; 1..3 jointly feasible constraints: comparison (6 relations, linear/quadratic integer polynomials, "
        "log_trick on/off) and for PCBO logical (16 methods, label and nested-gate operands); weights = (max f - min f) + "
        "{1/4,1/2,1,3} (family big) or {1/4,1/2,1} (family small); PCBO and PCSO; 4 label realisations; forms: the model "
        "itself, to_pubo, to_puso, to_qubo, to_quso (total variables <= 16, larger forms are counted as skipped). "
        "family deep: n = 5..6, objective terms of degree 3..5 sharing two disjoint pairs (reused reduction ancillas), few slack bits, forms up to 16 variables; family variants: scenarios of a base model and up to two models derived by copy() / constructor / +0 / *1 / -0 / +3 / 2*H with further, mostly same-kind, constraints added to all of them in interleaved order, every model checked in full; "
        "family history: one object, maintenance calls (refresh, copy, get_info/create_from_info, set_mapping permutation, *= 1, "
        "+= 0, subs({}), constructor) between 2..3 mostly slack-introducing constraints; every comparison constraint draws one "
        "of the documented forms of bounds (absent, (None,None), (lo,hi) exact/loose, (lo,None), (None,hi)); fixed grids: "
        "8 maintenance calls x 2 kinds x 2 relation pairs, 6 bounds forms x 6 relations x 2 kinds. "
        "family nested: constraint polynomials in which one term's variable set lies inside 2..3 terms of the opposite sign "
        "(degree 2..3), default bounds (4 in 5) or given bounds, all relations, both kinds; fixed grid 2 shapes x 2 signs x "
        "6 relations x 2 kinds. "
        "non-trivial = at least one constraint is violated by some assignment and the model has >= 1 penalty term; "
        "distinct = distinct case JSON")
ASSUMPTIONS = ["integer-valued constraint polynomials; coefficients int / Fraction (PCSO conversions divide by 2: dyadic floats, exact)",
               "every variable of the workflow occurs in the objective (families big, small); the family 'uncovered' "
               "drops exactly this"]

MAXVARS = 16
RELS = ["eq", "ne", "lt", "le", "gt", "ge"]
GATES = ["AND", "OR", "XOR", "NAND", "NOR", "XNOR", "NOT", "BUFFER"]

def holds(rel, v):
    return {"eq": v == 0, "ne": v != 0, "lt": v < 0, "le": v <= 0, "gt": v > 0, "ge": v >= 0}[rel]

def num_of(s):
    f = Fraction(s)
    return int(f) if f.denominator == 1 else f

# ------------------------------------------------------------------ semantics straight from the case description

def poly_value(items, x):
    tot = Fraction(0)
    for k, v in items:
        m = Fraction(v)
        for i in k:
            m *= x[i]
        tot += m
    return tot

def op_truth(o, x):
    if o["t"] == "lbl":
        return bool(x[o["i"]])
    ts = [op_truth(a, x) for a in o["args"]]
    return gate(o["g"], ts)

def gate(g, ts):
    if g in ("AND", "NAND"):
        b = all(ts)
    elif g in ("OR", "NOR"):
        b = any(ts)
    elif g in ("XOR", "XNOR"):
        b = sum(ts) % 2 == 1
    else:
        b = ts[0]
    return (not b) if g in ("NAND", "NOR", "XNOR", "NOT") else b

def con_holds(st, x):
    """does the constraint of step `st` hold at the assignment x (list of values of the user variables)?"""
    if st["t"] == "cmp":
        return holds(st["rel"], poly_value(st["P"], x))
    ts = [op_truth(o, x) for o in st["ops"]]
    if not st["eq"]:
        return gate(st["g"], ts)
    if st["g"] == "NOT":                       # add_constraint_eq_NOT(a, b): NOT(a) == b
        return (not ts[0]) == ts[1]
    if st["g"] == "BUFFER":
        return ts[0] == ts[1]
    return ts[0] == gate(st["g"], ts[1:])

def domain(spin):
    return (1, -1) if spin else (0, 1)

def cons_steps(case_or_steps):
    """the constraint calls of a history (maintenance calls — refresh, copy, ... — constrain nothing)"""
    steps = case_or_steps["steps"] if isinstance(case_or_steps, dict) else case_or_steps
    return [st for st in steps if st["t"] != "maint"]

def semantics(case):
    """f table, feasibility table over all assignments of the user variables (from the description only)"""
    n, spin = case["n"], case["kind"] == "PCSO"
    xs = list(itertools.product(domain(spin), repeat=n))
    f = {x: poly_value(case["obj"], x) for x in xs}
    feas = {x: all(con_holds(st, x) for st in cons_steps(case)) for x in xs}
    return xs, f, feas

# ------------------------------------------------------------------ generation

def gen_obj(rng, n):
    terms, seen = [], set()
    for _ in range(rng.randint(2, 5)):
        k = tuple(sorted(rng.sample(range(n), rng.randint(1, min(3, n)))))
        if k in seen:
            continue
        seen.add(k)
        terms.append([list(k), rng.choice(["-4", "-3", "-2", "-1", "1", "2", "3", "4", "1/2", "-3/2"])])
    used = {i for k, _ in terms for i in k}
    for i in range(n):
        if i not in used:
            terms.append([[i], rng.choice(["-2", "-1", "1", "2"])])
    if rng.random() < 0.3:
        terms.append([[], rng.choice(["-2", "1", "3"])])
    rng.shuffle(terms)
    return terms

def gen_cmp(rng, n, spin):
    P, seen = [], set()
    for _ in range(rng.choice([1, 2, 2, 3, 3])):
        k = tuple(sorted(rng.sample(range(n), 1 if rng.random() < 0.75 else min(2, n))))
        if k in seen:
            continue
        seen.add(k)
        P.append([list(k), rng.choice(["-2", "-1", "1", "1", "2"])])
    if rng.random() < 0.8:
        P.append([[], str(rng.choice([-3, -2, -1, 1, 2]))])
    st = {"t": "cmp", "rel": rng.choice(RELS), "P": P, "lt": rng.random() < 0.5, "lo": None, "hi": None, "sup": False}
    return set_bounds(rng, st, n, spin)

BMS = ["none", "nonenone", "exact", "loose", "left", "right"]

def set_bounds(rng, st, n, spin, bm=None):
    """every documented form of the `bounds` keyword: absent, (None, None), (lo, hi), (lo, None), (None, hi); the given
    numbers are valid bounds of P on the model's domain (exact, or loose by 0 / 1/2 / 1 / 2), from the truth table of P"""
    bm = bm or (rng.choice(BMS[1:]) if rng.random() < 0.6 else "none")
    nn = max([n] + [i + 1 for k, _ in st["P"] for i in k])
    vals = [poly_value(st["P"], x) for x in itertools.product(domain(spin), repeat=nn)]
    lo, hi = min(vals), max(vals)
    if bm in ("loose", "left", "right") and rng.random() < 0.6:
        lo -= rng.choice([0, Fraction(1, 2), 1, 2]); hi += rng.choice([0, Fraction(1, 2), 1, 2])
    st["bm"] = bm
    st["lo"] = fs(lo) if bm in ("exact", "loose", "left") else None
    st["hi"] = fs(hi) if bm in ("exact", "loose", "right") else None
    return st

MAINT = ["refresh", "copy", "info", "relabel", "imul1", "subs", "iadd0", "ctor"]

def gen_maint(rng, op=None):
    """a call that documents itself as not changing the model: refresh(), copy(), create_from_info(get_info(H)),
    set_mapping / set_reverse_mapping with a permutation of the current mapping, H *= 1, H.subs({}), H += 0, type(H)(H)"""
    op = op or rng.choice(MAINT)
    st = {"t": "maint", "op": op}
    if op == "relabel":
        st["perm"] = [rng.randrange(100) for _ in range(6)]; st["reverse"] = rng.random() < 0.5
    return st

def gen_logic(rng, n):
    def operand(depth):
        if depth == 0 or rng.random() < 0.7:
            return c06.lbl(rng.randrange(n))
        g = rng.choice(GATES)
        k = 1 if g in ("NOT", "BUFFER") else rng.choice([2, 2, 3])
        return {"t": "gate", "g": g, "args": [operand(depth - 1) for _ in range(k)]}
    eq = rng.random() < 0.5
    g = rng.choice(GATES)
    if g in ("NOT", "BUFFER"):
        nops = 2 if eq else 1
    else:
        nops = rng.choice([2, 2, 3]) + (1 if eq else 0)
    return {"t": "logic", "eq": eq, "g": g, "ops": [operand(1) for _ in range(nops)]}

MAXH = 10

def gen_deep(rng):
    """higher-degree objectives: n = 5..6, terms of degree 3..5 built from two disjoint variable pairs so that degree
    reduction reuses ancillas (also in keys where both pairs were already replaced); constraints with few slack bits"""
    for _ in range(300):
        kind = "PCBO" if rng.random() < 0.85 else "PCSO"
        spin = kind == "PCSO"
        n = rng.choice([5, 5, 6])
        vs = list(range(n)); rng.shuffle(vs)
        p1, p2, rest = sorted(vs[:2]), sorted(vs[2:4]), vs[4:]
        keys = [p1 + [rng.choice(rest)], p2 + [rng.choice(rest)], p1 + p2]
        if rng.random() < 0.5:
            keys.append(p1 + p2 + [rng.choice(rest)])
        if rng.random() < 0.5:
            keys.append(rng.choice([p1, p2]) + rest[:2] if len(rest) >= 2 else p1 + [rest[0]])
        rng.shuffle(keys)
        obj, seen = [], set()
        for i in rng.sample(range(n), rng.randint(0, 2)):
            obj.append([[i], rng.choice(["-2", "-1", "1", "2"])]); seen.add((i,))
        for k in keys:
            k = tuple(sorted(set(k)))
            if k not in seen:
                seen.add(k); obj.append([list(k), rng.choice(["-4", "-3", "-2", "2", "3", "4"])])
        used = {i for k, _ in obj for i in k}
        for i in range(n):
            if i not in used:
                obj.append([[i], rng.choice(["-1", "1"])])
        if rng.random() < 0.5:
            rng.shuffle(obj)
        steps = []
        for _ in range(rng.choice([1, 1, 2])):
            r = rng.random()
            if not spin and r < 0.35:
                steps.append(gen_logic(rng, n))
            else:
                a, b = rng.sample(range(n), 2)
                tmpl = rng.choice([
                    {"rel": "le", "P": [[[a], "1"], [[b], "1"], [[], "-1"]]},          # special: no slack
                    {"rel": "eq", "P": [[[a], "1"], [[b], "-1"]]},
                    {"rel": "ge", "P": [[[a], "1"], [[b], "1"], [[], "-1"]]},
                    {"rel": "ne", "P": [[[a], "1"], [[b], "1"], [[], "-1"]]},
                    {"rel": "lt", "P": [[[a], "1"], [[b], "1"], [[], "-2"]]},
                    {"rel": "le", "P": [[[a], "2"], [[b], "1"], [[], "-2"]]}])
                steps.append(set_bounds(rng, dict({"t": "cmp", "lt": rng.random() < 0.5, "lo": None, "hi": None,
                                                   "sup": False}, **tmpl), n, spin))
        case = {"family": "deep", "kind": kind, "n": n, "obj": obj, "steps": steps, "labels": rng.choice(Labels.STYLES_X)}
        xs, f, feas = semantics(case)
        if not any(feas.values()):
            continue
        R = max(f.values()) - min(f.values())
        for st in cons_steps(steps):
            st["lam"] = fs(R + rng.choice([Fraction(1, 2), Fraction(1), Fraction(3)]))
        case["big"] = True
        if model_size(case) > MAXH:
            continue
        return case
    raise Infra("generator found no feasible deep workflow")

def model_size(case):
    """number of variables (with ancillas) of the model the real code builds — used only to reject large cases"""
    import qubovert as qv
    L = Labels("int")
    H = getattr(qv, case["kind"])({L.key(k): num_of(v) for k, v in case["obj"]})
    try:
        for st in case["steps"]:
            H, _ = apply_step(H, st, L)
    except Exception:
        return 0
    return H.num_binary_variables

def gen_case(rng, family):
    for _ in range(200):
        kind = "PCBO" if rng.random() < 0.6 else "PCSO"
        spin = kind == "PCSO"
        n = rng.choice([2, 3, 3, 4, 4])
        nobj = n
        steps = []
        if family == "uncovered":
            nobj = n - 1
        obj = gen_obj(rng, nobj)
        for _ in range(rng.choice([1, 1, 2, 2, 3])):
            steps.append(gen_logic(rng, nobj) if (not spin and rng.random() < 0.3) else gen_cmp(rng, nobj, spin))
        if family == "uncovered":
            # always satisfied, mentions the otherwise unused variable n-1
            extra = rng.choice([
                {"rel": "le", "P": [[[n - 1], "1"], [[], "-3"]]}, {"rel": "ge", "P": [[[n - 1], "1"], [[0], "1"], [[], "2"]]},
                {"rel": "lt", "P": [[[n - 1], "1"], [[], "-2"]]}, {"rel": "ne", "P": [[[n - 1], "2"], [[], "3"]]}])
            steps.insert(rng.randint(0, len(steps)), set_bounds(rng, dict({"t": "cmp", "lt": rng.random() < 0.5, "lo": None,
                                                                           "hi": None, "sup": False}, **extra), n, spin))
        case = {"family": family, "kind": kind, "n": n, "obj": obj, "steps": steps,
                "labels": rng.choice(Labels.STYLES_X)}
        xs, f, feas = semantics(case)
        if not any(feas.values()):
            continue
        R = max(f.values()) - min(f.values())
        for st in cons_steps(steps):
            if family == "small":
                st["lam"] = fs(rng.choice([Fraction(1, 4), Fraction(1, 2), Fraction(1)]))
            else:
                st["lam"] = fs(R + rng.choice([Fraction(1, 4), Fraction(1, 2), Fraction(1), Fraction(3)]))
        case["big"] = all(Fraction(st["lam"]) > R for st in cons_steps(steps))
        if model_size(case) > MAXH:
            continue                      # the brute force over variables and ancillas must stay small
        return case
    raise Infra("generator found no feasible workflow")

def gen_slack(rng, n, spin):
    """an inequality / disequality that needs slack ancillas: sum of 2..3 variables with weights 1..2 against a threshold
    strictly inside its range"""
    vs = rng.sample(range(n), rng.choice([2, 3]) if n >= 3 else 2)
    cs = [rng.choice([1, 1, 2]) for _ in vs]
    C = sum(cs)
    k = rng.randint(-C + 1, C - 1) if spin else rng.randint(1, C - 1)
    sign = rng.choice([1, -1])
    P = [[[v], str(sign * c)] for v, c in zip(vs, cs)] + ([[[], str(-sign * k)]] if k else [])
    if rng.random() < 0.3:
        rng.shuffle(P)
    st = {"t": "cmp", "rel": rng.choice(["le", "le", "ge", "ge", "lt", "gt", "ne"]), "P": P, "lt": rng.random() < 0.5,
          "lo": None, "hi": None, "sup": False}
    return set_bounds(rng, st, n, spin)

def gen_nested_cmp(rng, n, spin, rel=None, shape=None, sign=None, plain=False):
    """a comparison constraint whose polynomial has nested-term structure: the variable set of the `base` term is
    contained in the variable sets of 2..3 `super` terms, all of the opposite sign (x - xy - xz; xy + xz - x;
    xy - xyz - xyw ...).  Default bounds unless drawn otherwise (the library then bounds P itself)."""
    nb = shape if shape is not None else (2 if (n >= 4 and rng.random() < 0.3) else 1)
    base = sorted(rng.sample(range(n), nb))
    others = [i for i in range(n) if i not in base]
    ext = rng.sample(others, min(len(others), rng.choice([2, 2, 3])))
    s = sign if sign is not None else rng.choice([1, -1])
    mag = (lambda: 1) if plain else (lambda: rng.choice([1, 1, 1, 2]))
    P = [[list(base), str(s * mag())]] + [[sorted(base + [e]), str(-s * mag())] for e in ext]
    if not plain:
        r = rng.random()
        rest = [i for i in others if i not in ext]
        if r < 0.25 and rest:
            P.append([[rng.choice(rest)], str(rng.choice([-1, 1]))])
        elif r < 0.45:
            P.append([[], str(rng.choice([-1, 1]))])
        if rng.random() < 0.5:
            rng.shuffle(P)
    st = {"t": "cmp", "rel": rel or rng.choice(RELS), "P": P, "lt": rng.random() < 0.5, "lo": None, "hi": None, "sup": False}
    return set_bounds(rng, st, n, spin, "none" if (plain or rng.random() < 0.8) else None)

def gen_nested(rng):
    """a workflow whose first constraint has nested-term structure; sometimes a second ordinary constraint"""
    for _ in range(300):
        kind = "PCBO" if rng.random() < 0.6 else "PCSO"
        spin = kind == "PCSO"
        n = rng.choice([3, 3, 4])
        steps = [gen_nested_cmp(rng, n, spin)]
        if rng.random() < 0.3:
            steps.insert(rng.randrange(2), gen_logic(rng, n) if (not spin and rng.random() < 0.4) else gen_cmp(rng, n, spin))
        case = finish_case(rng, {"family": "nested", "kind": kind, "n": n, "obj": gen_obj(rng, n), "steps": steps,
                                 "labels": rng.choice(Labels.STYLES_X)}, big=rng.random() < 0.9)
        if case:
            return case
    raise Infra("generator found no feasible nested workflow")

def fixed_nested():
    """the two basic nested shapes (a variable / a pair inside two products) x both signs x every relation x both kinds,
    unit coefficients, default bounds, on fixed objectives (the same cases on every seed)"""
    import random
    rng = random.Random(9)
    out = []
    objs = {3: [[[0], "1"], [[1], "1"], [[2], "1"], [[0, 1], "1/2"]],
            4: [[[0], "1"], [[1], "-1"], [[2], "1"], [[3], "1"], [[0, 3], "1/2"]]}
    for kind in ("PCBO", "PCSO"):
        spin = kind == "PCSO"
        for shape, n in ((1, 3), (2, 4)):
            for sign in (1, -1):
                for rel in RELS:
                    st = gen_nested_cmp(rng, n, spin, rel=rel, shape=shape, sign=sign, plain=True)
                    case = finish_case(rng, {"family": "nested", "kind": kind, "n": n, "obj": objs[n], "labels": "str",
                                             "steps": [st]})
                    if case:
                        out.append(case)
    return out

def finish_case(rng, case, big=True):
    """feasibility, weights (every weight > max f - min f when `big`), size limit; None when the case is rejected"""
    xs, f, feas = semantics(case)
    if not any(feas.values()):
        return None
    R = max(f.values()) - min(f.values())
    for st in cons_steps(case):
        st["lam"] = fs(R + rng.choice([Fraction(1, 4), Fraction(1, 2), Fraction(1), Fraction(3)])) if big else \
            fs(rng.choice([Fraction(1, 4), Fraction(1, 2), Fraction(1)]))
    case["big"] = all(Fraction(st["lam"]) > R for st in cons_steps(case))
    if model_size(case) > MAXH:
        return None
    return case

def gen_history(rng):
    """one constrained model object with maintenance calls between (and around) its constraints; most constraints introduce
    slack ancillas, so that a maintenance call that loses the ancilla counter or the recorded constraints shows"""
    for _ in range(300):
        kind = "PCBO" if rng.random() < 0.6 else "PCSO"
        spin = kind == "PCSO"
        n = rng.choice([3, 3, 4])
        steps = [gen_maint(rng)] if rng.random() < 0.25 else []
        for i in range(rng.choice([2, 2, 2, 3])):
            if i:
                steps += [gen_maint(rng) for _ in range(rng.choice([1, 1, 1, 2]))]
            r = rng.random()
            steps.append(gen_slack(rng, n, spin) if r < 0.7 else gen_logic(rng, n) if (not spin and r < 0.8)
                         else gen_cmp(rng, n, spin))
        if rng.random() < 0.4:
            steps.append(gen_maint(rng))
        case = finish_case(rng, {"family": "history", "kind": kind, "n": n, "obj": gen_obj(rng, n), "steps": steps,
                                 "labels": rng.choice(Labels.STYLES_X)}, big=rng.random() < 0.85)
        if case:
            return case
    raise Infra("generator found no feasible history")

def fixed_histories():
    """every maintenance call between two slack-introducing constraints, and every form of `bounds` on every relation,
    on fixed small models of both kinds (the same cases on every seed)"""
    import random
    rng = random.Random(8)
    out = []
    obj = [[[0], "-2"], [[1], "-2"], [[2], "1"], [[3], "1"], [[0, 2], "1"]]
    for kind in ("PCBO", "PCSO"):
        spin = kind == "PCSO"
        for op in MAINT:
            for rels in (("le", "le"), ("ge", "lt" if spin else "ne")):
                Pa = [[[0], "1"], [[1], "1"]] if spin else [[[0], "1"], [[1], "1"], [[2], "1"], [[], "-2"]]
                Pb = [[[2], "1"], [[3], "1"], [[], "1"]] if spin else [[[2], "1"], [[3], "1"], [[], "-1"]]
                if rels[1] in ("le", "lt"):
                    Pb = [[[2], "1"], [[3], "1"]] if spin else [[[1], "1"], [[2], "1"], [[3], "1"], [[], "-2"]]
                a = {"t": "cmp", "rel": rels[0], "P": Pa, "lt": op in MAINT[::2], "lo": None, "hi": None, "sup": False}
                b = {"t": "cmp", "rel": rels[1], "P": Pb, "lt": op in MAINT[1::2], "lo": None, "hi": None, "sup": False}
                if rels[0] == "ge":
                    a["P"] = [[k, fs(-Fraction(v))] for k, v in a["P"]]
                case = finish_case(rng, {"family": "history", "kind": kind, "n": 4, "obj": obj, "labels": "str",
                                         "steps": [set_bounds(rng, a, 4, spin, "none"), gen_maint(rng, op),
                                                   set_bounds(rng, b, 4, spin, "none")]})
                if case:
                    out.append(case)
        obj3 = [[[0], "-1"], [[1], "-1"], [[2], "-1"], [[0, 1], "1/2"]]
        for bm in BMS:
            for rel in RELS:
                P = [[[0], "1"], [[2], "1"]] if spin else [[[0], "1"], [[1], "1"], [[2], "2"], [[], "-2"]]
                if rel in ("ge", "gt"):
                    P = [[k, fs(-Fraction(v))] for k, v in P]
                st = set_bounds(rng, {"t": "cmp", "rel": rel, "P": P, "lt": bm in BMS[::2], "lo": None, "hi": None,
                                      "sup": False}, 3, spin, bm)
                case = finish_case(rng, {"family": "bounds", "kind": kind, "n": 3, "obj": obj3, "labels": "int", "steps": [st]})
                if case:
                    out.append(case)
    return out

# ------------------------------------------------------------------ implementation side

def call_step(H, st, L):
    with warnings.catch_warnings(record=True) as w:
        warnings.simplefilter("always")
        if st["t"] == "cmp":
            d = {L.key(k): num_of(v) for k, v in st["P"]}
            kw = {"lam": num_of(st["lam"])}
            if st["rel"] != "eq":
                kw["log_trick"] = st["lt"]
            if st.get("lo") is not None or st.get("hi") is not None:
                kw["bounds"] = (None if st["lo"] is None else num_of(st["lo"]), None if st["hi"] is None else num_of(st["hi"]))
            elif st.get("bm") == "nonenone":
                kw["bounds"] = (None, None)
            r = getattr(H, "add_constraint_%s_zero" % st["rel"])(d, **kw)
        else:
            ops = [c06.build_operand(o, L) for o in st["ops"]]
            r = getattr(H, "add_constraint_" + ("eq_" if st["eq"] else "") + st["g"])(*ops, lam=num_of(st["lam"]))
    ws = ["unsat" if "cannot" in str(x.message) else "always" if "always" in str(x.message) else "other" for x in w]
    return r, ws

class NotSelf(Exception):
    pass

def apply_step(H, st, L):
    """one step of a history on the real object: a constraint call (must return self) or a maintenance call.
    Returns (the object the history continues on, warnings)."""
    if st["t"] != "maint":
        r, ws = call_step(H, st, L)
        if r is not H:
            raise NotSelf("add_constraint did not return self")
        return H, ws
    import qubovert as qv
    op = st["op"]
    with warnings.catch_warnings():
        warnings.simplefilter("ignore")
        if op == "refresh":
            if H.refresh() is not None:
                raise NotSelf("refresh() returned something")
        elif op == "copy":
            H = H.copy()
        elif op == "info":
            H = qv.utils.create_from_info(qv.utils.get_info(H))
        elif op == "relabel":
            mp = H.mapping
            labs, vals = list(mp), list(mp.values())
            order = sorted(range(len(vals)), key=lambda t: (st["perm"][t % len(st["perm"])], t))
            new = {labs[t]: vals[order[t]] for t in range(len(labs))}
            if st["reverse"]:
                H.set_reverse_mapping({v: k for k, v in new.items()})
            else:
                H.set_mapping(new)
        elif op == "imul1":
            H *= 1
        elif op == "iadd0":
            H += 0
        elif op == "subs":
            H = H.subs({})
        elif op == "ctor":
            H = type(H)(H)
        else:
            raise ValueError(op)
    return H, []

def cons_canon(H, L):
    return {r: [canon_terms(p, L) for p in ps] for r, ps in H._constraints.items()}

def state_of(H, L, n, warns, spin):
    valid = []
    if not spin:
        for b in range(2 ** n):
            sol = {L.lab(i): (b >> i) & 1 for i in range(n)}
            valid.append(bool(H.is_solution_valid(sol)))
    return {"terms": canon_terms(H, L), "anc": H.num_ancillas, "cons": cons_canon(H, L), "warns": list(warns),
            "valid": valid}

def sol_ids(sol, L):
    return [[L.ident(k), fs(v)] for k, v in sol.items()]

def run_impl(case):
    import qubovert as qv
    L = Labels(case["labels"])
    spin = case["kind"] == "PCSO"
    n = case["n"]
    H = getattr(qv, case["kind"])({L.key(k): num_of(v) for k, v in case["obj"]})
    warns, states = [], []
    info = {"H": H, "L": L, "states": states}
    states.append(state_of(H, L, n, warns, spin))
    kind = type(H)
    for st in case["steps"]:
        try:
            H, ws = apply_step(H, st, L)
            if type(H) is not kind:
                raise NotSelf("%s turned the model into a %s" % (st.get("op"), type(H).__name__))
        except NotSelf as e:
            info["build_error"] = str(e)
            return info
        except Exception as e:
            states.append({"err": exc_name(e)})
            info["build_error"] = exc_name(e) + ": " + str(e)[:100]
            return info
        info["H"] = H
        warns += ws
        states.append(state_of(H, L, n, warns, spin))
    collect(H, L, info)
    return info

def collect(H, L, info):
    """everything the checks read off a finished model object"""
    info["H"], info["L"] = H, L
    info["book"] = {"n": int(H.num_binary_variables), "rm": [[int(i), L.ident(l)] for i, l in H._reverse_mapping.items()]}
    info["mapping"] = [[L.ident(l), int(i)] for l, i in H.mapping.items()]
    info["terms"] = [[L.ids(k), fs(v)] for k, v in H.items()]
    info["cons"] = [[r, [[L.ids(k), fs(v)] for k, v in p.items()]] for r, ps in H._constraints.items() for p in ps]
    for key, kw in (("brute_one", {}), ("brute_all", {"all_solutions": True})):
        try:
            r = H.solve_bruteforce(**kw)
            info[key + "_raw"] = r
            info[key] = {"one": sol_ids(r, L)} if isinstance(r, dict) else {"many": [sol_ids(s, L) for s in r]}
        except Exception as e:
            info[key + "_raw"] = e
            info[key] = {"err": exc_name(e)}
    forms = {}
    for t in ("qubo", "quso", "pubo", "puso"):
        try:
            Rm = getattr(H, "to_" + t)()
            forms[t] = {"obj": Rm, "canon": {"res": sorted([[list(k), fs(v)] for k, v in Rm.items()])}}
        except Exception as e:
            forms[t] = {"obj": None, "canon": {"err": exc_name(e)}}
    info["forms"] = forms
    return info

# ------------------------------------------------------------------ scenario variants: copies / arithmetic of a model

DERIVE = ["copy", "ctor", "+0", "*1", "-0", "+k", "*2"]

def derive(H, op):
    import qubovert as qv
    if op == "copy":
        return H.copy()
    if op == "ctor":
        return type(H)(H)
    if op == "+0":
        return H + 0
    if op == "*1":
        return H * 1
    if op == "-0":
        return H - 0
    if op == "+k":
        return H + 3
    if op == "*2":
        return 2 * H
    raise ValueError(op)

def derive_desc(obj, steps, op):
    """the description (objective, history of constraints) of the derived model"""
    obj = [[list(k), v] for k, v in obj]
    steps = [dict(st) for st in steps]
    if op == "+k":
        d = {}
        for k, v in obj + [[[], "3"]]:
            d[tuple(k)] = d.get(tuple(k), 0) + Fraction(v)
        obj = [[list(k), fs(v)] for k, v in d.items() if v != 0]
    elif op == "*2":
        obj = [[k, fs(2 * Fraction(v))] for k, v in obj]
        for st in cons_steps(steps):
            st["lam"] = fs(2 * Fraction(st["lam"]))       # every penalty is linear in its weight
    return obj, steps

def gen_scenario(rng, family="variants"):
    """a base model with constraints, variants derived through copy() / the constructor / arithmetic, and further
    constraints — mostly of a kind already present — added to base and variants in interleaved order"""
    for _ in range(300):
        base = gen_case(rng, "big" if rng.random() < 0.75 else "small")
        spin = base["kind"] == "PCSO"
        n = base["n"]
        models = [{"obj": base["obj"], "steps": list(base["steps"])}]        # descriptions, by creation order
        script = [["add", 0, st] for st in base["steps"]]
        rels = [st["rel"] for st in base["steps"] if st["t"] == "cmp"]
        for _ in range(rng.choice([2, 3, 3, 4, 5])):
            if rng.random() < 0.2:
                tgt = rng.randrange(len(models)); st = gen_maint(rng)
                models[tgt]["steps"].append(st)
                script.append(["add", tgt, st])
            if len(models) < 3 and (len(models) == 1 or rng.random() < 0.35):
                par = rng.randrange(len(models)); op = rng.choice(DERIVE)
                o, stp = derive_desc(models[par]["obj"], models[par]["steps"], op)
                models.append({"obj": o, "steps": stp})
                script.append(["derive", par, op])
            else:
                tgt = rng.randrange(len(models))
                if not spin and rng.random() < 0.3:
                    st = gen_logic(rng, n)
                else:
                    st = gen_cmp(rng, n, spin)
                    if rels and rng.random() < 0.75:
                        st["rel"] = rng.choice(rels)
                    rels.append(st["rel"])
                xs = list(itertools.product(domain(spin), repeat=n))
                fv = [poly_value(models[tgt]["obj"], x) for x in xs]
                R = max(fv) - min(fv)
                st["lam"] = fs(R + rng.choice([Fraction(1, 4), Fraction(1), Fraction(3)])) if base["big"] else \
                    fs(rng.choice([Fraction(1, 4), Fraction(1, 2), Fraction(1)]))
                models[tgt]["steps"].append(st)
                script.append(["add", tgt, st])
        if len(models) < 2:
            continue
        case = {"family": family, "kind": base["kind"], "n": n, "labels": base["labels"], "obj": base["obj"],
                "script": script}
        subs = sub_cases(case)
        ok = True
        for sc in subs:
            xs, f, feas = semantics(sc)
            if not any(feas.values()) or model_size(sc) > MAXH:
                ok = False
        if ok:
            return case
    raise Infra("generator found no feasible scenario")

def sub_cases(case):
    """the description of every model of a scenario: its objective and its own history of constraints"""
    models = [{"obj": case["obj"], "steps": []}]
    for ev in case["script"]:
        if ev[0] == "add":
            models[ev[1]]["steps"].append(ev[2])
        else:
            o, stp = derive_desc(models[ev[1]]["obj"], models[ev[1]]["steps"], ev[2])
            models.append({"obj": o, "steps": stp})
    out = []
    for i, m in enumerate(models):
        out.append(finalize({"family": case["family"], "kind": case["kind"], "n": case["n"], "labels": case["labels"],
                             "obj": m["obj"], "steps": m["steps"], "model": i}))
    return out

def run_scenario(case):
    """executes the script on the real code; returns one info per model (final objects only)"""
    import qubovert as qv
    L = Labels(case["labels"])
    spin = case["kind"] == "PCSO"
    objs = [getattr(qv, case["kind"])({L.key(k): num_of(v) for k, v in case["obj"]})]
    err = None
    try:
        for ev in case["script"]:
            if ev[0] == "add":
                objs[ev[1]], _ = apply_step(objs[ev[1]], ev[2], L)
                if type(objs[ev[1]]) is not type(objs[0]):
                    err = "%s turned the model into a %s" % (ev[2].get("op"), type(objs[ev[1]]).__name__)
            else:
                objs.append(derive(objs[ev[1]], ev[2]))
                if type(objs[-1]) is not type(objs[0]):
                    err = "derived model has type %s" % type(objs[-1]).__name__
    except Exception as e:
        err = exc_name(e) + ": " + str(e)[:100]
    infos = []
    for H in objs:
        info = {"H": H, "L": L, "states": None}
        if err:
            info["build_error"] = err
        else:
            info["final"] = dict(state_of(H, L, case["n"], [], spin), warns=None)
            collect(H, L, info)
        infos.append(info)
    return infos

# ------------------------------------------------------------------ direct oracle (truth tables on the real objects)

def _cols(np, N, spin):
    idx = np.arange(1 << N, dtype=np.int64)
    bits = [(idx >> i) & 1 for i in range(N)]
    return [1 - 2 * b for b in bits] if spin else bits

def _table(np, terms, cols, size):
    """integer table of a polynomial {tuple of column indices: Fraction}; returns (table, scale)"""
    scale = 1
    for v in terms.values():
        scale = scale * v.denominator // math.gcd(scale, v.denominator)
    tot = np.zeros(size, dtype=np.int64)
    for k, v in terms.items():
        c = v * scale
        if abs(c.numerator) > (1 << 40):
            raise Infra("coefficient too large for the oracle")
        t = np.full(size, c.numerator, dtype=np.int64)
        for i in k:
            t = t * cols[i]
        tot += t
    return tot, scale

def oracle(case, info, ctx):
    """returns (message or None, tag)"""
    import numpy as np
    H, L = info["H"], info["L"]
    spin = case["kind"] == "PCSO"
    n = case["n"]
    user = [L.lab(i) for i in range(n)]
    if "build_error" in info:
        return "building the model failed: " + info["build_error"], "build"
    xs, f, feas = semantics(case)
    fstar = min(f[x] for x in xs if feas[x])
    xstar = {x for x in xs if feas[x] and f[x] == fstar}

    def check_solution(x, what, need_opt=True):
        """x: dict over H's labels (the model's own form).  Returns an error message or None."""
        missing = [l for l in user if l not in x]
        if missing:
            return "%s lacks the variables %r: %r" % (what, missing, x)
        try:
            ok = H.is_solution_valid(x)
        except Exception as e:
            return "%s: is_solution_valid raised %s on %r" % (what, exc_name(e), x)
        ux = tuple(x[l] for l in user)
        if ux not in f:
            return "%s is not an assignment of the model's family: %r" % (what, x)
        if not ok:
            return "%s = %r does not satisfy is_solution_valid" % (what, x)
        if not feas[ux]:
            return "%s = %r violates a constraint" % (what, x)
        if need_opt and ux not in xstar:
            return "%s = %r is feasible but f = %s there; the constrained optimum is %s" % (what, x, f[ux], fstar)
        # remove_ancilla_from_solution: exactly the non-ancilla part
        try:
            r = H.remove_ancilla_from_solution(x)
        except Exception as e:
            return "remove_ancilla_from_solution raised %s on %r" % (exc_name(e), x)
        want = {k: v for k, v in x.items() if k in set(user)}
        if r != want or list(r) != [k for k in x if k in want] or any(str(k).startswith("__a") for k in r):
            return "remove_ancilla_from_solution(%r) = %r, not the non-ancilla part %r" % (x, r, want)
        if len(r) != len(x) - sum(1 for k in x if isinstance(k, str) and k.startswith("__a")):
            return "remove_ancilla_from_solution(%r) dropped a non-ancilla entry: %r" % (x, r)
        return None

    # ---- solve_bruteforce: needs no condition on the weights
    for key in ("brute_one", "brute_all"):
        r = info[key + "_raw"]
        if isinstance(r, Exception):
            return "solve_bruteforce(%s) raised %s: %s" % ("all_solutions=True" if key == "brute_all" else "",
                                                          exc_name(r), str(r)[:80]), "bruteforce-error"
        sols = [r] if isinstance(r, dict) else list(r)
        if not sols or sols == [{}]:
            return "solve_bruteforce found no solution although the constraints are feasible", "bruteforce"
        for s in sols:
            bad = check_solution(s, "solve_bruteforce() result")
            if bad:
                return bad, "bruteforce"
    if not case["big"]:
        return None, "small-weights"

    # ---- every minimiser of every form
    mp = H.mapping
    nH = H.num_binary_variables
    skipped = 0
    for form in ("self", "pubo", "puso", "qubo", "quso"):
        if form == "self":
            fspin = spin
            terms = {tuple(mp[l] for l in k): Fraction(fs(v)) for k, v in H.items()}
            Rm = None
        else:
            fspin = form in ("puso", "quso")
            Rm = info["forms"][form]["obj"]
            if Rm is None:
                return "to_%s raised %s" % (form, info["forms"][form]["canon"]["err"]), "form-error"
            terms = {tuple(k): Fraction(fs(v)) for k, v in Rm.items()}
        N = max([nH] + [i + 1 for k in terms for i in k])
        if N > MAXVARS:
            skipped += 1
            continue
        size = 1 << N
        cols = _cols(np, N, fspin)
        tab, scale = _table(np, terms, cols, size)
        mn = int(tab.min())
        if Fraction(mn, scale) != fstar:
            return "minimum of %s is %s but the constrained optimum of f is %s" % (
                "the model" if form == "self" else "to_" + form, Fraction(mn, scale), fstar), "minimum:" + form
        mins = np.flatnonzero(tab == mn)
        ctx.count("minimisers", len(mins))
        # vectorised: the user part of every minimiser, read through H.mapping and the 0<->1 / 1<->-1 rule
        for ix in mins[:400]:
            ix = int(ix)
            s = [int(cols[i][ix]) for i in range(N)]
            if fspin == spin:
                own = s
            elif fspin:
                own = [(1 - v) // 2 for v in s]
            else:
                own = [1 - 2 * v for v in s]
            ux = tuple(own[mp[l]] for l in user)
            if not feas[ux] or ux not in xstar:
                return "minimiser %r of %s reads as %r on the variables: %s" % (
                    s, "the model" if form == "self" else "to_" + form, ux,
                    "infeasible" if not feas[ux] else "f = %s, optimum %s" % (f[ux], fstar)), "minimiser:" + form
        # the real API on a sample of the minimisers (all of them when few)
        sample = [int(i) for i in (mins if len(mins) <= 24 else list(mins[:12]) + list(mins[-12:]))]
        for ix in sample:
            s = [int(cols[i][ix]) for i in range(N)]
            if form == "self":
                x = {l: s[i] for l, i in mp.items()}
                val = H.value(x)
            else:
                try:
                    x = H.convert_solution(s, spin=fspin)
                except Exception as e:
                    return "convert_solution(%r, spin=%s) raised %s" % (s, fspin, exc_name(e)), "convert:" + form
                val = Rm.value(s)
            if Fraction(fs(val)) * scale != mn:
                return "value table mismatch on %s at %r (harness self-check)" % (form, s), "selfcheck"
            bad = check_solution(x, "minimiser %r of %s after convert_solution" % (s, form))
            if bad:
                return bad, "minimiser:" + form
    if skipped:
        ctx.count("forms-skipped-large", skipped)
    return None, "full"

# ------------------------------------------------------------------ correspondence

def wf_line(case, info):
    spin = case["kind"] == "PCSO"
    line = {"op": "wf", "spin": spin, "n": case["n"]}
    line["obj"] = case["obj"]
    line["steps"] = [dict(st, raw=True) if st["t"] == "cmp" else st for st in cons_steps(case)]
    if "book" in info:
        line["book"] = info["book"]
        line["mapping"] = info["mapping"]
    line["rmsols"] = info.get("rmsols", [])
    line["valids"] = info.get("valids", [])
    return line

def prepare_probes(case, info, rng):
    """assignment dicts handed to is_solution_valid / remove_ancilla_from_solution on both sides"""
    H, L = info["H"], info["L"]
    spin = case["kind"] == "PCSO"
    dom = domain(spin)
    labs = list(H.mapping)
    probes = []
    for _ in range(6):
        x = {l: rng.choice(dom) for l in labs}
        probes.append(x)
    for _ in range(4):                                   # partial dicts: a label is missing
        x = {l: rng.choice(dom) for l in labs}
        if x:
            del x[rng.choice(list(x))]
        if rng.random() < 0.5 and x:
            x = dict(reversed(list(x.items())))
        probes.append(x)
    probes.append({})
    for key in ("brute_one_raw", "brute_all_raw"):
        r = info.get(key)
        if isinstance(r, dict):
            probes.append(r)
        elif isinstance(r, list):
            probes += r[:3]
    info["probes"] = probes
    info["rmsols"] = [sol_ids(x, L) for x in probes]
    info["valids"] = info["rmsols"]
    vres, rres = [], []
    for x in probes:
        try:
            vres.append(bool(H.is_solution_valid(x)))
        except Exception as e:
            vres.append({"err": exc_name(e)})
        rres.append(sol_ids(H.remove_ancilla_from_solution(x), L))
    info["valid_impl"], info["removed_impl"] = vres, rres

def group_cons(lst):
    out = {}
    for r, p in lst:
        out.setdefault(r, []).append(p)
    return out

def compare(ctx, case, info, m):
    if "driver_error" in m:
        ctx.diff("driver", case, None, m); return
    spin = case["kind"] == "PCSO"
    if info.get("states") is None:
        # scenario model: only the finished object exists; compare it with the model's run of its own history
        if spin:
            fin = m.get("final", {})
            mf = {"err": fin["err"]} if "err" in fin else {"terms": fin.get("terms"), "anc": fin.get("anc"),
                                                           "cons": group_cons(fin.get("cons", []))}
            impl = {k: info["final"][k] for k in ("terms", "anc", "cons")} if "final" in info else None
        else:
            fin = m["steps"][-1]
            mf = {"err": fin["err"]} if "err" in fin else {"terms": fin["terms"], "anc": fin["anc"],
                                                           "cons": group_cons(fin["cons"]), "valid": fin["valid"]}
            impl = {k: info["final"][k] for k in ("terms", "anc", "cons", "valid")} if "final" in info else None
        if impl != mf:
            ctx.diff("variants", case, impl, mf)
    elif not spin:
        ms = []
        for s in m["steps"]:
            ms.append({"err": s["err"]} if "err" in s else
                      {"terms": s["terms"], "anc": s["anc"], "cons": group_cons(s["cons"]), "warns": s["warns"], "valid": s["valid"]})
        # a maintenance call is the identity of the model: the state after it is the state before it
        full, j = [ms[0]] if ms else [], 1
        for st in case["steps"]:
            if st["t"] == "maint":
                if full and "err" not in full[-1]:
                    full.append(full[-1])
            elif j < len(ms):
                full.append(ms[j]); j += 1
        ms = full
        if info["states"] != ms:
            ctx.diff("build", case, info["states"], ms)
    else:
        # PCSO: the model of C03 (Qv.Pcso.runHist) from PCSO(objective); final state
        fin = m.get("final", {})
        mf = {"err": fin["err"]} if "err" in fin else {"terms": fin.get("terms"), "anc": fin.get("anc"),
                                                       "cons": group_cons(fin.get("cons", [])), "warns": fin.get("warns")}
        last = info["states"][-1]
        impl = last if "err" in last else {k: last[k] for k in ("terms", "anc", "cons", "warns")}
        if impl != mf:
            ctx.diff("build-pcso", case, impl, mf)
    if "book" not in info:
        return
    if info["valid_impl"] != m["is_valid"]:
        ctx.diff("valid", case, info["valid_impl"], m["is_valid"])
    if info["removed_impl"] != m["removed"]:
        ctx.diff("remove", case, info["removed_impl"], m["removed"])
    if info["brute_one"] != m["brute_one"]:
        ctx.diff("brute", case, info["brute_one"], m["brute_one"])
    a, b = info["brute_all"], m["brute_all"]
    if "many" in a and "many" in b:
        sa, sb = sorted(map(json.dumps, a["many"])), sorted(map(json.dumps, b["many"]))
        if sa != sb or len(set(sa)) != len(sa):
            ctx.diff("brute", case, a, b)
    elif a != b:
        ctx.diff("brute", case, a, b)
    for t in ("qubo", "quso", "pubo", "puso"):
        if info["forms"][t]["canon"] != m["forms"][t]:
            ctx.diff("forms:" + t, case, info["forms"][t]["canon"], m["forms"][t])

def convert_cases(case, info, rng):
    """convert_solution of assignments of the target forms (list and dict form), real code vs op c04sol"""
    H, L = info["H"], info["L"]
    spin = case["kind"] == "PCSO"
    n = info["book"]["n"]
    rev = info["book"]["rm"]
    out = []
    for t in ("qubo", "quso"):
        Rm = info["forms"][t]["obj"]
        if Rm is None:
            continue
        N = max([n] + [i + 1 for k in Rm for i in k])
        fspin = t == "quso"
        for is_dict in (False, True):
            vals = [rng.choice(domain(fspin)) for _ in range(N)]
            s = dict(enumerate(vals)) if is_dict else vals
            try:
                x = H.convert_solution(s, spin=fspin)
                impl = {"assign": sorted([[L.ident(k), fs(v)] for k, v in x.items()])}
            except Exception as e:
                impl = {"err": exc_name(e)}
            line = {"op": "c04sol", "spin_model": spin, "rev": rev, "n": n, "sol": [[i, fs(v)] for i, v in enumerate(vals)],
                    "is_dict": is_dict, "flag": fspin}
            out.append((line, impl))
    return out

def pcso_penalty_lines(case):
    """PCSO: the boolean images puso_to_pubo(PUSO(P_i)) of the constraint polynomials (round 1)"""
    return [{"op": "c04conv", "f": "puso_to_pubo", "kind": "PUSO", "p": st["P"]} for st in cons_steps(case)]

def poly_add(a, b, sign=1):
    out = dict(a)
    for k, v in b.items():
        out[k] = out.get(k, 0) + sign * v
        if out[k] == 0:
            del out[k]
    return out

def process(ctx, cases):
    rng = ctx.rng
    infos, flat = [], []
    for c in cases:
        if "script" in c:
            # a scenario: one description + one finished object per model; reported with the whole scenario
            for sc, info in zip(sub_cases(c), run_scenario(c)):
                sc["report"] = dict(c, failing_model=sc["model"])
                flat.append(sc); infos.append(info)
        else:
            flat.append(c); infos.append(run_impl(c))
    cases = flat
    for c, info in zip(cases, infos):
        if "book" in info:
            prepare_probes(c, info, rng)
    models = common.run_driver([wf_line(c, i) for c, i in zip(cases, infos)])
    # convert_solution
    conv = []
    for c, i in zip(cases, infos):
        if "book" in i:
            for line, impl in convert_cases(c, i, rng):
                conv.append((c, line, impl))
    for (c, line, impl), m in zip(conv, common.run_driver([l for _, l, _ in conv])):
        ctx.traces += 1
        if impl != m:
            ctx.diff("convert", c.get("report", c), impl, m)
    # PCSO penalties through the existing ops (three rounds)
    pc = [(c, i) for c, i in zip(cases, infos) if c["kind"] == "PCSO" and "book" in i]
    r1_lines = [l for c, _ in pc for l in pcso_penalty_lines(c)]
    r1 = common.run_driver(r1_lines)
    pos, r2_lines = 0, []
    for c, _ in pc:
        seq = []
        for st in cons_steps(c):
            img = r1[pos]; pos += 1
            # PCSO hands `bounds` unchanged to the PCBO constraint on the boolean image (same function values)
            seq.append({"rel": st["rel"], "P": img.get("terms", []), "raw": True, "lam": st["lam"], "lt": st["lt"],
                        "lo": st.get("lo"), "hi": st.get("hi"), "sup": False})
        r2_lines.append({"op": "cons", "seq": seq})
    r2 = common.run_driver(r2_lines)
    r3 = common.run_driver([{"op": "c04conv", "f": "pubo_to_puso", "kind": "PCBO", "p": m.get("terms", [])} for m in r2])
    for (c, i), m2, m3 in zip(pc, r2, r3):
        L = i["L"]
        want = {}
        for k, v in c["obj"]:
            want = poly_add(want, {tuple(sorted(k)): Fraction(v)})
        want = poly_add(want, {tuple(k): Fraction(v) for k, v in m3.get("terms", [])})
        got = {tuple(k): Fraction(v) for k, v in canon_terms(i["H"], L)}
        ctx.traces += 1
        if want != got or m2.get("anc") != i["H"].num_ancillas:
            ctx.diff("pcso-pen", c.get("report", c), sorted([[list(k), fs(v)] for k, v in got.items()]),
                     sorted([[list(k), fs(v)] for k, v in want.items()]))
    # per case: comparison + direct oracle
    for c, info, m in zip(cases, infos, models):
        xs, f, feas = semantics(c)
        rep = c.get("report", c)
        last = info["states"][-1] if info.get("states") else info.get("final", {})
        nontrivial = (not all(feas.values())) and len(last.get("terms", [])) > len(c["obj"])
        ctx.case({k: v for k, v in c.items() if k != "report"}, nontrivial)
        ctx.traces += 1
        ctx.count("family:" + c["family"]); ctx.count("kind:" + c["kind"]); ctx.count("constraints:%d" % len(cons_steps(c)))
        for st in c["steps"]:
            if st["t"] == "maint":
                ctx.count("maint:" + st["op"]); continue
            ctx.count("step:" + (st["rel"] + (":log" if st["lt"] else ":unary") if st["t"] == "cmp"
                                 else ("eq_" if st["eq"] else "") + st["g"]))
            if st["t"] == "cmp":
                ctx.count("bounds:" + st.get("bm", "none"))
        if "book" in info:
            ctx.count("ancillas:%d" % info["H"].num_ancillas)
        nd = len(ctx.diffs)
        compare(ctx, c, info, m)
        for d in ctx.diffs[nd:]:
            d["case"] = rep
        bad, tag = oracle(c, info, ctx)
        ctx.count("oracle:" + tag)
        if bad:
            sig = "C08:" + tag
            if c["family"] == "uncovered" and (tag == "bruteforce-error" or "KeyError" in bad):
                sig = "C08:uncovered-constraint-variable"
            if "model" in c:
                bad = "model %d of the scenario (0 = base, then in order of derivation): %s" % (c["model"], bad)
            ctx.violation(sig, rep, bad)

def finalize(case):
    """recompute the `big` flag (all weights > max f - min f) from the truth table"""
    xs, f, feas = semantics(case)
    R = max(f.values()) - min(f.values())
    case["big"] = all(Fraction(st["lam"]) > R for st in cons_steps(case))
    return case

FIXED = [
    # the README model in small: chain objective, x1 == XOR(x0, x2), sum < 3
    {"family": "big", "kind": "PCBO", "n": 4, "labels": "str",
     "obj": [[[0, 1], "-2"], [[1], "1"], [[1, 2], "-2"], [[2], "1"], [[2, 3], "-2"], [[3], "1"]],
     "steps": [{"t": "logic", "eq": True, "g": "XOR", "ops": [c06.lbl(1), c06.lbl(0), c06.lbl(2)], "lam": "7/2"},
               {"t": "cmp", "rel": "lt", "P": [[[0], "1"], [[1], "1"], [[2], "1"], [[3], "1"], [[], "-3"]], "lt": True,
                "lo": None, "hi": None, "sup": False, "lam": "4"}], "big": True},
    # both pairs (0,1) and (2,3) are already replaced by ancillas when the degree-4 term is reduced (reuse, twice)
    {"family": "deep", "kind": "PCBO", "n": 5, "labels": "int",
     "obj": [[[0], "1"], [[1], "1"], [[2, 3, 4], "-2"], [[0, 1, 4], "-3"], [[0, 1, 2, 3], "4"]],
     "steps": [{"t": "cmp", "rel": "le", "P": [[[0], "1"], [[4], "1"], [[], "-1"]], "lt": True, "lo": None, "hi": None,
                "sup": False, "lam": "9"}], "big": True},
    {"family": "big", "kind": "PCSO", "n": 3, "labels": "int",
     "obj": [[[0, 1], "1"], [[1, 2], "-2"], [[0], "1"]],
     "steps": [{"t": "cmp", "rel": "ge", "P": [[[0], "1"], [[1], "1"], [[2], "1"], [[], "-1"]], "lt": False,
                "lo": None, "hi": None, "sup": False, "lam": "9"}], "big": True},
]

def check(ctx):
    rng = ctx.rng
    cases = [finalize(dict(c)) for c in FIXED]
    nq = ctx.scale(400, 4000)
    cases += [gen_case(rng, "big") for _ in range(int(nq * 0.68))]
    cases += [gen_case(rng, "small") for _ in range(int(nq * 0.27))]
    cases += [gen_case(rng, "uncovered") for _ in range(int(nq * 0.05))]
    cases += [gen_deep(rng) for _ in range(ctx.scale(60, 600))]
    cases += [gen_scenario(rng) for _ in range(ctx.scale(50, 500))]
    cases += fixed_histories()
    cases += [gen_history(rng) for _ in range(ctx.scale(100, 1000))]
    cases += fixed_nested()
    cases += [gen_nested(rng) for _ in range(ctx.scale(60, 600))]
    process(ctx, cases)
    if ctx.diffs and not ctx.violations:
        search(ctx)

def search(ctx):
    """failing-input search after a correspondence difference: the direct oracle on variants of the disagreeing
    workflows (each constraint alone, every label style, the other model kind where possible) and a fresh batch"""
    extra, seen = [], set()
    for d in ctx.diffs[:40]:
        c = d["case"]
        if not isinstance(c, dict) or "steps" not in c:
            continue
        for st in cons_steps(c):
            for style in Labels.STYLES:
                v = dict(c, steps=[st], labels=style)
                key = json.dumps(v, sort_keys=True)
                if key not in seen:
                    seen.add(key); extra.append(v)
    extra += [gen_case(ctx.rng, "big") for _ in range(1200)]
    extra += [gen_nested(ctx.rng) for _ in range(300)]
    for c in extra:
        xs, f, feas = semantics(c)
        if not any(feas.values()):
            continue
        R = max(f.values()) - min(f.values())
        c["big"] = all(Fraction(st["lam"]) > R for st in cons_steps(c))
        info = run_impl(c)
        bad, tag = oracle(c, info, ctx)
        if bad:
            ctx.violation("C08:" + tag, c, bad)

def replay(ctx, payload):
    c = payload.get("case") or (payload.get("first_difference") or {}).get("case")
    if not c or ("steps" not in c and "script" not in c):
        ctx.notes.append("replay file has no case; re-running the full check")
        return check(ctx)
    process(ctx, [c])
