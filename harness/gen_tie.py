"""Source-level tie (DESIGN.md §7): regenerate `lean/Qv/Gen/Source.lean` from the current qubovert source,
rebuild the equivalence proofs `Qv.Proofs.GenEq.<group>` against the hand-written model and audit their axioms.

    translate_and_build(prop_id) -> dict(ok, problems, functions, theorems, obligations, discharged)

`harness/run.py` calls it right after `common.lean_audit(prop)` and folds the result into the audit, so a
source edit that changes a generated definition and breaks its `*_eq_model` theorem is a broken proof
obligation of every property that relies on that function (DESIGN.md §2.4 then applies: failing-input
search, `VIOLATION ... [no-failing-input-found]`).
"""
import importlib, os, re, subprocess, sys
from . import common, translate, gen_search


def _relevant(prop):
    translate.load_ext()
    return [e for e in translate.REGISTRY if prop in e["props"]]


def _install_replay(prop, findings):
    """make the property's harness module replay the distinguishing inputs on the real code: after its own `check`
    (the staged /repo is importable by then), and for replay files written from such an input"""
    try:
        mod = sys.modules.get("harness." + prop.lower()) or importlib.import_module("harness." + prop.lower())
    except ImportError:
        return
    if getattr(mod, "_gen_tie_wrapped", False):
        mod._gen_tie_findings.clear()
        mod._gen_tie_findings.update(findings)
        return
    orig_check, orig_replay = mod.check, mod.replay
    mod._gen_tie_findings = dict(findings)

    def check(ctx):
        orig_check(ctx)
        gen_search.replay_findings(ctx, prop, mod._gen_tie_findings)

    def replay(ctx, payload):
        case = payload.get("case")
        if not isinstance(case, dict):
            case = (payload.get("first_difference") or {}).get("case")
        if isinstance(case, dict) and "gen_tie" in case:
            return gen_search.replay_case(ctx, prop, case)
        return orig_replay(ctx, payload)

    mod.check, mod.replay, mod._gen_tie_wrapped = check, replay, True


def translate_and_build(prop):
    entries = _relevant(prop)
    if not entries:
        return dict(ok=True, problems=[], functions=[], theorems=[], obligations=0, discharged=0)
    findings = {}
    groups = sorted({e["group"] for e in entries})
    problems, functions, theorems = [], [], []
    lock = common._lake_lock()          # translation + build + audit see one consistent Source.lean
    try:
        manifest = translate.write()
        recs = [r for r in manifest.values() if prop in r["props"]]
        for gen_file in translate.generated_files():
            src = common.strip_comments(open(os.path.join(translate.GEN_DIR, gen_file)).read())
            for ln, line in enumerate(src.splitlines(), 1):
                if common.FORBIDDEN.search(line):
                    problems.append("forbidden construct in generated Qv/Gen/%s:%d: %s" % (gen_file, ln, line.strip()))
        for r in recs:
            if r["status"] != "translated":
                problems.append("generated-source tie: %s `%s` is %s" % (r["file"], r["function"], r["status"]))
        by_name = {(r["file"], r["function"], r["lean_name"]): r for r in recs}
        discharged = 0
        # one `lake build` for all groups of this property (lake's start-up — hashing the whole import closure — is the
        # dominant cost of a no-op build); only when it fails are the groups built one by one to find out which stand
        targets = ["Qv.Proofs.GenEq." + g for g in groups]
        ball = subprocess.run(["lake", "build"] + targets, cwd=common.LEAN, capture_output=True, text=True)
        built_of = {g: True for g in groups} if ball.returncode == 0 else None
        names_of = {}
        for g in groups:
            names = []
            for e in entries:
                if e["group"] == g:
                    lean_name = "Qv.Gen." + e.get("lean", e["func"].split(".")[-1])
                    r = by_name[(e["file"], e["func"], lean_name)]
                    names.append((r, [r["theorem"]] + ["Qv.Gen." + t for t in e.get("extra_theorems", [])]))
            names_of[g] = names
        all_out = ""
        if built_of is not None:
            audit = "".join("import %s\n" % t for t in targets) + "".join(
                "#print axioms %s\n" % n for g in groups for _, ns in names_of[g] for n in ns)
            tmp = os.path.join(common.LEAN, ".lake", "audit_gen_%s_all_%d.lean" % (prop, os.getpid()))
            open(tmp, "w").write(audit)
            try:
                a = subprocess.run(["lake", "env", "lean", tmp], cwd=common.LEAN, capture_output=True, text=True)
            finally:
                os.unlink(tmp)
            all_out = a.stdout + a.stderr
        for g in groups:
            target = "Qv.Proofs.GenEq." + g
            if built_of is not None:
                built, out, names = True, all_out, names_of[g]
            else:
                b = subprocess.run(["lake", "build", target], cwd=common.LEAN, capture_output=True, text=True)
                built = b.returncode == 0
                names = names_of[g]
                out = ""
            if not built:
                log = b.stdout + b.stderr
                errs = [l for l in log.splitlines() if l.startswith("error:") and "build failed" not in l
                        and "Lean exited" not in l]
                problems.append("generated-source tie: %s no longer checks against the definitions generated "
                                "from the current source: %s" % (target, " | ".join(errs[:4])[:900] or log[-600:]))
                # the generated definitions still elaborate (only the proof broke): evaluate both sides on a
                # structured stream of inputs and report the first input on which they differ
                gnames = [e.get("lean", e["func"].split(".")[-1]) for e in entries if e["group"] == g
                          and by_name[(e["file"], e["func"], "Qv.Gen." + e.get("lean", e["func"].split(".")[-1]))]["status"]
                          == "translated"]
                found = gen_search.search_group(g, gnames)
                findings.update(found)
                differing = [n for n in gnames if found.get(n, {}).get("input") is not None]
                for n in differing + [n for n in gnames if n not in differing]:
                    problems.append("generated-source tie: " + gen_search.describe(n, found.get(n, dict(unavailable="not run"))))
            if built and built_of is None:
                audit = "import %s\n" % target + "".join("#print axioms %s\n" % n for _, ns in names for n in ns)
                tmp = os.path.join(common.LEAN, ".lake", "audit_gen_%s_%s_%d.lean" % (prop, g, os.getpid()))
                open(tmp, "w").write(audit)
                try:
                    a = subprocess.run(["lake", "env", "lean", tmp], cwd=common.LEAN, capture_output=True, text=True)
                finally:
                    os.unlink(tmp)
                out = a.stdout + a.stderr
            for r, ns in names:
                f_ok = built and r["status"] == "translated"
                for n in ns:
                    axs = None
                    m = re.search(r"'%s' depends on axioms: \[([^\]]*)\]" % re.escape(n), out)
                    if re.search(r"'%s' does not depend on any axioms" % re.escape(n), out):
                        axs = []
                    elif m:
                        axs = [x.strip() for x in m.group(1).replace("\n", " ").split(",") if x.strip()]
                    if built and axs is None:
                        problems.append("generated-source tie: no axiom report for " + n)
                    bad = [x for x in (axs or []) if x not in common.ALLOWED_AXIOMS]
                    if bad:
                        problems.append("generated-source tie: %s depends on %s" % (n, bad))
                    if axs is not None and not bad:
                        discharged += 1
                    else:
                        f_ok = False
                    theorems.append(dict(name=n, axioms=axs, generated_from=r["file"] + "::" + r["function"]))
                functions.append(dict(function=r["file"] + "::" + r["function"], lines=r["lines"],
                                      source_hash=r["source_hash"], lean_name=r["lean_name"], theorem=r["theorem"],
                                      status=r["status"], checked=f_ok, generated_file="Qv/Gen/" + r["unit"],
                                      not_translated=r["not_translated"],
                                      search=findings.get(r["lean_name"][len("Qv.Gen."):])))
        if os.path.realpath(translate.repo()) != os.path.realpath("/repo"):
            # a redirected run (seeded change): leave the tree with the file generated from /repo
            saved = os.environ.pop("VERIF_REPO", None)
            try:
                translate.write()
            finally:
                if saved is not None:
                    os.environ["VERIF_REPO"] = saved
    finally:
        lock.close()
    _install_replay(prop, {n: r for n, r in findings.items() if r.get("input") is not None})
    # the search lines first: run.py prints the first three problems
    problems.sort(key=lambda p: 0 if "distinguishing-input search: generated and model definitions" in p and " differ on " in p
                  else 1)
    return dict(ok=not problems, problems=problems, functions=functions, theorems=theorems,
                obligations=len(theorems), discharged=discharged, distinguishing=findings)


if __name__ == "__main__":
    import json, sys
    r = translate_and_build(sys.argv[1] if len(sys.argv) > 1 else "C15")
    print(json.dumps(r, indent=1))
    sys.exit(0 if r["ok"] else 1)
