"""C15 — approximate extrema enclose the true extrema; anneal_temperature_range is ordered and non-negative.

Families:
  extrema    approximate_{pubo,qubo,puso,quso}_extrema on raw dicts (unsorted / repeated labels) and on objects of the
             ten model types (constructor + item edits); returned pairs compared exactly with the Lean model; the
             object's terms and cached `_variables` are compared too (validates the bookkeeping the temperature model reads)
  bounds     qubovert._pcbo._get_bounds with every shape of `bounds`
  temprange  anneal_temperature_range on all accepted model types x flip-probability pairs (incl. 0 and inadmissible);
             the Lean model yields the rational (max dE, min dE) and the case split, the harness recomputes
             -dE/log(p) with math.log and compares within 1e-12 relative (the only tolerance, forced by log)
  stale      fixed histories whose terms cancelled, leaving the cached `_variables` stale: regression inputs of defect D6
             (repaired in /repo: the function reads the labels of the current keys); they must give (0, 0) / T0>=Tf>=0.
             Should the ValueError come back the oracle reports it under the signature
             C15:D6-temperature-range-stale-variables
Direct oracle (independent of the Lean model): truth tables of the object actually passed (n <= 10).
"""
import itertools, json, math
from fractions import Fraction
from . import common
from .common import Labels, fs, exc_name, canon_terms, snapshot

CEXT = "plain"
RULE = ("random term lists over <=10 labels (keys of length 0..4, unsorted and with repeated labels, int / Fraction / "
        "dyadic-float coefficients, zero coefficients in raw dicts) given as plain dicts or as objects of the ten model "
        "types built by the constructor (dict or list of pairs) and 0-3 item edits (+=, -=, =, biased towards "
        "cancellation); temperature range with flip probabilities from {0,.01,.1,.25,.5,.75,.99} plus inadmissible ones; "
        "a case is non-trivial when the passed model has >=2 terms and >=1 non-constant term; distinct = distinct case JSON")
ASSUMPTIONS = ["float coefficients are dyadic so IEEE arithmetic is exact; the boolean path of anneal_temperature_range "
               "(pubo_to_puso produces floats) is driven with dyadic coefficients only",
               "math.log and the final float division of anneal_temperature_range are outside the exact model: compared "
               "within 1e-12 relative tolerance against -dE/log(p) recomputed from the model's rational dE; the theorem "
               "T15.4 is about Real.log"]

BOOL_KINDS = ["QUBO", "PUBO", "PCBO", "QUBOMatrix", "PUBOMatrix"]
SPIN_KINDS = ["QUSO", "PUSO", "PCSO", "QUSOMatrix", "PUSOMatrix"]
DEG2 = {"QUBO", "QUSO", "QUBOMatrix", "QUSOMatrix"}
MATRIX = {"QUBOMatrix", "QUSOMatrix", "PUBOMatrix", "PUSOMatrix"}
D6 = "C15:D6-temperature-range-stale-variables"
TOL = 1e-12

def cls_of(name):
    import qubovert as qv
    from qubovert import utils
    return getattr(qv, name, None) or getattr(utils, name)

# ------------------------------------------------------------------ generation

def gen_coef(rng, dyadic, zero_ok=False):
    r = rng.random()
    if zero_ok and r < 0.06:
        return "0"
    if r < 0.55:
        return str(rng.choice([-5, -3, -2, -1, 1, 2, 3, 4, 7]))
    if dyadic or r < 0.8:
        return rng.choice(["1/2", "-1/2", "3/2", "-3/4", "5/8", "1/4", "-7/8", "9/4"])
    return rng.choice(["1/3", "-2/3", "5/7", "7/5", "-11/6"])

def gen_key(rng, n, kind):
    deg2 = kind in DEG2
    ln = rng.choice([0, 1, 1, 2, 2, 2, 3, 3, 4])
    if deg2:
        # keep the squashed key within two labels (a third one is a KeyError: covered by the malformed stream)
        base = [rng.randrange(n) for _ in range(min(ln, 2))]
        if rng.random() < 0.25 and base:
            spin = kind in SPIN_KINDS
            extra = rng.choice(base)
            base = base + ([extra, extra] if spin else [extra])
            rng.shuffle(base)
        return base
    return [rng.randrange(n) for _ in range(ln)]

def gen_terms(rng, n, kind, dyadic):
    m = rng.choice([0, 1, 1, 2, 3, 3, 4, 5, 6, 8])
    terms = [[gen_key(rng, n, kind), gen_coef(rng, dyadic, zero_ok=True)] for _ in range(m)]
    if kind == "dict" or rng.random() < 0.5:
        # a dict cannot hold two identical raw keys: keep the last value, first position (dict semantics)
        d = {}
        for k, v in terms:
            d[tuple(k)] = v
        terms = [[list(k), v] for k, v in d.items()]
        ctor = "dict"
    else:
        ctor = "pairs"
    return terms, ctor

def gen_edits(rng, n, kind, terms, dyadic):
    if kind == "dict" or rng.random() < 0.55:
        return []
    out = []
    for _ in range(rng.randint(1, 3)):
        r = rng.random()
        if terms and r < 0.6:
            k, v = rng.choice(terms)
            if rng.random() < 0.6:
                out.append(["add", list(k), fs(-Fraction(v))])          # cancel (exactly, if the key occurs once)
            else:
                out.append(["set", list(k), rng.choice(["0", gen_coef(rng, dyadic)])])
        else:
            out.append([rng.choice(["add", "set"]), gen_key(rng, n, kind), gen_coef(rng, dyadic, zero_ok=True)])
    return out

def gen_input(rng, fam, dyadic, kinds=None):
    """fam: 'bool' | 'spin' — which kinds may carry the terms (a plain dict is always possible)"""
    pool = ["dict", "dict"] + (BOOL_KINDS if fam == "bool" else SPIN_KINDS)
    kind = rng.choice(kinds or pool)
    n = rng.choice([1, 2, 3, 3, 4, 4, 5, 6, 8, 10])
    terms, ctor = gen_terms(rng, n, kind, dyadic)
    edits = gen_edits(rng, n, kind, terms, dyadic)
    labels = "int" if kind in MATRIX else rng.choice(Labels.STYLES_X)
    num = "float" if (dyadic and rng.random() < 0.4) else rng.choice(["int", "frac"])
    return {"kind": kind, "n": n, "p": terms, "ctor": ctor, "edits": edits, "labels": labels, "num": num}

def extrema_case(rng):
    fam = rng.choice(["bool", "spin"])
    c = gen_input(rng, fam, dyadic=rng.random() < 0.5)
    c["family"] = "extrema"
    deg2ok = c["kind"] in DEG2 or rng.random() < 0.3
    c["f"] = (rng.choice(["pubo", "qubo"] if deg2ok else ["pubo"]) if fam == "bool"
              else rng.choice(["puso", "quso"] if deg2ok else ["puso"]))
    return c

PROBS = ["0", "1/100", "1/10", "1/4", "1/2", "3/4", "99/100"]
BADPROBS = ["-1/10", "1", "3/2"]

def gen_probs(rng):
    r = rng.random()
    if r < 0.08:
        a, b = rng.choice(PROBS + BADPROBS), rng.choice(PROBS + BADPROBS)
        if rng.random() < 0.5:
            a = rng.choice(BADPROBS)
        return a, b
    a, b = rng.choice(PROBS), rng.choice(PROBS)
    if r < 0.16:
        return a, b                       # possibly end > start
    if Fraction(a) < Fraction(b):
        a, b = b, a
    return a, b

def temp_case(rng):
    spin = rng.random() < 0.5
    r = rng.random()
    fam = ("spin" if spin else "bool") if r < 0.92 else ("bool" if spin else "spin")   # a few mismatched types
    c = gen_input(rng, fam, dyadic=(not spin) or rng.random() < 0.5)
    ps, pe = gen_probs(rng)
    c.update(family="temprange", spin=spin, ps=ps, pe=pe, pstyle=rng.choice(["float", "float", "frac"]),
             defaults=False)
    if rng.random() < 0.05:
        c.update(ps="1/2", pe="1/100", defaults=True)
    return c

def stale_cases():
    out = []
    def tc(kind, p, edits, spin, ps="1/2", pe="1/100", labels="int", ctor="dict"):
        return {"family": "temprange", "sub": "stale", "kind": kind, "n": 3, "p": p, "ctor": ctor, "edits": edits,
                "labels": labels, "num": "int", "spin": spin, "ps": ps, "pe": pe, "pstyle": "float", "defaults": False}
    for k in SPIN_KINDS:
        out.append(tc(k, [[[0], "1"]], [["add", [0], "-1"]], True))
        out.append(tc(k, [[[0, 1], "2"], [[1], "1"], [[], "3"]], [["set", [0, 1], "0"], ["add", [1], "-1"]], True))
        out.append(tc(k, [[[0], "1"], [[1], "1"]], [["add", [0], "-1"]], True))        # stale label, others remain
        out.append(tc(k, [[[0], "1"], [[0], "-1"]], [], True, ctor="pairs"))            # cancelled inside the constructor
        out.append(tc(k, [[[0], "1"]], [["add", [0], "-1"]], True, ps="0", pe="0"))
    for k in BOOL_KINDS:
        out.append(tc(k, [[[0], "1"]], [["add", [0], "-1"]], False))
        out.append(tc(k, [[[0, 1], "2"], [[1], "1"], [[], "3"]], [["set", [0, 1], "0"], ["add", [1], "-1"]], False))
        out.append(tc(k, [[[0], "1"], [[0], "-1"]], [], False, ctor="pairs"))
    out.append(tc("dict", [[[0], "1"], [[0, 0], "-1"]], [], False))
    out.append(tc("dict", [[[0, 1], "1"], [[1, 0], "-1"]], [], False))
    out.append(tc("dict", [[[0, 1], "1"], [[1, 0], "-1"]], [], True))
    out.append(tc("dict", [[[0], "0"]], [], True))
    out.append(tc("dict", [[[0], "0"]], [], False))
    out.append(tc("dict", [], [], True)); out.append(tc("dict", [], [], False))
    out.append(tc("dict", [[[], "5"]], [], True)); out.append(tc("dict", [[[], "5"]], [], False))
    for k in SPIN_KINDS + BOOL_KINDS:
        out.append(tc(k, [], [], k in SPIN_KINDS))
        out.append(tc(k, [[[], "-7"]], [], k in SPIN_KINDS))
        if k not in MATRIX:
            out.append(tc(k, [[[0], "1"]], [["add", [0], "-1"]], k in SPIN_KINDS, labels="str"))
    return out

def malformed_cases(rng, m):
    """objects that cannot be built (degree-2 types with three labels): the functions are never reached"""
    out = []
    for _ in range(m):
        kind = rng.choice(sorted(DEG2))
        p = [[[0, 1], "1"], [rng.sample(range(5), 3), "2"]]
        c = {"kind": kind, "n": 5, "p": p, "ctor": "pairs", "edits": [], "labels": "int", "num": "int"}
        if rng.random() < 0.5:
            c.update(family="extrema", f="qubo" if kind in BOOL_KINDS else "quso")
        else:
            c.update(family="temprange", spin=kind in SPIN_KINDS, ps="1/2", pe="1/100", pstyle="float", defaults=False)
        out.append(c)
    return out

def bounds_case(rng):
    n = rng.choice([1, 2, 3, 4, 6])
    terms, _ = gen_terms(rng, n, "PUBO", False)
    shape = rng.choice(["none", "nn", "nh", "ln", "lh"])
    return {"family": "bounds", "kind": "PUBO", "n": n, "p": terms, "ctor": "pairs", "edits": [], "labels": rng.choice(Labels.STYLES_X),
            "num": rng.choice(["int", "frac"]), "shape": shape, "lo": gen_coef(rng, False), "hi": gen_coef(rng, False)}

# ------------------------------------------------------------------ implementation side

def num_of(s, style):
    f = Fraction(s)
    if style == "float" and (f.denominator & (f.denominator - 1)) == 0:
        return float(f)
    if f.denominator == 1 and style != "frac":
        return int(f)
    return f

def build(case):
    """the object the caller holds: a plain dict or a model object after its edits"""
    L = Labels(case["labels"])
    items = [(L.key(k), num_of(v, case["num"])) for k, v in case["p"]]
    if case["kind"] == "dict":
        return dict(items), L
    obj = cls_of(case["kind"])(dict(items) if case["ctor"] == "dict" else items)
    for op, k, v in case["edits"]:
        key, val = L.key(k), num_of(v, case["num"])
        if op == "set":
            obj[key] = val
        elif Fraction(v) < 0 and case["num"] != "float":
            obj[key] -= -val
        else:
            obj[key] += val
    return obj, L

def run_extrema(case):
    from qubovert import utils
    try:
        obj, L = build(case)
    except Exception as e:
        return {"build_err": exc_name(e)}, None
    s0 = snapshot(obj)
    try:
        r = getattr(utils, "approximate_%s_extrema" % case["f"])(obj)
    except Exception as e:
        return {"err": exc_name(e)}, obj
    out = {"lo": fs(r[0]), "hi": fs(r[1])}
    if snapshot(obj) != s0:
        out["mutated"] = True
    if case["kind"] != "dict":
        out["terms"] = canon_terms(obj, L)
        out["vars"] = sorted(L.ident(x) for x in obj._variables)
    return out, obj

def run_bounds(case):
    from qubovert._pcbo import _get_bounds
    obj, L = build(case)
    lo, hi = num_of(case["lo"], case["num"]), num_of(case["hi"], case["num"])
    b = {"none": None, "nn": (None, None), "nh": (None, hi), "ln": (lo, None), "lh": (lo, hi)}[case["shape"]]
    try:
        r = _get_bounds(obj, b)
    except Exception as e:
        return {"err": exc_name(e)}, obj
    return {"lo": fs(r[0]), "hi": fs(r[1])}, obj

def prob_of(s, style):
    f = Fraction(s)
    if f.denominator == 1:
        return int(f) if style == "frac" else float(f)
    return f if style == "frac" else float(f)

def run_temp(case):
    from qubovert.sim import anneal_temperature_range
    try:
        obj, L = build(case)
    except Exception as e:
        return {"build_err": exc_name(e)}, None
    s0 = snapshot(obj)
    try:
        if case.get("defaults"):
            r = anneal_temperature_range(obj, spin=case["spin"])
        else:
            r = anneal_temperature_range(obj, prob_of(case["ps"], case["pstyle"]), prob_of(case["pe"], case["pstyle"]),
                                         case["spin"])
    except Exception as e:
        return {"err": exc_name(e), "msg": str(e)[:80]}, obj
    out = {"T0": r[0], "Tf": r[1]}
    if snapshot(obj) != s0:
        out["mutated"] = True
    return out, obj

def model_line(case):
    base = {"kind": case["kind"], "p": case["p"], "edits": case["edits"]}
    if case["family"] == "extrema":
        return dict(base, op="extrema", f=case["f"])
    if case["family"] == "bounds":
        sh = case["shape"]
        return dict(op="getbounds", kind="PUBO", p=case["p"], edits=[],
                    lo=(case["lo"] if sh[0] == "l" else None), hi=(case["hi"] if sh[1:] == "h" else None))
    # the probabilities exactly as the implementation receives them
    ps = Fraction(prob_of(case["ps"], case["pstyle"])); pe = Fraction(prob_of(case["pe"], case["pstyle"]))
    return dict(base, op="temprange", ps=fs(ps), pe=fs(pe), spin=case["spin"])

# ------------------------------------------------------------------ direct oracle (shares nothing with the Lean model)

def items_of(obj):
    """the terms of the object that was passed, as (tuple of labels, Fraction)"""
    return [(tuple(k), Fraction(v)) for k, v in obj.items()]

def truth_table(items, spin):
    """(min, max) over all assignments of sum_k v_k * prod_{i in k} x_i, literally multiplied (repeated labels twice);
    integer arithmetic after clearing denominators"""
    labs = []
    for k, _ in items:
        for i in k:
            if i not in labs:
                labs.append(i)
    if len(labs) > 10:
        return None
    den = 1
    for _, v in items:
        den = den * v.denominator // math.gcd(den, v.denominator)
    idx = {l: j for j, l in enumerate(labs)}
    tk = [([idx[i] for i in k], int(v * den)) for k, v in items]
    vals = (1, -1) if spin else (0, 1)
    lo = hi = None
    for x in itertools.product(vals, repeat=len(labs)):
        tot = 0
        for k, v in tk:
            m = v
            for j in k:
                m *= x[j]
            tot += m
        lo = tot if lo is None or tot < lo else lo
        hi = tot if hi is None or tot > hi else hi
    return Fraction(lo, den), Fraction(hi, den)

def extrema_oracle(case, out, obj):
    if obj is None or "build_err" in out:
        return None
    if "err" in out:
        return "approximate_%s_extrema raised %s" % (case["f"], out["err"])
    if out.get("mutated"):
        return "approximate_%s_extrema modified its argument" % case["f"]
    lo, hi = Fraction(out["lo"]), Fraction(out["hi"])
    items = items_of(obj)
    spin = case["f"] in ("puso", "quso")
    tt = truth_table(items, spin)
    if tt is None:
        return None
    if not (lo <= tt[0]):
        return "lo = %s exceeds the true minimum %s of %s" % (lo, tt[0], dict(obj))
    if not (hi >= tt[1]):
        return "hi = %s is below the true maximum %s of %s" % (hi, tt[1], dict(obj))
    if all(len(k) == 0 for k, _ in items):
        const = sum((v for _, v in items), Fraction(0))
        if not (lo == hi == const):
            return "constant model %s: (lo, hi) = (%s, %s), expected both %s" % (dict(obj), lo, hi, const)
    return None

def bounds_oracle(case, out, obj):
    if "err" in out:
        return "_get_bounds raised " + out["err"]
    lo, hi = Fraction(out["lo"]), Fraction(out["hi"])
    tt = truth_table(items_of(obj), False)
    sh = case["shape"]
    if sh in ("none", "nn", "nh") and not lo <= tt[0]:
        return "computed lower bound %s exceeds the true minimum %s" % (lo, tt[0])
    if sh in ("none", "nn", "ln") and not hi >= tt[1]:
        return "computed upper bound %s is below the true maximum %s" % (hi, tt[1])
    if sh[0] == "l" and lo != Fraction(case["lo"]):
        return "supplied lower bound was not kept"
    if sh[1:] == "h" and hi != Fraction(case["hi"]):
        return "supplied upper bound was not kept"
    return None

def admissible(case):
    ps, pe = Fraction(case["ps"]), Fraction(case["pe"])
    return 0 <= pe <= ps < 1

def temp_oracle(case, out, obj):
    """returns (signature, why) or None"""
    if obj is None or "build_err" in out:
        return None
    if not admissible(case):
        return None         # the property speaks about admissible probability pairs only (errors compared by the correspondence)
    items = items_of(obj)
    novars = all(len(k) == 0 for k, _ in items)
    if "err" in out:
        tt = truth_table(items, case["spin"])
        const = tt is not None and tt[0] == tt[1]
        # D6 is narrow: a label was stored with a non-zero value at some time (so a cache can be stale) and the
        # terms cancelled; ValueError on a model that never had a variable is a different failure
        if case["spin"]:
            ever = bool(getattr(obj, "_variables", None))
        else:
            ever = any(len(k) > 0 and v != 0 for k, v in items)
        if out["err"] == "ValueError" and const and ever:
            return (D6, "anneal_temperature_range(%s %s, %s, %s, spin=%s) raises ValueError(%s) on a model whose terms "
                        "cancelled (%s) instead of returning (0, 0): the cached variable set is stale"
                    % (case["kind"], dict(obj), case["ps"], case["pe"], case["spin"], out.get("msg"),
                       "no variables left" if novars else "constant function"))
        return ("C15:temperature-range-raises", "anneal_temperature_range raised %s(%s) on admissible input %s"
                % (out["err"], out.get("msg"), dict(obj)))
    if out.get("mutated"):
        return ("C15:temperature-range-mutates", "anneal_temperature_range modified its argument")
    T0, Tf = out["T0"], out["Tf"]
    if not (T0 >= Tf >= 0):                       # also false for nan
        return ("C15:temperature-range-order", "T0 >= Tf >= 0 fails: (T0, Tf) = (%r, %r) for %s" % (T0, Tf, dict(obj)))
    if novars and not (T0 == 0 and Tf == 0):
        return ("C15:temperature-range-novars", "model without variables %s gives (%r, %r), expected (0, 0)"
                % (dict(obj), T0, Tf))
    return None

# ------------------------------------------------------------------ comparison

def close(a, b):
    return a == b or abs(a - b) <= TOL * max(abs(a), abs(b))

def temp_matches(case, out, m):
    """impl result vs model result (rational dE + case split); only -dE/log(p) is compared with a tolerance"""
    if "build_err" in out or "build_err" in m:
        return out.get("build_err") == m.get("build_err")
    if "err" in out or "err" in m:
        return out.get("err") == m.get("err")
    if out.get("mutated"):
        return False
    for name, pkey in (("T0", "ps"), ("Tf", "pe")):
        got, want = out[name], m[name]
        if want == "zero":
            if got != 0:
                return False
        else:
            p = float(prob_of(case[pkey], case["pstyle"]))
            dE = Fraction(want["dE"])
            if not close(float(got), -float(dE) / math.log(p)):
                return False
    return True

def nontrivial(case):
    return len(case["p"]) >= 2 and any(len(k) > 0 and Fraction(v) != 0 for k, v in case["p"])

def process(ctx, cases):
    lines = [model_line(c) for c in cases]
    models = common.run_driver(lines)
    for c, m in zip(cases, models):
        fam = c["family"]
        if fam == "extrema":
            out, obj = run_extrema(c)
            tag = "extrema:%s:%s" % (c["f"], c["kind"])
            if "build_err" in out:
                tag += ":build_err"
            if out != m:
                ctx.diff("extrema", c, out, m)
            bad = extrema_oracle(c, out, obj)
            if bad:
                ctx.violation("C15:extrema-" + c["f"], c, bad)
        elif fam == "bounds":
            out, obj = run_bounds(c)
            tag = "bounds:" + c["shape"]
            if out != m:
                ctx.diff("bounds", c, out, m)
            bad = bounds_oracle(c, out, obj)
            if bad:
                ctx.violation("C15:get-bounds", c, bad)
        else:
            out, obj = run_temp(c)
            shape = ("build_err" if "build_err" in out else "err:" + out["err"] if "err" in out else
                     "%s,%s" % ("0" if out["T0"] == 0 else "+", "0" if out["Tf"] == 0 else "+"))
            tag = "temprange:%s:%s:%s" % ("spin" if c["spin"] else "bool", c["kind"], shape)
            if not temp_matches(c, out, m):
                ctx.diff("temprange", c, out, m)
            bad = temp_oracle(c, out, obj)
            if bad:
                ctx.violation(bad[0], c, bad[1])
                ctx.count("oracle:%s:%s" % (bad[0], c.get("sub", "random")))
        ctx.case(c, nontrivial(c)); ctx.count(tag); ctx.traces += 1

def check(ctx):
    rng = ctx.rng
    cases = stale_cases()
    cases += [extrema_case(rng) for _ in range(ctx.scale(2000, 40000))]
    cases += [temp_case(rng) for _ in range(ctx.scale(2000, 40000))]
    cases += [bounds_case(rng) for _ in range(ctx.scale(200, 2000))]
    cases += malformed_cases(rng, ctx.scale(40, 400))
    process(ctx, cases)
    if [d for d in ctx.diffs] and not [v for v in ctx.violations if v["signature"] != D6]:
        search(ctx)

def search(ctx):
    """failing-input search after a correspondence difference: the direct oracle alone on shrunk variants of the
    disagreeing cases (every sub-list of terms obtained by dropping one term / all edits) and on a fresh larger batch"""
    extra = []
    for d in ctx.diffs[:60]:
        c = d["case"]
        for i in range(len(c["p"])):
            extra.append(dict(c, p=c["p"][:i] + c["p"][i + 1:]))
        if c.get("edits"):
            extra.append(dict(c, edits=[]))
    extra += [extrema_case(ctx.rng) for _ in range(4000)] + [temp_case(ctx.rng) for _ in range(4000)]
    for c in extra:
        if c["family"] == "extrema":
            out, obj = run_extrema(c)
            bad = extrema_oracle(c, out, obj)
            if bad:
                ctx.violation("C15:extrema-" + c["f"], c, bad)
        elif c["family"] == "bounds":
            out, obj = run_bounds(c)
            bad = bounds_oracle(c, out, obj)
            if bad:
                ctx.violation("C15:get-bounds", c, bad)
        else:
            out, obj = run_temp(c)
            bad = temp_oracle(c, out, obj)
            if bad:
                ctx.violation(bad[0], c, bad[1])

def replay(ctx, payload):
    c = payload.get("case") or (payload.get("first_difference") or {}).get("case")
    if not c:
        ctx.notes.append("replay file has no case; re-running the full check")
        return check(ctx)
    process(ctx, [c])
