"""C15 — approximate extrema enclose the true extrema; anneal_temperature_range is ordered and non-negative.

Families:
  extrema    approximate_{pubo,qubo,puso,quso}_extrema on raw dicts (unsorted / repeated labels) and on objects of the
             ten model types (constructor + item edits); returned pairs compared exactly with the Lean model; the
             object's terms and cached `_variables` are compared too (validates the bookkeeping the temperature model reads)
  bounds     qubovert._pcbo._get_bounds with every shape of `bounds`
  temprange  anneal_temperature_range on all accepted model types x flip-probability pairs (incl. 0 and inadmissible);
             the Lean model yields the rational (max dE, min dE) and the case split, the harness recomputes
             -dE/log(p) with math.log and compares within 1e-12 relative (the only tolerance, forced by log)
  stale      fixed histories whose terms cancelled, leaving the cached `_variables` stale: regression inputs of defect D6
             (repaired in /repo: the function reads the labels of the current keys); they must give (0, 0) / T0>=Tf>=0.
             Should the ValueError come back the oracle reports it under the signature
             C15:D6-temperature-range-stale-variables
  hist       HISTORIES on one model object (all ten model classes): queries (the four extrema functions, `_get_bounds`)
             interleaved with in-place edits of the same object — item `=`, `+=`, `-=`, `M += c`, `M -= c`, `M += {..}`,
             `M -= {..}`, `M *= c`, `M /= c`, `update`, `del M[k]`, `pop`, `refresh()`, `clear()`, `copy()` — biased towards
             edits that cancel a term / the offset / all variable terms EXACTLY right before the next query (a write whose
             result is 0 removes the entry).  Every query is judged against the truth table of the terms the object holds at
             that moment (whatever the object remembers from an earlier query must not show); answers and final terms are
             also compared with the Lean model (driver op `extrema_hist`: the `Qv.Model.Arith` operators, then the folds).
             Exhaustive part: ten classes x three base models x every single cancelling edit x both function names
  types      coefficient TYPES: Python bool, numpy.bool_, numpy int64/int32/int8, numpy float64/float32, int, float,
             Fraction — homogeneous and mixed, in raw dicts, constructor arguments and model objects written by item
             assignment (`M[k] = v`), each term list in several insertion orders (offset first / last, flags before / after
             the numbers, shuffled); judged by the enclosure oracle on the exact rationals of the numeric values (True = 1);
             compared with the Lean model on those rationals.  Exhaustive part: the three-flag model {(): 1, (0,): 1, (1,): 1}
             with every assignment of {bool, numpy.bool_, int} to its entries x all six insertion orders x dict / assignment
             x boolean / spin
Direct oracle (independent of the Lean model): truth tables of the object actually passed (n <= 10).
"""
import itertools, json, math
from fractions import Fraction
from . import common
from .common import Labels, fs, exc_name, canon_terms, snapshot

CEXT = "plain"
RULE = ("random term lists over <=10 labels (keys of length 0..4, unsorted and with repeated labels, int / Fraction / "
        "dyadic-float coefficients, zero coefficients in raw dicts) given as plain dicts or as objects of the ten model "
        "types built by the constructor (dict or list of pairs) and 0-3 item edits (+=, -=, =, biased towards "
        "cancellation); temperature range with flip probabilities from {0,.01,.1,.25,.5,.75,.99} plus inadmissible ones; "
        "histories on one object (query, in-place edits incl. exact cancellation of a term / the offset, query again; all ten "
        "classes; 14 edit kinds); coefficient types bool / numpy.bool_ / numpy ints and floats / Fraction, mixed, in several "
        "insertion orders, in dicts, constructor arguments and objects written by item assignment; "
        "a case is non-trivial when the passed model has >=2 terms and >=1 non-constant term; distinct = distinct case JSON")
ASSUMPTIONS = ["float coefficients are dyadic so IEEE arithmetic is exact; the boolean path of anneal_temperature_range "
               "(pubo_to_puso produces floats) is driven with dyadic coefficients only",
               "numpy fixed-width integers are used only where every partial sum and every negation stays inside the type "
               "(signed types, |v| <= 7, at most 8 terms): numpy's wrap-around (int8 overflow, `0 - uint8(3) == 253`) is not "
               "arithmetic of real numbers and is outside the property's quantifier",
               "math.log and the final float division of anneal_temperature_range are outside the exact model: compared "
               "within 1e-12 relative tolerance against -dE/log(p) recomputed from the model's rational dE; the theorem "
               "T15.4 is about Real.log"]

BOOL_KINDS = ["QUBO", "PUBO", "PCBO", "QUBOMatrix", "PUBOMatrix"]
SPIN_KINDS = ["QUSO", "PUSO", "PCSO", "QUSOMatrix", "PUSOMatrix"]
DEG2 = {"QUBO", "QUSO", "QUBOMatrix", "QUSOMatrix"}
MATRIX = {"QUBOMatrix", "QUSOMatrix", "PUBOMatrix", "PUSOMatrix"}
D6 = "C15:D6-temperature-range-stale-variables"
TOL = 1e-12

def cls_of(name):
    import qubovert as qv
    from qubovert import utils
    return getattr(qv, name, None) or getattr(utils, name)

# ------------------------------------------------------------------ generation

def gen_coef(rng, dyadic, zero_ok=False):
    r = rng.random()
    if zero_ok and r < 0.06:
        return "0"
    if r < 0.55:
        return str(rng.choice([-5, -3, -2, -1, 1, 2, 3, 4, 7]))
    if dyadic or r < 0.8:
        return rng.choice(["1/2", "-1/2", "3/2", "-3/4", "5/8", "1/4", "-7/8", "9/4"])
    return rng.choice(["1/3", "-2/3", "5/7", "7/5", "-11/6"])

def gen_key(rng, n, kind):
    deg2 = kind in DEG2
    ln = rng.choice([0, 1, 1, 2, 2, 2, 3, 3, 4])
    if deg2:
        # keep the squashed key within two labels (a third one is a KeyError: covered by the malformed stream)
        base = [rng.randrange(n) for _ in range(min(ln, 2))]
        if rng.random() < 0.25 and base:
            spin = kind in SPIN_KINDS
            extra = rng.choice(base)
            base = base + ([extra, extra] if spin else [extra])
            rng.shuffle(base)
        return base
    return [rng.randrange(n) for _ in range(ln)]

def gen_terms(rng, n, kind, dyadic):
    m = rng.choice([0, 1, 1, 2, 3, 3, 4, 5, 6, 8])
    terms = [[gen_key(rng, n, kind), gen_coef(rng, dyadic, zero_ok=True)] for _ in range(m)]
    if kind == "dict" or rng.random() < 0.5:
        # a dict cannot hold two identical raw keys: keep the last value, first position (dict semantics)
        d = {}
        for k, v in terms:
            d[tuple(k)] = v
        terms = [[list(k), v] for k, v in d.items()]
        ctor = "dict"
    else:
        ctor = "pairs"
    return terms, ctor

def gen_edits(rng, n, kind, terms, dyadic):
    if kind == "dict" or rng.random() < 0.55:
        return []
    out = []
    for _ in range(rng.randint(1, 3)):
        r = rng.random()
        if terms and r < 0.6:
            k, v = rng.choice(terms)
            if rng.random() < 0.6:
                out.append(["add", list(k), fs(-Fraction(v))])          # cancel (exactly, if the key occurs once)
            else:
                out.append(["set", list(k), rng.choice(["0", gen_coef(rng, dyadic)])])
        else:
            out.append([rng.choice(["add", "set"]), gen_key(rng, n, kind), gen_coef(rng, dyadic, zero_ok=True)])
    return out

def gen_input(rng, fam, dyadic, kinds=None):
    """fam: 'bool' | 'spin' — which kinds may carry the terms (a plain dict is always possible)"""
    pool = ["dict", "dict"] + (BOOL_KINDS if fam == "bool" else SPIN_KINDS)
    kind = rng.choice(kinds or pool)
    n = rng.choice([1, 2, 3, 3, 4, 4, 5, 6, 8, 10])
    terms, ctor = gen_terms(rng, n, kind, dyadic)
    edits = gen_edits(rng, n, kind, terms, dyadic)
    labels = "int" if kind in MATRIX else rng.choice(Labels.STYLES_X)
    num = "float" if (dyadic and rng.random() < 0.4) else rng.choice(["int", "frac"])
    return {"kind": kind, "n": n, "p": terms, "ctor": ctor, "edits": edits, "labels": labels, "num": num}

def extrema_case(rng):
    fam = rng.choice(["bool", "spin"])
    c = gen_input(rng, fam, dyadic=rng.random() < 0.5)
    c["family"] = "extrema"
    deg2ok = c["kind"] in DEG2 or rng.random() < 0.3
    c["f"] = (rng.choice(["pubo", "qubo"] if deg2ok else ["pubo"]) if fam == "bool"
              else rng.choice(["puso", "quso"] if deg2ok else ["puso"]))
    return c

PROBS = ["0", "1/100", "1/10", "1/4", "1/2", "3/4", "99/100"]
BADPROBS = ["-1/10", "1", "3/2"]

def gen_probs(rng):
    r = rng.random()
    if r < 0.08:
        a, b = rng.choice(PROBS + BADPROBS), rng.choice(PROBS + BADPROBS)
        if rng.random() < 0.5:
            a = rng.choice(BADPROBS)
        return a, b
    a, b = rng.choice(PROBS), rng.choice(PROBS)
    if r < 0.16:
        return a, b                       # possibly end > start
    if Fraction(a) < Fraction(b):
        a, b = b, a
    return a, b

def temp_case(rng):
    spin = rng.random() < 0.5
    r = rng.random()
    fam = ("spin" if spin else "bool") if r < 0.92 else ("bool" if spin else "spin")   # a few mismatched types
    c = gen_input(rng, fam, dyadic=(not spin) or rng.random() < 0.5)
    ps, pe = gen_probs(rng)
    c.update(family="temprange", spin=spin, ps=ps, pe=pe, pstyle=rng.choice(["float", "float", "frac"]),
             defaults=False)
    if rng.random() < 0.05:
        c.update(ps="1/2", pe="1/100", defaults=True)
    return c

def stale_cases():
    out = []
    def tc(kind, p, edits, spin, ps="1/2", pe="1/100", labels="int", ctor="dict"):
        return {"family": "temprange", "sub": "stale", "kind": kind, "n": 3, "p": p, "ctor": ctor, "edits": edits,
                "labels": labels, "num": "int", "spin": spin, "ps": ps, "pe": pe, "pstyle": "float", "defaults": False}
    for k in SPIN_KINDS:
        out.append(tc(k, [[[0], "1"]], [["add", [0], "-1"]], True))
        out.append(tc(k, [[[0, 1], "2"], [[1], "1"], [[], "3"]], [["set", [0, 1], "0"], ["add", [1], "-1"]], True))
        out.append(tc(k, [[[0], "1"], [[1], "1"]], [["add", [0], "-1"]], True))        # stale label, others remain
        out.append(tc(k, [[[0], "1"], [[0], "-1"]], [], True, ctor="pairs"))            # cancelled inside the constructor
        out.append(tc(k, [[[0], "1"]], [["add", [0], "-1"]], True, ps="0", pe="0"))
    for k in BOOL_KINDS:
        out.append(tc(k, [[[0], "1"]], [["add", [0], "-1"]], False))
        out.append(tc(k, [[[0, 1], "2"], [[1], "1"], [[], "3"]], [["set", [0, 1], "0"], ["add", [1], "-1"]], False))
        out.append(tc(k, [[[0], "1"], [[0], "-1"]], [], False, ctor="pairs"))
    out.append(tc("dict", [[[0], "1"], [[0, 0], "-1"]], [], False))
    out.append(tc("dict", [[[0, 1], "1"], [[1, 0], "-1"]], [], False))
    out.append(tc("dict", [[[0, 1], "1"], [[1, 0], "-1"]], [], True))
    out.append(tc("dict", [[[0], "0"]], [], True))
    out.append(tc("dict", [[[0], "0"]], [], False))
    out.append(tc("dict", [], [], True)); out.append(tc("dict", [], [], False))
    out.append(tc("dict", [[[], "5"]], [], True)); out.append(tc("dict", [[[], "5"]], [], False))
    for k in SPIN_KINDS + BOOL_KINDS:
        out.append(tc(k, [], [], k in SPIN_KINDS))
        out.append(tc(k, [[[], "-7"]], [], k in SPIN_KINDS))
        if k not in MATRIX:
            out.append(tc(k, [[[0], "1"]], [["add", [0], "-1"]], k in SPIN_KINDS, labels="str"))
    return out

def malformed_cases(rng, m):
    """objects that cannot be built (degree-2 types with three labels): the functions are never reached"""
    out = []
    for _ in range(m):
        kind = rng.choice(sorted(DEG2))
        p = [[[0, 1], "1"], [rng.sample(range(5), 3), "2"]]
        c = {"kind": kind, "n": 5, "p": p, "ctor": "pairs", "edits": [], "labels": "int", "num": "int"}
        if rng.random() < 0.5:
            c.update(family="extrema", f="qubo" if kind in BOOL_KINDS else "quso")
        else:
            c.update(family="temprange", spin=kind in SPIN_KINDS, ps="1/2", pe="1/100", pstyle="float", defaults=False)
        out.append(c)
    return out

def bounds_case(rng):
    n = rng.choice([1, 2, 3, 4, 6])
    terms, _ = gen_terms(rng, n, "PUBO", False)
    shape = rng.choice(["none", "nn", "nh", "ln", "lh"])
    return {"family": "bounds", "kind": "PUBO", "n": n, "p": terms, "ctor": "pairs", "edits": [], "labels": rng.choice(Labels.STYLES_X),
            "num": rng.choice(["int", "frac"]), "shape": shape, "lo": gen_coef(rng, False), "hi": gen_coef(rng, False)}

# ------------------------------------------------------------------ histories on one model object

def squash_prop(kind, k):
    """generator-side reading of a key as a monomial (x*x = x on booleans, z*z = 1 on spins); only used to AIM edits at
    entries that exist — neither the model nor the oracle uses it"""
    if kind in SPIN_KINDS:
        return tuple(sorted(i for i in set(k) if list(k).count(i) % 2))
    return tuple(sorted(set(k)))

class Track:
    """what the generator believes the object holds (insertion-ordered); a wrong belief only makes an edit miss"""
    def __init__(self, kind, terms):
        self.kind, self.d = kind, {}
        for k, v in terms:
            self.add(k, Fraction(v))
    def set(self, k, v):
        k = squash_prop(self.kind, k)
        if v:
            self.d[k] = v
        else:
            self.d.pop(k, None)
    def add(self, k, v):
        self.set(k, self.d.get(squash_prop(self.kind, k), Fraction(0)) + v)
    def apply(self, st):
        op = st[0]
        if op == "set": self.set(st[1], Fraction(st[2]))
        elif op == "add": self.add(st[1], Fraction(st[2]))
        elif op == "sub": self.add(st[1], -Fraction(st[2]))
        elif op == "iaddc": self.add([], Fraction(st[1]))
        elif op == "isubc": self.add([], -Fraction(st[1]))
        elif op == "iaddd":
            for k, v in st[1]: self.add(k, Fraction(v))
        elif op == "isubd":
            for k, v in st[1]: self.add(k, -Fraction(v))
        elif op == "imulc":
            for k in list(self.d): self.set(k, self.d[k] * Fraction(st[1]))
        elif op == "idivc":
            for k in list(self.d): self.set(k, self.d[k] / Fraction(st[1]))
        elif op == "update":
            for k, v in st[1]: self.set(k, Fraction(v))
        elif op in ("del", "pop"):
            ks = list(self.d)
            if ks: del self.d[ks[st[1] % len(ks)]]
        elif op == "clear": self.d = {}

def raw_variant(rng, kind, k):
    """another spelling of the same monomial: shuffled, and (types that allow it) with a repeated label"""
    k = list(k)
    if k and rng.random() < 0.2:
        extra = rng.choice(k)
        k = k + ([extra, extra] if kind in SPIN_KINDS else [extra])
    rng.shuffle(k)
    return k

def cancelling_edit(rng, kind, tr, allow_div):
    """one in-place edit after which some entry (the offset / a term / all variable terms / everything) is exactly 0"""
    d = tr.d
    if not d:
        return ["iaddc", "0"]
    r = rng.random()
    off = d.get(())
    nonconst = [(k, v) for k, v in d.items() if k]
    if off is not None and (r < 0.35 or not nonconst):
        how = rng.randrange(6)
        return [["isubc", fs(off)], ["iaddc", fs(-off)], ["add", [], fs(-off)], ["sub", [], fs(off)], ["set", [], "0"],
                ["isubd", [[[], fs(off)]]]][how]
    if nonconst and r < 0.75:
        k, v = rng.choice(nonconst)
        kk = raw_variant(rng, kind, k)
        how = rng.randrange(8)
        if how == 6:
            return ["del", list(d).index(k)]
        if how == 7:
            return ["pop", list(d).index(k)]
        return [["add", kk, fs(-v)], ["sub", kk, fs(v)], ["set", kk, "0"], ["isubd", [[kk, fs(v)]]],
                ["iaddd", [[kk, fs(-v)]]], ["update", [[kk, "0"]]]][how]
    if r < 0.87 and nonconst:
        items = [[list(k), fs(v)] for k, v in nonconst]
        rng.shuffle(items)
        return rng.choice([["isubd", items], ["iaddd", [[k, fs(-Fraction(v))] for k, v in items]]])
    if r < 0.95:
        return ["imulc", "0"]
    return ["isubd", [[list(k), fs(v)] for k, v in d.items()]]

def plain_edit(rng, n, kind, tr, dyadic, allow_div):
    r = rng.random()
    if r < 0.30:
        return [rng.choice(["add", "sub", "set"]), gen_key(rng, n, kind), gen_coef(rng, dyadic, zero_ok=True)]
    if r < 0.42:
        return [rng.choice(["iaddc", "isubc"]), gen_coef(rng, dyadic, zero_ok=True)]
    if r < 0.56:
        q = {}
        for _ in range(rng.randint(1, 3)):
            q[tuple(gen_key(rng, n, kind))] = gen_coef(rng, dyadic)
        return [rng.choice(["iaddd", "isubd", "update"]), [[list(k), v] for k, v in q.items()]]
    if r < 0.68:
        return ["imulc", rng.choice(["2", "-1", "-2", "3", "1/2", "1"])]
    if r < 0.74 and allow_div:
        return ["idivc", rng.choice(["2", "-2", "4", "1/2", "-1"])]
    if r < 0.82:
        return ["refresh"]
    if r < 0.90:
        return ["copy"]
    if r < 0.94:
        return ["clear"]
    if tr.d:
        return [rng.choice(["del", "pop"]), rng.randrange(len(tr.d))]
    return ["refresh"]

def gen_query(rng, kind, dyadic):
    if rng.random() < 0.12 and (dyadic or kind in SPIN_KINDS):
        # (the boolean path converts with pubo_to_puso, which halves coefficients: dyadic data only)
        while True:
            ps, pe = gen_probs(rng)
            if 0 <= Fraction(pe) <= Fraction(ps) < 1:
                return ["qt", ps, pe, kind in SPIN_KINDS]
    if kind in SPIN_KINDS:
        return ["q", rng.choice(["puso", "puso", "quso"])]
    if rng.random() < 0.2:
        sh = rng.choice(["none", "nn", "nh", "ln"])
        lo, hi = gen_coef(rng, dyadic), gen_coef(rng, dyadic)
        return ["qb", sh, lo if sh[0] == "l" else None, hi if sh[1:] == "h" else None]
    return ["q", rng.choice(["pubo", "pubo", "qubo"])]

def hist_case(rng):
    fam = rng.choice(["bool", "spin"])
    kind = rng.choice(BOOL_KINDS if fam == "bool" else SPIN_KINDS)
    dyadic = rng.random() < 0.5
    n = rng.choice([1, 2, 3, 3, 4, 4, 5, 6])
    terms, ctor = gen_terms(rng, n, kind, dyadic)
    if rng.random() < 0.6 and not any(len(k) == 0 for k, _ in terms):
        terms.insert(rng.randrange(len(terms) + 1), [[], gen_coef(rng, dyadic)])
    num = "float" if (dyadic and rng.random() < 0.4) else rng.choice(["int", "frac"])
    allow_div = dyadic or num == "frac"
    tr = Track(kind, terms)
    steps = []
    if rng.random() < 0.9:
        steps.append(gen_query(rng, kind, dyadic))
    for _ in range(rng.randint(1, 3)):
        edits = [plain_edit(rng, n, kind, tr, dyadic, allow_div) for _ in range(rng.choice([0, 0, 1, 1, 2]))]
        for e in edits:
            tr.apply(e)
        if rng.random() < 0.75 or not edits:
            e = cancelling_edit(rng, kind, tr, allow_div)
            tr.apply(e); edits.append(e)
        steps += edits
        steps.append(gen_query(rng, kind, dyadic))
        if rng.random() < 0.3:
            steps.append(gen_query(rng, kind, dyadic))
    labels = "int" if kind in MATRIX else rng.choice(Labels.STYLES_X)
    return {"family": "hist", "kind": kind, "n": n, "p": terms, "ctor": ctor, "edits": [], "labels": labels, "num": num,
            "steps": steps}

HIST_BASES = [[[[0], "3"], [[1], "-1"], [[0, 1], "2"], [[], "4"]],
              [[[0], "1"], [[1, 0], "-2"], [[], "-7"]],
              [[[], "2"], [[1], "-1"], [[0], "3"]]]

def hist_grid():
    """every class x base model x single cancelling edit (each way of writing it) x function name: query, edit, query"""
    out = []
    for kind in BOOL_KINDS + SPIN_KINDS:
        fns = ["pubo", "qubo"] if kind in BOOL_KINDS else ["puso", "quso"]
        for bi, base in enumerate(HIST_BASES):
            off = next(v for k, v in base if not k)
            k1, v1 = next((k, v) for k, v in base if len(k) == 1)
            nonconst = [[k, v] for k, v in base if k]
            edits = [["isubc", off], ["iaddc", fs(-Fraction(off))], ["add", [], fs(-Fraction(off))], ["sub", [], off],
                     ["set", [], "0"], ["isubd", [[[], off]]], ["update", [[[], "0"]]],
                     ["add", k1, fs(-Fraction(v1))], ["sub", k1, v1], ["set", k1, "0"], ["isubd", [[k1, v1]]],
                     ["isubd", nonconst], ["imulc", "0"], ["isubd", base], ["del", 0], ["pop", len(base) - 1], ["clear"]]
            for ei, e in enumerate(edits):
                f = fns[(ei + bi) % 2]
                g = fns[(ei + bi + 1) % 2] if ei % 3 == 0 else f
                out.append({"family": "hist", "sub": "grid", "kind": kind, "n": 2, "p": base, "ctor": "dict", "edits": [],
                            "labels": "int" if kind in MATRIX else ("int", "str", "mixed")[(ei + bi) % 3],
                            "num": ("int", "frac", "float")[(ei + 2 * bi) % 3], "steps": [["q", f], e, ["q", g]]})
    return out

# ------------------------------------------------------------------ coefficient types

T_BOOL = ("bool", "npbool")
T_NPINT = ("npint64", "npint32", "npint8")
T_FLOAT = ("float", "npfloat64", "npfloat32")
PALETTES = {"flags": ["bool", "npbool", "int", "npint64", "npint8"],
            "bools": ["bool", "npbool"],
            "exact": ["bool", "npbool", "int", "npint64", "npint32", "npint8", "frac"],
            "dyadic": ["bool", "npbool", "int", "npint64", "npint8", "frac", "float", "npfloat64", "npfloat32"],
            "npnum": ["npint64", "npint32", "npfloat64", "npfloat32", "npbool"]}

def typed(s, t):
    """the exact rational s as a Python object of coefficient type t"""
    import numpy as np
    f = Fraction(s)
    if t == "bool": return bool(f)
    if t == "npbool": return np.bool_(bool(f))
    if t == "int": return int(f)
    if t == "npint64": return np.int64(int(f))
    if t == "npint32": return np.int32(int(f))
    if t == "npint8": return np.int8(int(f))
    if t == "float": return float(f)
    if t == "npfloat64": return np.float64(float(f))
    if t == "npfloat32": return np.float32(float(f))
    return f

def gen_typed_value(rng, t, pal, zero_ok):
    if t in T_BOOL:
        return "0" if (zero_ok and rng.random() < 0.08) else "1"
    if pal == "flags":
        return "0" if (zero_ok and rng.random() < 0.08) else "1"
    if t == "int" or t in T_NPINT:
        return str(rng.choice([-7, -5, -3, -2, -1, 1, 1, 2, 3, 4, 7]))
    if t in T_FLOAT or pal in ("dyadic", "npnum"):
        return rng.choice(["1/2", "-1/2", "3/2", "-3/4", "5/8", "1/4", "-7/8", "9/4", "1", "-2", "3"])
    return rng.choice(["1/3", "-2/3", "5/7", "7/5", "-11/6", "1/2", "-3/4", "2", "-1"])

def orders(rng, p, pt):
    """several insertion orders of one term list: as generated, offset first, offset last, flags first, flags last, shuffled"""
    idx = list(range(len(p)))
    isoff = lambda i: len(p[i][0]) == 0
    isflag = lambda i: pt[i] in T_BOOL
    outs = [idx,
            sorted(idx, key=lambda i: (not isoff(i), not isflag(i))),
            sorted(idx, key=lambda i: (not isoff(i), isflag(i))),
            sorted(idx, key=lambda i: (isoff(i), not isflag(i))),
            sorted(idx, key=lambda i: (isoff(i), isflag(i)))]
    sh = idx[:]; rng.shuffle(sh); outs.append(sh)
    seen, res = set(), []
    for o in outs:
        if tuple(o) not in seen:
            seen.add(tuple(o)); res.append(o)
    return res

def types_cases(rng, k_orders=3):
    """one random typed term list, returned in up to k_orders insertion orders (same kind / build mode / function)"""
    fam = rng.choice(["bool", "bool", "spin"])
    kind = rng.choice(["dict", "dict", "dict"] + (BOOL_KINDS if fam == "bool" else SPIN_KINDS))
    pal = rng.choice(["flags", "flags", "bools", "exact", "exact", "dyadic", "dyadic", "npnum"])
    n = rng.choice([1, 2, 3, 3, 4, 5, 6])
    m = rng.choice([1, 2, 3, 3, 4, 5, 6, 8])
    ctor = "dict" if kind == "dict" else rng.choice(["assign", "assign", "dict"])
    d = {}
    if rng.random() < 0.7:
        d[()] = None
    for _ in range(m):
        d[tuple(gen_key(rng, n, kind))] = None
    # a dominant type with a few others mixed in, or fully mixed
    dom = rng.choice(PALETTES[pal]); mix = rng.choice([0.0, 0.3, 1.0])
    p, pt = [], []
    for k in d:
        t = rng.choice(PALETTES[pal]) if rng.random() < mix else dom
        p.append([list(k), gen_typed_value(rng, t, pal, zero_ok=True)]); pt.append(t)
    f = (rng.choice(["pubo", "qubo"]) if fam == "bool" else rng.choice(["puso", "quso"]))
    labels = "int" if kind in MATRIX else rng.choice(Labels.STYLES)
    os_ = orders(rng, p, pt)
    rng.shuffle(os_)
    return [{"family": "types", "kind": kind, "n": n, "p": [p[i] for i in o], "ptypes": [pt[i] for i in o], "ctor": ctor,
             "edits": [], "labels": labels, "num": "typed", "f": f, "pal": pal} for o in os_[:k_orders]]

def types_grid():
    out = []
    base = [[[], "1"], [[0], "1"], [[1], "1"]]
    for ts in itertools.product(("bool", "npbool", "int"), repeat=3):
        for o in itertools.permutations(range(3)):
            for kind, ctor, f in (("dict", "dict", "pubo"), ("PUBO", "assign", "qubo"), ("dict", "dict", "puso"),
                                  ("QUSO", "assign", "quso")):
                out.append({"family": "types", "sub": "grid", "kind": kind, "n": 2, "p": [base[i] for i in o],
                            "ptypes": [ts[i] for i in o], "ctor": ctor, "edits": [], "labels": "int", "num": "typed",
                            "f": f, "pal": "flags"})
    return out

# ------------------------------------------------------------------ implementation side

def num_of(s, style):
    f = Fraction(s)
    if style == "float" and (f.denominator & (f.denominator - 1)) == 0:
        return float(f)
    if f.denominator == 1 and style != "frac":
        return int(f)
    return f

def build(case):
    """the object the caller holds: a plain dict or a model object after its edits"""
    L = Labels(case["labels"])
    if "ptypes" in case:
        items = [(L.key(k), typed(v, t)) for (k, v), t in zip(case["p"], case["ptypes"])]
    else:
        items = [(L.key(k), num_of(v, case["num"])) for k, v in case["p"]]
    if case["kind"] == "dict":
        return dict(items), L
    if case["ctor"] == "assign":
        obj = cls_of(case["kind"])()
        for k, v in items:
            obj[k] = v
        return obj, L
    obj = cls_of(case["kind"])(dict(items) if case["ctor"] == "dict" else items)
    for op, k, v in case["edits"]:
        key, val = L.key(k), num_of(v, case["num"])
        if op == "set":
            obj[key] = val
        elif Fraction(v) < 0 and case["num"] != "float":
            obj[key] -= -val
        else:
            obj[key] += val
    return obj, L

def run_extrema(case):
    from qubovert import utils
    try:
        obj, L = build(case)
    except Exception as e:
        return {"build_err": exc_name(e)}, None
    s0 = snapshot(obj)
    try:
        r = getattr(utils, "approximate_%s_extrema" % case["f"])(obj)
    except Exception as e:
        return {"err": exc_name(e)}, obj
    out = {"lo": fs(r[0]), "hi": fs(r[1])}
    if snapshot(obj) != s0:
        out["mutated"] = True
    if case["kind"] != "dict":
        out["terms"] = canon_terms(obj, L)
        out["vars"] = sorted(L.ident(x) for x in obj._variables)
    return out, obj

def run_bounds(case):
    from qubovert._pcbo import _get_bounds
    obj, L = build(case)
    lo, hi = num_of(case["lo"], case["num"]), num_of(case["hi"], case["num"])
    b = {"none": None, "nn": (None, None), "nh": (None, hi), "ln": (lo, None), "lh": (lo, hi)}[case["shape"]]
    try:
        r = _get_bounds(obj, b)
    except Exception as e:
        return {"err": exc_name(e)}, obj
    return {"lo": fs(r[0]), "hi": fs(r[1])}, obj

def query_step(obj, st, num):
    from qubovert import utils
    from qubovert._pcbo import _get_bounds
    if st[0] == "q":
        return getattr(utils, "approximate_%s_extrema" % st[1])(obj)
    if st[0] == "qt":
        from qubovert.sim import anneal_temperature_range
        return anneal_temperature_range(obj, float(Fraction(st[1])), float(Fraction(st[2])), st[3])
    lo = None if st[2] is None else num_of(st[2], num)
    hi = None if st[3] is None else num_of(st[3], num)
    return _get_bounds(obj, {"none": None, "nn": (None, None), "nh": (None, hi), "ln": (lo, None)}[st[1]])

def edit_step(obj, st, L, num):
    """one in-place edit of the object the caller holds; returns the object the caller holds afterwards"""
    op = st[0]
    if op == "set": obj[L.key(st[1])] = num_of(st[2], num)
    elif op == "add": obj[L.key(st[1])] += num_of(st[2], num)
    elif op == "sub": obj[L.key(st[1])] -= num_of(st[2], num)
    elif op == "iaddc": obj += num_of(st[1], num)
    elif op == "isubc": obj -= num_of(st[1], num)
    elif op == "iaddd": obj += {L.key(k): num_of(v, num) for k, v in st[1]}
    elif op == "isubd": obj -= {L.key(k): num_of(v, num) for k, v in st[1]}
    elif op == "imulc": obj *= num_of(st[1], num)
    elif op == "idivc": obj /= num_of(st[1], num)
    elif op == "update": obj.update({L.key(k): num_of(v, num) for k, v in st[1]})
    elif op in ("del", "pop"):
        ks = list(obj)
        if ks:
            if op == "del":
                del obj[ks[st[1] % len(ks)]]
            else:
                obj.pop(ks[st[1] % len(ks)])
    elif op == "refresh": obj.refresh()
    elif op == "clear": obj.clear()
    elif op == "copy": obj = obj.copy()
    else:
        raise AssertionError("unknown history step %r" % (st,))
    return obj

def run_hist(case):
    """returns (comparable output, per-query oracle findings)"""
    try:
        obj, L = build(case)
    except Exception as e:
        return {"build_err": exc_name(e)}, []
    cls0, qs, bad = type(obj), [], []
    for i, st in enumerate(case["steps"]):
        if st[0] in ("q", "qb", "qt"):
            s0 = snapshot(obj)
            try:
                r = query_step(obj, st, case["num"])
            except Exception as e:
                bad.append((i, "%s raised %s(%s) on %s" % (st, exc_name(e), str(e)[:80], dict(obj))))
                return {"q": qs, "err": exc_name(e)}, bad
            qs.append({"T0": r[0], "Tf": r[1]} if st[0] == "qt" else {"lo": fs(r[0]), "hi": fs(r[1])})
            why = hist_oracle(st, r, obj, case["num"])
            if why is None and snapshot(obj) != s0:
                why = "the query modified the model"
            if why:
                bad.append((i, why))
        else:
            try:
                obj = edit_step(obj, st, L, case["num"])
            except Exception as e:
                return {"q": qs, "err": exc_name(e)}, bad
            if type(obj) is not cls0:
                bad.append((i, "step %s turned the %s into a %s" % (st, cls0.__name__, type(obj).__name__)))
    return {"q": qs, "terms": canon_terms(obj, L)}, bad

def prob_of(s, style):
    f = Fraction(s)
    if f.denominator == 1:
        return int(f) if style == "frac" else float(f)
    return f if style == "frac" else float(f)

def run_temp(case):
    from qubovert.sim import anneal_temperature_range
    try:
        obj, L = build(case)
    except Exception as e:
        return {"build_err": exc_name(e)}, None
    s0 = snapshot(obj)
    try:
        if case.get("defaults"):
            r = anneal_temperature_range(obj, spin=case["spin"])
        else:
            r = anneal_temperature_range(obj, prob_of(case["ps"], case["pstyle"]), prob_of(case["pe"], case["pstyle"]),
                                         case["spin"])
    except Exception as e:
        return {"err": exc_name(e), "msg": str(e)[:80]}, obj
    out = {"T0": r[0], "Tf": r[1]}
    if snapshot(obj) != s0:
        out["mutated"] = True
    return out, obj

def model_line(case):
    base = {"kind": case["kind"], "p": case["p"], "edits": case["edits"]}
    if case["family"] == "extrema":
        return dict(base, op="extrema", f=case["f"])
    if case["family"] == "types":
        # the numeric values of the typed coefficients (True = 1); item assignment = `set` edits on an empty object
        if case["ctor"] == "assign":
            return dict(op="extrema", f=case["f"], kind=case["kind"], p=[], edits=[["set", k, v] for k, v in case["p"]])
        return dict(op="extrema", f=case["f"], kind=case["kind"], p=case["p"], edits=[])
    if case["family"] == "hist":
        steps = []
        for st in case["steps"]:
            if st[0] == "sub":
                steps.append(["add", st[1], fs(-Fraction(st[2]))])
            elif st[0] == "qb":
                steps.append(["qb", st[2], st[3]])
            elif st[0] == "qt":     # the probabilities exactly as the implementation receives them
                steps.append(["qt", fs(Fraction(float(Fraction(st[1])))), fs(Fraction(float(Fraction(st[2])))), st[3]])
            else:
                steps.append(st)
        return dict(op="extrema_hist", kind=case["kind"], p=case["p"], steps=steps)
    if case["family"] == "bounds":
        sh = case["shape"]
        return dict(op="getbounds", kind="PUBO", p=case["p"], edits=[],
                    lo=(case["lo"] if sh[0] == "l" else None), hi=(case["hi"] if sh[1:] == "h" else None))
    # the probabilities exactly as the implementation receives them
    ps = Fraction(prob_of(case["ps"], case["pstyle"])); pe = Fraction(prob_of(case["pe"], case["pstyle"]))
    return dict(base, op="temprange", ps=fs(ps), pe=fs(pe), spin=case["spin"])

# ------------------------------------------------------------------ direct oracle (shares nothing with the Lean model)

def items_of(obj):
    """the terms of the object that was passed, as (tuple of labels, Fraction)"""
    return [(tuple(k), Fraction(fs(v))) for k, v in obj.items()]

def truth_table(items, spin):
    """(min, max) over all assignments of sum_k v_k * prod_{i in k} x_i, literally multiplied (repeated labels twice);
    integer arithmetic after clearing denominators"""
    labs = []
    for k, _ in items:
        for i in k:
            if i not in labs:
                labs.append(i)
    if len(labs) > 10:
        return None
    den = 1
    for _, v in items:
        den = den * v.denominator // math.gcd(den, v.denominator)
    idx = {l: j for j, l in enumerate(labs)}
    tk = [([idx[i] for i in k], int(v * den)) for k, v in items]
    vals = (1, -1) if spin else (0, 1)
    lo = hi = None
    for x in itertools.product(vals, repeat=len(labs)):
        tot = 0
        for k, v in tk:
            m = v
            for j in k:
                m *= x[j]
            tot += m
        lo = tot if lo is None or tot < lo else lo
        hi = tot if hi is None or tot > hi else hi
    return Fraction(lo, den), Fraction(hi, den)

def extrema_oracle(case, out, obj):
    if obj is None or "build_err" in out:
        return None
    if "err" in out:
        return "approximate_%s_extrema raised %s" % (case["f"], out["err"])
    if out.get("mutated"):
        return "approximate_%s_extrema modified its argument" % case["f"]
    lo, hi = Fraction(out["lo"]), Fraction(out["hi"])
    items = items_of(obj)
    spin = case["f"] in ("puso", "quso")
    tt = truth_table(items, spin)
    if tt is None:
        return None
    if not (lo <= tt[0]):
        return "lo = %s exceeds the true minimum %s of %s" % (lo, tt[0], dict(obj))
    if not (hi >= tt[1]):
        return "hi = %s is below the true maximum %s of %s" % (hi, tt[1], dict(obj))
    if all(len(k) == 0 for k, _ in items):
        const = sum((v for _, v in items), Fraction(0))
        if not (lo == hi == const):
            return "constant model %s: (lo, hi) = (%s, %s), expected both %s" % (dict(obj), lo, hi, const)
    return None

def hist_oracle(st, r, obj, num):
    """one query inside a history, judged on the terms the object holds right now"""
    items = items_of(obj)
    if st[0] == "qt":
        T0, Tf = r
        if not (T0 >= Tf >= 0):
            return "anneal_temperature_range: T0 >= Tf >= 0 fails: (%r, %r) for %s" % (T0, Tf, dict(obj))
        if all(len(k) == 0 for k, _ in items) and not (T0 == 0 and Tf == 0):
            return "anneal_temperature_range: model without variables %s gives (%r, %r), expected (0, 0)" % (dict(obj), T0, Tf)
        return None
    tt = truth_table(items, st[0] == "q" and st[1] in ("puso", "quso"))
    if tt is None:
        return None
    lo, hi = Fraction(fs(r[0])), Fraction(fs(r[1]))
    if st[0] == "qb":
        sh = st[1]
        if sh in ("none", "nn", "nh") and not lo <= tt[0]:
            return "_get_bounds: computed lower bound %s exceeds the true minimum %s of %s" % (lo, tt[0], dict(obj))
        if sh in ("none", "nn", "ln") and not hi >= tt[1]:
            return "_get_bounds: computed upper bound %s is below the true maximum %s of %s" % (hi, tt[1], dict(obj))
        if sh[0] == "l" and lo != Fraction(st[2]):
            return "_get_bounds: supplied lower bound was not kept"
        if sh[1:] == "h" and hi != Fraction(st[3]):
            return "_get_bounds: supplied upper bound was not kept"
        return None
    name = "approximate_%s_extrema" % st[1]
    if not (lo <= tt[0]):
        return "%s: lo = %s exceeds the true minimum %s of %s" % (name, lo, tt[0], dict(obj))
    if not (hi >= tt[1]):
        return "%s: hi = %s is below the true maximum %s of %s" % (name, hi, tt[1], dict(obj))
    if all(len(k) == 0 for k, _ in items):
        const = sum((v for _, v in items), Fraction(0))
        if not (lo == hi == const):
            return "%s: constant model %s: (lo, hi) = (%s, %s), expected both %s" % (name, dict(obj), lo, hi, const)
    return None

def bounds_oracle(case, out, obj):
    if "err" in out:
        return "_get_bounds raised " + out["err"]
    lo, hi = Fraction(out["lo"]), Fraction(out["hi"])
    tt = truth_table(items_of(obj), False)
    sh = case["shape"]
    if sh in ("none", "nn", "nh") and not lo <= tt[0]:
        return "computed lower bound %s exceeds the true minimum %s" % (lo, tt[0])
    if sh in ("none", "nn", "ln") and not hi >= tt[1]:
        return "computed upper bound %s is below the true maximum %s" % (hi, tt[1])
    if sh[0] == "l" and lo != Fraction(case["lo"]):
        return "supplied lower bound was not kept"
    if sh[1:] == "h" and hi != Fraction(case["hi"]):
        return "supplied upper bound was not kept"
    return None

def admissible(case):
    ps, pe = Fraction(case["ps"]), Fraction(case["pe"])
    return 0 <= pe <= ps < 1

def temp_oracle(case, out, obj):
    """returns (signature, why) or None"""
    if obj is None or "build_err" in out:
        return None
    if not admissible(case):
        return None         # the property speaks about admissible probability pairs only (errors compared by the correspondence)
    items = items_of(obj)
    novars = all(len(k) == 0 for k, _ in items)
    if "err" in out:
        tt = truth_table(items, case["spin"])
        const = tt is not None and tt[0] == tt[1]
        # D6 is narrow: a label was stored with a non-zero value at some time (so a cache can be stale) and the
        # terms cancelled; ValueError on a model that never had a variable is a different failure
        if case["spin"]:
            ever = bool(getattr(obj, "_variables", None))
        else:
            ever = any(len(k) > 0 and v != 0 for k, v in items)
        if out["err"] == "ValueError" and const and ever:
            return (D6, "anneal_temperature_range(%s %s, %s, %s, spin=%s) raises ValueError(%s) on a model whose terms "
                        "cancelled (%s) instead of returning (0, 0): the cached variable set is stale"
                    % (case["kind"], dict(obj), case["ps"], case["pe"], case["spin"], out.get("msg"),
                       "no variables left" if novars else "constant function"))
        return ("C15:temperature-range-raises", "anneal_temperature_range raised %s(%s) on admissible input %s"
                % (out["err"], out.get("msg"), dict(obj)))
    if out.get("mutated"):
        return ("C15:temperature-range-mutates", "anneal_temperature_range modified its argument")
    T0, Tf = out["T0"], out["Tf"]
    if not (T0 >= Tf >= 0):                       # also false for nan
        return ("C15:temperature-range-order", "T0 >= Tf >= 0 fails: (T0, Tf) = (%r, %r) for %s" % (T0, Tf, dict(obj)))
    if novars and not (T0 == 0 and Tf == 0):
        return ("C15:temperature-range-novars", "model without variables %s gives (%r, %r), expected (0, 0)"
                % (dict(obj), T0, Tf))
    return None

# ------------------------------------------------------------------ comparison

def close(a, b):
    return a == b or abs(a - b) <= TOL * max(abs(a), abs(b))

def temp_matches(case, out, m):
    """impl result vs model result (rational dE + case split); only -dE/log(p) is compared with a tolerance"""
    if "build_err" in out or "build_err" in m:
        return out.get("build_err") == m.get("build_err")
    if "err" in out or "err" in m:
        return out.get("err") == m.get("err")
    if out.get("mutated"):
        return False
    for name, pkey in (("T0", "ps"), ("Tf", "pe")):
        got, want = out[name], m[name]
        if want == "zero":
            if got != 0:
                return False
        else:
            p = float(prob_of(case[pkey], case["pstyle"]))
            dE = Fraction(want["dE"])
            if not close(float(got), -float(dE) / math.log(p)):
                return False
    return True

def hist_matches(case, out, m):
    """answers of the queries and final terms; a temperature only through -dE/log(p) (the one tolerance of this check)"""
    if set(out) != set(m) or any(out[k] != m[k] for k in out if k != "q") or len(out.get("q", [])) != len(m.get("q", [])):
        return False
    qsteps = [st for st in case["steps"] if st[0] in ("q", "qb", "qt")]
    for st, a, b in zip(qsteps, out.get("q", []), m.get("q", [])):
        if st[0] != "qt":
            if a != b:
                return False
        elif not temp_matches({"ps": st[1], "pe": st[2], "pstyle": "float"}, a, b):
            return False
    return True

def nontrivial(case):
    return len(case["p"]) >= 2 and any(len(k) > 0 and Fraction(v) != 0 for k, v in case["p"])

def process(ctx, cases):
    lines = [model_line(c) for c in cases]
    models = common.run_driver(lines)
    for c, m in zip(cases, models):
        fam = c["family"]
        if fam == "hist":
            out, bad = run_hist(c)
            tag = "hist:%s:%s" % (c.get("sub", "random"), c["kind"])
            for st in c["steps"]:
                ctx.count("hist-step:" + st[0])
            if not hist_matches(c, out, m):
                ctx.diff("hist", c, out, m)
            for i, why in bad[:1]:
                # the shortest history that shows it: everything up to the failing query
                ctx.violation("C15:history", dict(c, steps=c["steps"][:i + 1]),
                              "%s(%s) after the steps %s: %s" % (c["kind"], c["p"], c["steps"][:i + 1], why))
        elif fam in ("extrema", "types"):
            out, obj = run_extrema(c)
            tag = "%s:%s:%s" % (fam, c["f"], c["kind"])
            if fam == "types":
                tag = "types:%s:%s:%s" % (c.get("sub", c["pal"]), c["f"], "dict" if c["kind"] == "dict" else c["ctor"])
                for t in set(c["ptypes"]):
                    ctx.count("coef-type:" + t)
            if "build_err" in out:
                tag += ":build_err"
            if out != m:
                ctx.diff("extrema", c, out, m)
            bad = extrema_oracle(c, out, obj)
            if bad:
                ctx.violation("C15:extrema-" + c["f"], c, bad)
        elif fam == "bounds":
            out, obj = run_bounds(c)
            tag = "bounds:" + c["shape"]
            if out != m:
                ctx.diff("bounds", c, out, m)
            bad = bounds_oracle(c, out, obj)
            if bad:
                ctx.violation("C15:get-bounds", c, bad)
        else:
            out, obj = run_temp(c)
            shape = ("build_err" if "build_err" in out else "err:" + out["err"] if "err" in out else
                     "%s,%s" % ("0" if out["T0"] == 0 else "+", "0" if out["Tf"] == 0 else "+"))
            tag = "temprange:%s:%s:%s" % ("spin" if c["spin"] else "bool", c["kind"], shape)
            if not temp_matches(c, out, m):
                ctx.diff("temprange", c, out, m)
            bad = temp_oracle(c, out, obj)
            if bad:
                ctx.violation(bad[0], c, bad[1])
                ctx.count("oracle:%s:%s" % (bad[0], c.get("sub", "random")))
        ctx.case(c, nontrivial(c)); ctx.count(tag); ctx.traces += 1

def check(ctx):
    rng = ctx.rng
    cases = stale_cases()
    cases += [extrema_case(rng) for _ in range(ctx.scale(2000, 40000))]
    cases += [temp_case(rng) for _ in range(ctx.scale(2000, 40000))]
    cases += [bounds_case(rng) for _ in range(ctx.scale(200, 2000))]
    cases += hist_grid()
    cases += [hist_case(rng) for _ in range(ctx.scale(1200, 20000))]
    cases += types_grid()
    for _ in range(ctx.scale(400, 6000)):
        cases += types_cases(rng)
    cases += malformed_cases(rng, ctx.scale(40, 400))
    process(ctx, cases)
    if [d for d in ctx.diffs] and not [v for v in ctx.violations if v["signature"] != D6]:
        search(ctx)

def search(ctx):
    """failing-input search after a correspondence difference: the direct oracle alone on shrunk variants of the
    disagreeing cases (every sub-list of terms obtained by dropping one term / all edits) and on a fresh larger batch"""
    extra = []
    for d in ctx.diffs[:60]:
        c = d["case"]
        if "p" not in c:
            continue
        for i in range(len(c["p"])):
            e = dict(c, p=c["p"][:i] + c["p"][i + 1:])
            if "ptypes" in c:
                e["ptypes"] = c["ptypes"][:i] + c["ptypes"][i + 1:]
            extra.append(e)
        if c.get("edits"):
            extra.append(dict(c, edits=[]))
    extra += [extrema_case(ctx.rng) for _ in range(4000)] + [temp_case(ctx.rng) for _ in range(4000)]
    extra += [hist_case(ctx.rng) for _ in range(2000)]
    for _ in range(1000):
        extra += types_cases(ctx.rng)
    for c in extra:
        if c["family"] == "hist":
            if "steps" not in c:
                continue
            out, bad = run_hist(c)
            for i, why in bad[:1]:
                ctx.violation("C15:history", dict(c, steps=c["steps"][:i + 1]), why)
        elif c["family"] in ("extrema", "types"):
            out, obj = run_extrema(c)
            bad = extrema_oracle(c, out, obj)
            if bad:
                ctx.violation("C15:extrema-" + c["f"], c, bad)
        elif c["family"] == "bounds":
            out, obj = run_bounds(c)
            bad = bounds_oracle(c, out, obj)
            if bad:
                ctx.violation("C15:get-bounds", c, bad)
        else:
            out, obj = run_temp(c)
            bad = temp_oracle(c, out, obj)
            if bad:
                ctx.violation(bad[0], c, bad[1])

def replay(ctx, payload):
    c = payload.get("case") or (payload.get("first_difference") or {}).get("case")
    if not c:
        ctx.notes.append("replay file has no case; re-running the full check")
        return check(ctx)
    process(ctx, [c])
