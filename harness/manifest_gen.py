"""Regenerates MANIFEST.json from the table below (keeps it valid and in sync with what is built)."""
import json, os
ROOT = os.path.dirname(os.path.dirname(os.path.abspath(__file__)))

NOTE = ("Trusted base: Lean 4.33.0 kernel; axioms propext, Classical.choice, Quot.sound only (audited by #print axioms on every "
        "run; no sorry/native_decide/bv_decide/new axioms). The theorems are about the hand-written model lean/Qv/Model; that the "
        "model says what /repo does is checked on every run by the correspondence harness (differential testing on structured "
        "random + exhaustive cases with exact rational comparison) — that tie is testing, not proof. Labels are naturals, "
        "coefficients exact rationals; float rounding is outside.")

def load_claims():
    """one JSON file per claimed property in harness/claims/ : {text, design, technique[, note]}"""
    d = os.path.join(ROOT, "harness", "claims")
    return {f[:-5]: json.load(open(os.path.join(d, f))) for f in sorted(os.listdir(d)) if f.endswith(".json")}

CHECKS = load_claims()

NOT_YET = {
}

def main():
    props = [json.loads(l) for l in open(os.path.join(ROOT, "properties.jsonl"))]
    checks = []
    for p in props:
        pid = p["id"]
        if pid in CHECKS:
            c = CHECKS[pid]
            checks.append(dict(
                property_id=pid, quick_cmd="./check %s quick" % pid, thorough_cmd="./check %s thorough" % pid,
                evidence_file="evidence/%s.json" % pid, replay_cmd_template="./check %s --replay {path}" % pid,
                engine="lean4-model+correspondence",
                level_claimed=dict(category="proof", text=c["text"], design_ref=c["design"]),
                level_note=c.get("note", NOTE), technique=c["technique"]))
    na = [dict(property_id=p["id"], reason=NOT_YET.get(p["id"], "check not built yet in this round (planned: DESIGN.md §4, §11); not claimed"))
          for p in props if p["id"] not in CHECKS]
    m = dict(
        version=1,
        setup_cmd="cd lean && lake build Qv driver Qv.Proofs.GenEq Qv.Proofs.GenEqC " + " ".join("Qv.Props." + c for c in sorted(CHECKS)),
        hooks=dict(guard="JTIOSUE_QUBOVERT_VERIF", enable="export JTIOSUE_QUBOVERT_VERIF=1 (set by ./check); hooks are pure-Python, no rebuild needed",
                   baseline_off_cmd="cd /repo && env -u JTIOSUE_QUBOVERT_VERIF /venv/bin/python -m pytest -ra -q -p no:cacheprovider --timeout=900 --continue-on-collection-errors",
                   source_commits=["9737c30"], add_only=True),
        engines=[dict(name="lean4-model+correspondence", path="lean/ , harness/", serves_properties=sorted(CHECKS),
                      kind_free_text="Lean 4 theorems about a hand-written executable model (lean/Qv/Model, proofs in lean/Qv/Proofs, property theorems in lean/Qv/Props); "
                                     "Python harness (harness/) runs the real qubovert code and the compiled Lean driver on the same cases and diffs canonical results; direct oracles search for failing inputs")],
        checks=checks,
        not_applicable=na,
        notes="See DESIGN.md. Every check: (1) lake build of the property's theorem file + axiom audit + forbidden-construct grep, (2) staging of /repo's working tree (C extension rebuilt), (3) correspondence + direct oracle, (4) evidence. Exit 2 = infrastructure failure.")
    json.dump(m, open(os.path.join(ROOT, "MANIFEST.json"), "w"), indent=1)

if __name__ == "__main__":
    main()
