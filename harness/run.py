"""./check <id> quick|thorough | --replay <file>   — orchestrates one property check (DESIGN.md §6)."""
import importlib, json, os, signal, sys, time, traceback
from . import common, gen_tie, gen_tie_c, tie_audit
from .common import Ctx, Infra

ASSUMPTIONS = [
    "the hand-written Lean model says what /repo does: established only by the correspondence check of this run (differential testing, bounded by the generators) — not a theorem",
    "labels are modelled as natural numbers (only equality and ordering_key order); coefficients as exact rationals (int/Fraction exactly, float only on dyadic values)",
    "Python harness, Lean JSON driver and the direct oracles are trusted",
]

def main(argv):
    if len(argv) < 2:
        print("usage: check <id> quick|thorough | --replay <file>"); return 2
    prop = argv[1]
    replay_path = None
    tier = os.environ.get("VERIF_TIER", "quick")
    if len(argv) > 2:
        if argv[2] == "--replay":
            replay_path = argv[3]
        else:
            tier = argv[2]
    if tier not in ("quick", "thorough"):
        tier = "quick"
    seed = int(os.environ.get("VERIF_SEED", "0") or 0)
    try:
        mod = importlib.import_module("harness." + prop.lower())
    except ImportError as e:
        print("no check for", prop, e); return 2
    ctx = Ctx(prop, tier, seed)
    # watchdog: a change of /repo may make the real code (or the search around a difference) loop forever; the run is then
    # ended from inside, the traceback says where it was, and the decision below reports it as a broken correspondence
    budget = int(os.environ.get("VERIF_BUDGET_S", "0") or 0) or (1200 if tier == "quick" else 10800)
    def _alarm(signum, frame):
        raise TimeoutError("the check exceeded its time budget of %d s (VERIF_BUDGET_S); on the unchanged tree it needs a small "
                           "fraction of that — the traceback shows what was executing" % budget)
    signal.signal(signal.SIGALRM, _alarm)
    signal.alarm(budget)
    try:
        audit = common.lean_audit(prop)
        tie = gen_tie.translate_and_build(prop)     # definitions regenerated from the source vs the model
        tie_c = gen_tie_c.translate_and_build(prop)  # C kernels: clang AST -> Lean vs KernelMem / Pcg (C17, C12)
        def _merge(a, b):
            if isinstance(a, bool): return a and (True if b is None else b)
            if isinstance(a, dict): return dict(a, **(b or {}))
            return a + (b if b is not None else type(a)())
        tie = {k: _merge(tie[k], tie_c.get(k)) for k in tie}
        audit["ok"] = audit["ok"] and tie["ok"]
        audit["problems"] += tie["problems"]
        audit["theorems"] += tie["theorems"]
        audit["obligations"] += tie["obligations"]
        audit["discharged"] += tie["discharged"]
        if tier == "thorough" and audit["ok"] and not replay_path:
            ok, log = common.leanchecker(["Qv.Props." + prop])
            ctx.notes.append("leanchecker Qv.Props.%s: %s" % (prop, "ok" if ok else "FAILED " + log))
            if not ok:
                audit["ok"] = False; audit["problems"].append("leanchecker failed: " + log)
        common.stage(getattr(mod, "CEXT", "plain"))
        if replay_path:
            payload = json.load(open(replay_path))
            mod.replay(ctx, payload)
        else:
            cdir = os.path.join(common.ROOT, "corpus", prop)
            if os.path.isdir(cdir):
                for f in sorted(os.listdir(cdir)):
                    if f.endswith(".json"):
                        mod.replay(ctx, json.load(open(os.path.join(cdir, f))))
                        ctx.count("corpus")
            try:
                mod.check(ctx)
            except (Infra, MemoryError):
                raise
            except Exception as e:
                # On the unchanged tree the harness never raises (swept over many seeds).  An exception while it digests what
                # the implementation returned therefore means the implementation now returns something the model / oracle code
                # cannot digest: that is a broken correspondence, not an infrastructure failure.  Violations found before the
                # exception are reported as usual; otherwise the run ends `no-failing-input-found` with the traceback as replay.
                tb = traceback.format_exc()
                print(tb)
                ctx.diff("harness-exception", {"exception": "%s: %s" % (type(e).__name__, str(e)[:500])},
                         tb[-1500:], "the harness completes without exception on the unchanged tree")
        # model coverage: the theorems must be about model functions this run tied to the code (DESIGN.md §2.5)
        coverage = None
        if not replay_path:
            tie_mods = ["Qv.Proofs.GenEq." + g for g in sorted({e["group"] for e in gen_tie._relevant(prop)})]
            if prop in gen_tie_c.PROPS:
                tie_mods.append("Qv.Proofs.GenEqC")
            if not audit["ok"]:
                tie_mods = []          # a tie module may not build: audit the correspondence side only
            ta = tie_audit.audit(prop, common.OPS_USED, [t["name"] for t in tie["theorems"] if t.get("axioms") is not None]
                                 if tie_mods else [], tie_mods)
            coverage = ta["report"]
            if not ta["ok"]:
                audit["ok"] = False
                audit["problems"] += ta["problems"]
    except Infra as e:
        print("INFRA:", e); return 2
    except Exception:
        traceback.print_exc(); print("INFRA: harness crashed"); return 2

    signal.alarm(0)
    known = [k for k in common.load_known() if k.get("property") == prop and k.get("status", "open") == "open"]
    known_sigs = {k["signature"]: k for k in known}
    new, seen_known = [], {}
    for v in ctx.violations:
        if v["signature"] in known_sigs:
            seen_known.setdefault(v["signature"], v)
        else:
            new.append(v)
    for sig, v in seen_known.items():
        print("KNOWN-FINDING: property=%s %s — %s" % (prop, sig, known_sigs[sig].get("what", v["why"])))

    rc = 0
    if new:
        v = min(new, key=lambda v: len(json.dumps(v["case"], default=str)))
        path = common.write_replay(prop, dict(property=prop, kind="violation", signature=v["signature"],
                                                why=v["why"], case=v["case"], seed=seed, tier=tier,
                                                others=len(new) - 1))
        print("VIOLATION property=%s replay=%s" % (prop, path))
        print("  " + str(v["why"])[:600])
        rc = 1
    elif ctx.diffs or not audit["ok"]:
        # proof obligation or correspondence broken, and the search found no failing input
        d = ctx.diffs[0] if ctx.diffs else None
        payload = dict(property=prop, kind="unproved", seed=seed, tier=tier,
                       broken=("correspondence family %r" % d["family"]) if d else "Lean proof obligations",
                       lean_problems=audit["problems"], first_difference=d, n_differences=len(ctx.diffs),
                       note="the property is no longer shown to hold: the model the theorems are about "
                            "no longer matches the code (or a theorem no longer checks); the failing-input "
                            "search on the implementation found no violating input")
        path = common.write_replay(prop, payload)
        print("VIOLATION property=%s replay=%s no-failing-input-found" % (prop, path))
        if d:
            print("  correspondence difference in family %s: impl=%s model=%s" % (
                d["family"], json.dumps(d["impl"], default=str)[:300], json.dumps(d["model"], default=str)[:300]))
        for p in audit["problems"][:3]:
            print("  lean:", p[:400])
        rc = 1
    if not replay_path:
        common.write_evidence(prop, tier, seed, ctx, audit, "proof", getattr(mod, "RULE", ""),
                              len(new), ASSUMPTIONS + getattr(mod, "ASSUMPTIONS", []),
                              extra=dict(known_findings_reproduced=sorted(seen_known),
                                         generated_from_source=tie["functions"], model_coverage=coverage))
    print("%s %s seed=%d: %d evaluations, %d distinct non-trivial, %d theorems (%d discharged), "
          "%d correspondence differences, %d violations, %.1fs" % (
              prop, tier, seed, ctx.evaluations, len(ctx.distinct), audit["obligations"], audit["discharged"],
              len(ctx.diffs), len(new), time.time() - ctx.t0))
    return rc

if __name__ == "__main__":
    sys.exit(main(sys.argv))
