"""C11 — annealers return well-formed results whose values match their states (correspondence + oracle).

Families:
  anneal   the four functions x input kinds x schedules x initial_state x in_order x seeds x num_anneals,
           dyadic coefficients; the Lean model (front end over Q, kernel on Float with the PCG32 model)
           must predict count, every state, every value, the spin flags, best.value and the arguments
           handed to the C extension (captured at `qubovert.sim._anneal.c_anneal_*`)
  mapping  (inside `anneal`) labelled spin objects whose label -> integer mapping was set by the user (set_mapping /
           set_reverse_mapping; a permutation handed over in an order that is not the order of the integers)
  xeq      (inside `anneal`) labelled / dict inputs whose integer labels are written as int / float / bool / numpy.int64 from
           one occurrence to the next (1 == 1.0 == True: one variable), with monomials stored under two different keys
           ({(1.0, 0): -2, (0, 1): 1}): the oracle (domain, value == model(state), best) on every call; the Lean model where
           it is label-parametric (spin functions, anneal_pubo on a dict), the C arguments compared as a multiset of terms
  history  2-4 calls on ONE Matrix / labelled object with in-place edits in between (grow with larger labels, cancel,
           `*=` a number): every call is compared with the model of the cumulative history and checked by the oracle
           (state domain 0..max_index of the object now)
  swap     (inside `history`) 2-4 calls on ONE object whose variable set is REPLACED in place between the calls (same number of
           variables / more / fewer x larger / smaller / equal maximum label, other labels; by clear() + refill, cancelling every
           term (+ refresh()) + refill, `*= 0` + refill, `*= {monomial: c}`): the state of every result must range over exactly
           the variables the object has NOW (Matrix types: 0..max_index now); the model is fed the `+=` history since the last
           clear / refresh / `*= dict`
  kernel   arbitrary `float` couplings: the captured C arguments are replayed through the kernel model
           alone; states and the bit patterns of the values must agree
  pcg      first outputs of pcg32 for a seed, through a 1-spin model (indirect) — covered by `anneal`

The direct oracle is written from the property text and shares nothing with the Lean model.
"""
import itertools, json, struct, warnings
from fractions import Fraction
from . import common
from .common import Labels, fs, exc_name

CEXT = "plain"
RULE = ("calls of anneal_quso/puso/qubo/pubo on dict / labelled / Matrix inputs (labels 0..7 with gaps, four label "
        "styles), dyadic coefficients, shapes general/offset-only/linear-only/empty/cancelled, schedules "
        "'linear'/'geometric' (duration<=20, optional temperature_range) and explicit lists incl. zeros and [], "
        "initial_state, in_order, seeds < 2^31, num_anneals in {-1,0,1,2,3}; non-trivial = results were produced "
        "by the C kernel on >= 2 spins with >= 1 term of degree >= 2 and a non-empty schedule; "
        "distinct = distinct case JSON")
ASSUMPTIONS = [
    "coefficients are dyadic so that float(v), the C double arithmetic and values[i] + offset are exact; "
    "temperatures are arbitrary doubles passed to the model as bit patterns; libm exp is reproduced by Lean's Float.exp",
    "seed >= 0 (seed=None seeds PCG32 from the clock; only the oracle, not the replay, applies there)",
    "the 'linear'/'geometric' grids are computed by the staged _create_spin_schedule (numpy) and enter the model as data",
]

SPIN_FNS = ("quso", "puso")
KINDS = {"quso": ["dict", "QUSO", "QUSOMatrix"],
         "puso": ["dict", "QUSO", "PUSO", "PCSO", "QUSOMatrix", "PUSOMatrix"],
         "qubo": ["dict", "QUBO", "QUBOMatrix"],
         "pubo": ["dict", "QUBO", "PUBO", "PCBO", "QUBOMatrix", "PUBOMatrix"]}
# every model type the four annealers accept (KINDS above are the documented ones; other checks import KINDS):
# anneal_quso / anneal_qubo also take the higher-degree types as long as no key has more than two labels
ALL_KINDS = {"quso": ["dict", "QUSO", "QUSOMatrix", "PUSOMatrix", "PUSO", "PCSO"],
             "puso": ["dict", "QUSO", "PUSO", "PCSO", "QUSOMatrix", "PUSOMatrix"],
             "qubo": ["dict", "QUBO", "QUBOMatrix", "PUBOMatrix", "PUBO", "PCBO"],
             "pubo": ["dict", "QUBO", "PUBO", "PCBO", "QUBOMatrix", "PUBOMatrix"]}
MATRIX = {"QUBOMatrix", "QUSOMatrix", "PUBOMatrix", "PUSOMatrix"}
DEG2 = {"QUBO", "QUSO", "QUBOMatrix", "QUSOMatrix"}

def bits(f):
    return struct.unpack("<Q", struct.pack("<d", float(f)))[0]

def cls_of(name):
    import qubovert as qv
    from qubovert import utils
    return getattr(qv, name, None) or getattr(utils, name)

class UnsafeKernelCall(Exception):
    """the front end produced arguments on which the C kernel would leave its buffers"""

# ------------------------------------------------------------------ capture of the C call

class Capture:
    """wraps qubovert.sim._anneal.c_anneal_quso / c_anneal_puso: records arguments and return value, and refuses
    (UnsafeKernelCall) arguments that would make the C code index outside its arrays"""
    def __init__(self):
        import qubovert.sim._anneal as A
        self.A = A
        self.orig = (A.c_anneal_quso, A.c_anneal_puso)
        self.last = None
        A.c_anneal_quso = self.quso
        A.c_anneal_puso = self.puso

    def restore(self):
        self.A.c_anneal_quso, self.A.c_anneal_puso = self.orig

    def quso(self, h, nn, nb, J, Ts, na, in_order, init, seed):
        N = len(h)
        ok = (N >= 1 and len(nn) == N and sum(nn) == len(nb) == len(J) and all(0 <= x < N for x in nb)
              and all(x >= 0 for x in nn) and len(init) in (0, N) and 0 <= na and na * N < 2 ** 31)
        self.last = dict(kind="quso", N=N, h=list(h), nn=list(nn), nb=list(nb), J=list(J), Ts=list(Ts),
                         num_anneals=na, in_order=in_order, init=list(init), seed=seed)
        if not ok:
            raise UnsafeKernelCall("c_anneal_quso%r" % ((h, nn, nb, J, init),))
        out = self.orig[0](h, nn, nb, J, Ts, na, in_order, init, seed)
        self.last["out"] = out
        return out

    def puso(self, N, nc, terms, cs, Ts, na, in_order, init, seed):
        ok = (N >= 1 and len(nc) == len(cs) and sum(nc) == len(terms) and all(0 <= x < N for x in terms)
              and all(x >= 0 for x in nc) and len(init) in (0, N) and 0 <= na and na * N < 2 ** 31)
        self.last = dict(kind="puso", N=N, nc=list(nc), terms=list(terms), cs=list(cs), Ts=list(Ts),
                         num_anneals=na, in_order=in_order, init=list(init), seed=seed)
        if not ok:
            raise UnsafeKernelCall("c_anneal_puso%r" % ((N, nc, terms, cs, init),))
        out = self.orig[1](N, nc, terms, cs, Ts, na, in_order, init, seed)
        self.last["out"] = out
        return out

_cap = None
def cap():
    global _cap
    if _cap is None:
        _cap = Capture()
    return _cap

# ------------------------------------------------------------------ generation

COEFS = ["1", "-1", "2", "-2", "3", "-3", "1/2", "-1/2", "3/2", "-3/4", "1/4", "5/4", "4", "-5"]

def gen_case(rng, force=None):
    force = force or {}
    fn = force.get("fn") or rng.choice(["quso", "puso", "qubo", "pubo"])
    kind = force.get("kind") or rng.choice(ALL_KINDS[fn])
    deg2 = fn in ("quso", "qubo") or kind in DEG2
    maxdeg = 2 if deg2 else 4
    matrix = kind in MATRIX
    shape = force.get("shape") or rng.choice(["general"] * 10 + ["offset", "linear", "empty", "cancelled", "cancelled",
                                                                 "isolated", "dup", "toodeg"])
    if shape == "toodeg" and not (fn in ("quso", "qubo") and kind not in DEG2):
        shape = "general"
    if shape == "cancelled" and kind == "dict":
        shape = "general"
    n = rng.randint(1, 6)
    ids = sorted(rng.sample(range(8), n)) if (matrix or rng.random() < 0.3) else list(range(n))
    if shape == "isolated":
        ids = sorted(set(ids) | {max(ids) + rng.randint(1, 2)})[:8] if max(ids) < 7 else ids
    labels = "int" if matrix else rng.choice(Labels.STYLES_X)
    ops = []
    def key(ln):
        k = rng.sample(ids, min(ln, len(ids)))
        return k
    if shape in ("general", "cancelled", "isolated", "dup", "toodeg"):
        for _ in range(rng.randint(1, 7)):
            ln = rng.choice([1, 2, 2, 2] if maxdeg == 2 else [1, 2, 2, 3, 3, 4])
            ops.append([key(ln), rng.choice(COEFS)])
        if rng.random() < 0.4:
            ops.insert(rng.randrange(len(ops) + 1), [[], rng.choice(COEFS)])
        if shape == "isolated":
            ops.append([[max(ids)], rng.choice(COEFS)])
        if shape == "dup":
            k = key(rng.choice([1, 2]))
            ops.append([k + [k[0]], rng.choice(COEFS)])
        if shape == "toodeg" and len(ids) >= 3:
            ops.append([key(3), rng.choice(COEFS)])
    elif shape == "offset":
        ops.append([[], rng.choice(COEFS)])
    elif shape == "linear":
        for i in rng.sample(ids, rng.randint(1, len(ids))):
            ops.append([[i], rng.choice(COEFS)])
        if rng.random() < 0.5:
            ops.append([[], rng.choice(COEFS)])
    if kind == "dict":
        # a dict cannot hold a raw key twice
        seen, o2 = set(), []
        for k, v in ops:
            if tuple(k) not in seen:
                seen.add(tuple(k)); o2.append([k, v])
        ops = o2
    if shape == "cancelled":
        # cancel some (sometimes all) of the terms again: the bookkeeping keeps their variables
        allc = rng.random() < 0.4
        for k, v in list(ops):
            if allc or rng.random() < 0.5:
                ops.append([list(k), fs(-Fraction(v))])
    num = rng.choice(["int", "frac", "float"])
    # schedule
    r = rng.random()
    if r < 0.25:
        sched = {"t": "named", "name": "linear"}
    elif r < 0.5:
        sched = {"t": "named", "name": "geometric"}
    elif r < 0.53:
        sched = {"t": "named", "name": "quadratic"}
    else:
        dur = rng.choice([0, 1, 1, 2, 3, 5, 8, 13, 20])
        mode = rng.choice(["zero", "mixed", "hot", "cool"])
        if mode == "zero":
            Ts = [0.0] * dur
        elif mode == "mixed":
            Ts = [rng.choice([0.0, 0.3, 1.0, 2.5, rng.uniform(0.01, 5)]) for _ in range(dur)]
        elif mode == "hot":
            Ts = [rng.uniform(2, 50) for _ in range(dur)]
        else:
            Ts = sorted((rng.uniform(0.01, 8) for _ in range(dur)), reverse=True)
        sched = {"t": "explicit", "Ts": Ts}
    if sched["t"] == "named":
        sched["duration"] = rng.randint(1, 20)
        r = rng.random()
        if r < 0.35:
            a, b = sorted((rng.choice([0.25, 0.5, 1.0, 2.0, 3.5, 8.0]), rng.choice([0.25, 0.5, 1.0, 2.0, 3.5, 8.0])))
            sched["range"] = [b, a] if rng.random() < 0.92 else [a, b + 1.0]
        elif r < 0.42 and sched["name"] == "linear":
            sched["range"] = [rng.choice([1.0, 2.5]), 0.0]
    spinfn = fn in SPIN_FNS
    init = None
    if rng.random() < 0.5:
        top = (max(ids) + 1) if ids else 0
        dom = range(top) if matrix else ids
        init = [[i, rng.choice([1, -1] if spinfn else [0, 1])] for i in dom]
        if init and rng.random() < 0.04:
            init.pop(rng.randrange(len(init)))
    return {"family": "anneal", "fn": fn, "kind": kind, "shape": shape, "ops": ops, "labels": labels, "num": num,
            "sched": sched, "init": init, "in_order": rng.random() < 0.5,
            "seed": rng.choice([0, 1, 2, 3, rng.randrange(2 ** 31), rng.randrange(2 ** 31), 2 ** 31 - 1] * 3 + [None]),
            "num_anneals": rng.choice([-1, 0, 1, 1, 1, 2, 3, 3])}

def gen_xeq_ops(rng, fn, kind, nmax=5):
    """family xeq: integer labels 0..n-1 whose occurrences are written as int / float / bool / numpy.int64 (1 == 1.0 == True
    == numpy.int64(1): ONE variable for dict lookups, `variables`, `mapping` and evaluation).  ordering_key sorts a key by
    type name first, so one monomial has several canonical stored keys — e.g. (1.0, 0) and (0, 1): 60% of the monomials
    of degree >= 2 are given twice, in two spellings whose stored keys put the labels in different positions (distinct
    dict keys of the same monomial; the coefficients do not cancel).  Every variable occurs in a term.
    Returns (ops, spell, ids): ops with raw id keys, spell[str(j)] = the Python types of the labels of op j."""
    deg2 = fn in ("quso", "qubo") or kind in DEG2
    n = rng.randint(2, nmax)
    ids = list(range(n))
    monos = set()
    for _ in range(rng.randint(2, 7)):
        ln = rng.choice([1, 2, 2, 2] if deg2 else [1, 2, 2, 3, 3])
        monos.add(tuple(sorted(rng.sample(ids, min(ln, n)))))
    for i in ids:
        if not any(i in m and len(m) >= 2 for m in monos):
            monos.add(tuple(sorted((i, rng.choice([x for x in ids if x != i])))))
    def draw(m):
        raw = list(m)
        rng.shuffle(raw)
        return raw, [rng.choice(["int", "int", "float", "float", "npint"] + (["bool", "bool"] if i in (0, 1) else [])) for i in raw]
    entries = []
    for m in sorted(monos):
        raw1, sp1 = draw(m)
        v1 = rng.choice(COEFS)
        entries.append((raw1, sp1, v1))
        if len(m) >= 2 and rng.random() < 0.6:
            for _ in range(60):
                raw2, sp2 = draw(m)
                if stored_order(raw2, sp2) != stored_order(raw1, sp1) and raw2 != raw1:
                    v2 = rng.choice([c for c in COEFS if Fraction(c) + Fraction(v1) != 0])
                    entries.append((raw2, sp2, v2))
                    break
    rng.shuffle(entries)
    ops = [[raw, v] for raw, _sp, v in entries]
    spl = {str(j): sp for j, (_raw, sp, _v) in enumerate(entries)}
    if rng.random() < 0.4:
        ops.insert(rng.randrange(len(ops) + 1), [[], rng.choice(COEFS)])
        # re-index the spellings after the insertion of the offset
        pos = [j for j, (k, _v) in enumerate(ops) if k]
        spl = {str(pos[j]): sp for j, (_raw, sp, _v) in enumerate(entries)}
    return ops, spl, ids

def xeq_collisions(case):
    """number of monomials stored under more than one key (family xeq)"""
    seen = {}
    for j, (k, _v) in enumerate(case["ops"]):
        sp = (case.get("spell") or {}).get(str(j))
        if k and sp:
            seen.setdefault(tuple(sorted(k)), set()).add(tuple(stored_order(k, sp)))
    return sum(1 for v in seen.values() if len(v) > 1)

def model_is_label_parametric(case):
    """DESIGN.md §3.1: the Lean model reads labels as ids whose order IS ordering_key's order.  With labels that are equal
    across types the stored order of a key depends on the types, not on the ids; the front-end steps that re-read stored
    keys in that order (qubo_to_quso on every input — QUBO.squash_key re-sorts —, pubo_to_puso on labelled inputs)
    enumerate the variables in an order the id-model cannot know; so does anneal_quso on a PUSO / PCSO, which it rebuilds
    as QUSO(L) from the stored keys.  The spin functions on their own types and on dicts register labels in raw key
    order, and anneal_pubo on a plain dict reads the raw keys: there the model is exact."""
    if not case.get("spell"):
        return True
    if case["fn"] == "quso":
        return case["kind"] in ("dict", "QUSO")
    return case["fn"] == "puso" or (case["fn"] == "pubo" and case["kind"] == "dict")

def xeq_view(canon):
    """comparison view for family xeq: a monomial stored under two keys occupies two dict slots in the real object and one
    in the id-model, so an intermediate cancellation can move a term to another position of the flattened arrays.  The
    results, N, the initial state and the schedule are compared exactly, the terms handed to C as a multiset."""
    if not isinstance(canon, dict) or not canon.get("call"):
        return canon
    c = dict(canon["call"])
    if "nc" in c:
        pos, terms = 0, []
        for n, v in zip(c.pop("nc"), c.pop("cs")):
            terms.append([sorted(c["terms"][pos:pos + n]), v]); pos += n
        c["terms"] = sorted(terms)
    elif "nn" in c:
        pos, adj = 0, []
        for i, n in enumerate(c.pop("nn")):
            adj += [[i, j, v] for j, v in zip(c["nb"][pos:pos + n], c["J"][pos:pos + n])]; pos += n
        c.pop("nb"); c.pop("J")
        c["adj"] = sorted(adj)
    return dict(canon, call=c)

def gen_xeq_case(rng):
    """a C11 call on a labelled / dict input of family xeq (see gen_xeq_ops)"""
    fn = rng.choice(["quso", "puso", "qubo", "pubo"])
    kind = rng.choice([k for k in ALL_KINDS[fn] if k not in MATRIX])
    c = gen_case(rng, {"fn": fn, "kind": kind, "shape": "general"})
    ops, spl, ids = gen_xeq_ops(rng, fn, kind)
    c.update(ops=ops, spell=spl, labels="xeq", shape="xeq")
    if c["init"] is not None:
        c["init"] = [[i, rng.choice([1, -1] if fn in SPIN_FNS else [0, 1])] for i in ids]
    return c

def num_of(s, style):
    f = Fraction(s)
    if style == "float":
        return float(f)
    if f.denominator == 1 and style != "frac":
        return int(f)
    return f

# ------------------------------------------------------------------ implementation side

def apply_mapping(case, obj, L):
    """case["mapping"] = {"how": "set_mapping" | "set_reverse_mapping", "pairs": [[label id, integer], ...]}: the
    pairs are handed over in this (insertion) order, which need not be the order of the integers"""
    m = case.get("mapping")
    if m:
        if m["how"] == "set_mapping":
            obj.set_mapping({L.lab(v): k for v, k in m["pairs"]})
        else:
            obj.set_reverse_mapping({k: L.lab(v) for v, k in m["pairs"]})

def mapping_by_index(case):
    """the user-set mapping as the model reads it: labels by integer index"""
    m = case.get("mapping")
    if not m:
        return None
    return [v for v, _k in sorted(m["pairs"], key=lambda p: p[1])]

SPELL_RANK = {"bool": 0, "float": 1, "int": 2, "npint": 3}     # order of str(type(x)): bool < float < int < numpy.int64

def spell(i, ty):
    """the label of id i (an integer label) written as another type that compares and hashes equal to it"""
    if ty == "float":
        return float(i)
    if ty == "bool" and i in (0, 1):
        return bool(i)
    if ty == "npint":
        import numpy as np
        return np.int64(i)
    return i

def stored_order(k, sp):
    """ids of the key in the order in which a model object stores it: the documented rule of ordering_key, "sort by type
    (name) first and then by object", written here from the documentation (independent of the implementation)"""
    labs = [spell(i, t) for i, t in zip(k, sp)]
    return [int(x) for x in sorted(set(labs), key=lambda x: (str(type(x)), x))]

def case_key(case, L, j):
    """the concrete key of op j: case["spell"][j] gives the Python type of every label occurrence (family xeq)"""
    k = case["ops"][j][0]
    sp = (case.get("spell") or {}).get(str(j))
    if sp is None:
        return L.key(k)
    return tuple(spell(i, t) for i, t in zip(k, sp))

def build_obj(case):
    L = Labels(case["labels"])
    if case["kind"] == "dict":
        return {case_key(case, L, j): num_of(v, case["num"]) for j, (k, v) in enumerate(case["ops"])}, L
    o = cls_of(case["kind"])()
    for j, (k, v) in enumerate(case["ops"]):
        o[case_key(case, L, j)] += num_of(v, case["num"])
    for cn in case.get("cons") or []:
        # PCBO / PCSO: recorded constraints (penalty terms, ancillas `__a<k>` for the inequalities)
        P = {L.key(k): num_of(v, "int") for k, v in cn["P"]}
        with warnings.catch_warnings():
            warnings.simplefilter("ignore")
            getattr(o, "add_constraint_%s_zero" % cn["rel"])(P, lam=num_of(cn["lam"], "int"))
    apply_mapping(case, o, L)
    return o, L

def obj_data(case, obj, L):
    """for objects whose history is not a plain `+=` history (constraints): the data the front end reads, taken from
    the real object — items in dict order, `_variables`, the labels by integer index"""
    if not case.get("cons"):
        return None
    rev = obj.reverse_mapping
    return {"terms": [[L.ids(k), fs(v)] for k, v in obj.items()],
            "vars": sorted(L.ident(v) for v in obj._variables),
            "mapping": [L.ident(rev[i]) for i in range(len(rev))]}

# Python types of the entries of an explicit schedule ("an iterable of floats"): every number type that compares equal to
# the float it stands for.  The unchanged wrapper converts each entry with PyFloat_AsDouble (__float__, else __index__), so
# all of these are accepted and denote the temperature float(entry); a str / None / complex entry is not a number the
# documentation allows (the unchanged code then returns with an exception set -> SystemError) and is never generated.
SCHED_TYPES = ("float", "int", "bool", "frac", "decimal", "npint64", "npint32", "npuint8", "npfloat32", "npfloat16",
               "npfloat64", "npbool", "index")

class _Index:
    """a number that only offers __index__ (and ==): operator.index(x) is what PyFloat_AsDouble falls back to"""
    def __init__(self, v): self.v = v
    def __index__(self): return self.v
    def __eq__(self, o): return self.v == o
    def __hash__(self): return hash(self.v)
    def __repr__(self): return "_Index(%d)" % self.v

def typed_entry(t, ty):
    """the schedule entry of Python type `ty` that equals the float t exactly (None if there is none)"""
    import numpy as np
    from decimal import Decimal
    t = float(t)
    integral = t == int(t) and abs(t) < 2 ** 31
    if ty == "float":
        return t
    if ty == "int":
        return int(t) if integral else None
    if ty == "bool":
        return bool(t) if t in (0.0, 1.0) else None
    if ty == "frac":
        return Fraction(t)
    if ty == "decimal":
        return Decimal(t)                      # exact for every finite double
    if ty in ("npint64", "npint32", "npuint8"):
        T = {"npint64": np.int64, "npint32": np.int32, "npuint8": np.uint8}[ty]
        return T(int(t)) if integral and 0 <= t < 256 else None
    if ty in ("npfloat32", "npfloat16", "npfloat64"):
        T = {"npfloat32": np.float32, "npfloat16": np.float16, "npfloat64": np.float64}[ty]
        with warnings.catch_warnings():
            warnings.simplefilter("ignore")
            x = T(t)
        return x if float(x) == t else None
    if ty == "npbool":
        return np.bool_(bool(t)) if t in (0.0, 1.0) else None
    if ty == "index":
        return _Index(int(t)) if integral else None
    raise ValueError(ty)

def typed_schedule(s):
    """the explicit schedule of a case as the Python object handed to the annealer: entries of the types s["types"]
    (default: floats), in the container s["container"] (default: list for odd lengths, tuple for even ones)"""
    Ts = [float(t) for t in s["Ts"]]
    tys = s.get("types") or ["float"] * len(Ts)
    ents = []
    for t, ty in zip(Ts, tys):
        x = typed_entry(t, ty)
        ents.append(t if x is None else x)
    cont = s.get("container") or ("list" if len(Ts) % 2 else "tuple")
    if cont == "ndarray" and ents and len({type(x) for x in ents}) == 1 and type(ents[0]).__module__ == "numpy":
        import numpy as np
        return np.array(ents, dtype=type(ents[0]))
    if cont == "iter":
        return iter(ents)
    return tuple(ents) if cont == "tuple" else ents

SCHED_VALUES = [0.0, 0.0, 1.0, 1.0, 2.0, 3.0, 4.0, 5.0, 8.0, 10.0, 0.5, 0.25, 1.5, 2.5, 0.75, 6.0, 100.0]

def gen_typed_schedule(rng, maxdur):
    dur = rng.choice([1, 2, 3, 5, 10, 20, rng.randint(1, maxdur)])
    mode = rng.choice(["hot", "hot", "mixed", "zero", "cool", "reheat"])
    pos = [t for t in SCHED_VALUES if t > 0]
    if mode == "zero":
        Ts = [0.0] * dur
    elif mode == "hot":
        Ts = [rng.choice(pos) for _ in range(dur)]
    elif mode == "cool":
        Ts = sorted((rng.choice(pos) for _ in range(dur)), reverse=True)
    elif mode == "reheat":
        z = rng.randint(1, max(1, dur // 2))
        Ts = [0.0] * z + [rng.choice(pos) for _ in range(max(1, dur - z))]
    else:
        Ts = [rng.choice(SCHED_VALUES) for _ in range(dur)]
    style = rng.choice(["uniform", "uniform", "uniform", "mixed", "one"])
    nonfloat = [t for t in SCHED_TYPES if t != "float"]
    def ok(t, ty):
        return typed_entry(t, ty) is not None
    if style == "uniform":
        ty = rng.choice(nonfloat)
        types = [ty if ok(t, ty) else "float" for t in Ts]
    elif style == "mixed":
        types = [rng.choice([ty for ty in SCHED_TYPES if ok(t, ty)]) for t in Ts]
    else:
        types = ["float"] * len(Ts)
        j = rng.randrange(len(Ts))
        types[j] = rng.choice([ty for ty in nonfloat if ok(Ts[j], ty)])
    if all(ty == "float" for ty in types):
        types[0] = "frac"
    s = {"t": "explicit", "Ts": Ts, "types": types}
    r = rng.random()
    if r < 0.25 and len(set(types)) == 1 and types[0].startswith("np"):
        s["container"] = "ndarray"
    elif r < 0.35:
        s["container"] = "iter"
    return s

def schedule_args(case, obj):
    """(kwargs for the real call, schedule as data for the model)"""
    s = case["sched"]
    if s["t"] == "explicit":
        Ts = [float(t) for t in s["Ts"]]
        return {"schedule": typed_schedule(s)}, {"t": "explicit", "Ts": [bits(t) for t in Ts]}
    kw = {"schedule": s["name"], "anneal_duration": s["duration"]}
    if "range" in s:
        kw["temperature_range"] = tuple(s["range"])
    if case["num_anneals"] <= 0:
        return kw, {"t": "named", "name": s["name"], "Ts": []}
    # the numpy grid is data for the model: computed by the staged helper on the spin model the function builds
    from qubovert.sim._anneal import _create_spin_schedule
    from qubovert.utils import qubo_to_quso, pubo_to_puso
    try:
        spin_model = obj if case["fn"] in SPIN_FNS else (qubo_to_quso(obj) if case["fn"] == "qubo" else pubo_to_puso(obj))
    except Exception:
        return kw, {"t": "named", "name": s["name"], "Ts": []}    # the conversion error comes first in the model too
    try:
        Ts = _create_spin_schedule(spin_model, s["duration"], kw.get("temperature_range"), s["name"])
    except Exception as e:
        return kw, {"t": "named", "name": s["name"], "err": exc_name(e)}
    return kw, {"t": "named", "name": s["name"], "Ts": [bits(t) for t in Ts]}

def canon_call(c):
    if c is None:
        return None
    out = {"N": c["N"], "init": [int(x) for x in c["init"]], "Ts": [bits(t) for t in c["Ts"]]}
    if c["kind"] == "quso":
        out.update(h=[fs(x) for x in c["h"]], nn=list(c["nn"]), nb=list(c["nb"]), J=[fs(x) for x in c["J"]])
    else:
        out.update(nc=list(c["nc"]), terms=list(c["terms"]), cs=[fs(x) for x in c["cs"]])
    return out

def run_impl(case, prebuilt=None):
    """prebuilt = (obj, Labels): call on an existing object (histories) instead of building one from case["ops"]"""
    import qubovert.sim as sim
    obj, L = prebuilt if prebuilt is not None else build_obj(case)
    kw, sched_data = schedule_args(case, obj)
    init = None
    if case["init"] is not None:
        init = {L.lab(i): v for i, v in case["init"]}
    f = getattr(sim, "anneal_" + case["fn"])
    c = cap(); c.last = None
    try:
        with warnings.catch_warnings():
            warnings.simplefilter("ignore")
            res = f(obj, num_anneals=case["num_anneals"], initial_state=init, in_order=case["in_order"],
                    seed=case["seed"], **kw)
    except UnsafeKernelCall as e:
        return {"err": "other"}, None, obj, L, sched_data, c.last, str(e)
    except Exception as e:
        return {"err": exc_name(e)}, None, obj, L, sched_data, c.last, repr(e)
    try:
        canon = {"results": [{"state": sorted([L.ident(k), int(v)] for k, v in r.state.items()), "value": fs(r.value),
                              "spin": bool(r.spin)} for r in res],
                 "best": None if res.best is None else fs(res.best.value),
                 "call": canon_call(c.last if (c.last and "out" in c.last) else None)}
    except Exception as e:
        return {"err": "canon:" + repr(e)}, res, obj, L, sched_data, c.last, repr(e)
    return canon, res, obj, L, sched_data, c.last, None

def model_line(case, sched_data, data=None):
    return {"op": "c11_anneal", "fn": case["fn"], "kind": case["kind"], "ops": case["ops"], "obj": data,
            "num_anneals": case["num_anneals"], "sched": sched_data, "init": case["init"],
            "in_order": case["in_order"], "seed": case["seed"], "mapping": mapping_by_index(case)}

def canon_model(m):
    if "results" in m:
        for r in m["results"]:
            r["state"] = sorted(r["state"])
    return m

# ------------------------------------------------------------------ direct oracle (from the property text)

def squashed(key, spin):
    if spin:
        return sorted(i for i in set(key) if key.count(i) % 2 == 1)
    return sorted(set(key))

def input_facts(case):
    """independent reading of the input: the polynomial, its variables, whether the call is valid"""
    spin = case["fn"] in SPIN_FNS
    run, variables = {}, set()
    deg_bad = False
    for k, v in case["ops"]:
        sk = tuple(squashed(k, spin))
        run[sk] = run.get(sk, Fraction(0)) + Fraction(v)
        if run[sk] != 0:
            variables |= set(sk)
        if len(sk) > 2 and (case["fn"] in ("quso", "qubo") or case["kind"] in DEG2):
            deg_bad = True
    poly = {k: v for k, v in run.items() if v != 0}
    return poly, variables, deg_bad

def poly_value(poly, x):
    tot = Fraction(0)
    for k, v in poly.items():
        m = Fraction(v)
        for i in k:
            m *= x[i]
        tot += m
    return tot

def oracle(case, canon, res, obj, L, detail):
    """returns (signature, why) or None"""
    spin = case["fn"] in SPIN_FNS
    poly, variables, deg_bad = input_facts(case)
    if case.get("cons"):
        # the model is the object's own items (base terms + penalties); evaluated independently below
        poly = {}
        for k, v in obj.items():
            sk = tuple(sorted(L.ids(k)))
            poly[sk] = poly.get(sk, Fraction(0)) + Fraction(v)
        variables = {L.ident(v) for v in obj._variables}
        deg_bad = any(len(k) > 2 for k in poly) and case["fn"] in ("quso", "qubo")
    s = case["sched"]
    na = case["num_anneals"]
    matrix = case["kind"] in MATRIX
    # `variables`: labels that ever carried a nonzero coefficient in the squashed input (what `variables` of a model
    # object keeps after a cancellation); `cur`: labels of the terms present now.  The exact domain:
    #   spin function, Matrix input        0..max(`variables`) (the object's max_index now, cancelled labels included)
    #   spin function, labelled / dict     `variables`
    #   anneal_quso on PUSOMatrix / PUSO / PCSO   rebuilt as QUSOMatrix(L) / QUSO(L): 0..max(cur) resp. cur
    #   boolean function                   the conversion builds a fresh spin model from the terms present now:
    #                                      Matrix input -> 0..max(cur); labelled input -> cur; dict -> `variables`
    # Only for a plain dict whose raw keys collide after squashing (e.g. (0,1) and (1,0)) the property text does not
    # say whether a cancelled label is a variable: there anything between `cur` and `variables` is accepted.
    cur = {i for k in poly for i in k}
    # `fresh`: the function rebuilds the model from the terms present now (qubo_to_quso / pubo_to_puso always;
    # anneal_quso: `QUSOMatrix(L)` for a PUSOMatrix, `QUSO(L)` for PUSO / PCSO), so cancelled labels are gone
    fresh = (not spin) or (case["fn"] == "quso" and case["kind"] in ("PUSOMatrix", "PUSO", "PCSO"))
    if matrix:
        top = cur if fresh else variables
        domain = set(range(max(top) + 1)) if top else set()
    elif case["kind"] == "dict":
        domain = set(variables)
    else:
        domain = set(cur) if fresh else set(variables)
    collide = case["kind"] == "dict" and len({tuple(squashed(k, spin)) for k, _ in case["ops"]}) < len(case["ops"])
    def domain_ok(st):
        st = set(st)
        if st == domain:
            return True
        return collide and cur <= st <= domain
    bad_sched = s["t"] == "named" and (s["name"] not in ("linear", "geometric") or
                                        ("range" in s and (s["range"][0] < s["range"][1] or
                                                           (s["name"] == "geometric" and 0.0 in s["range"]))))
    init_missing = case["init"] is not None and not domain <= {i for i, _ in case["init"]}
    dup = any(len(set(k)) != len(k) for k, _ in case["ops"])
    if "err" in canon:
        e = canon["err"]
        if deg_bad and e == "KeyError":
            return None
        if bad_sched and e == "ValueError":
            return None
        if init_missing and e == "KeyError":
            return None
        why = "anneal_%s raised %s (%s) on a valid call" % (case["fn"], e, detail)
        if matrix and e == "TypeError" and "NoneType" in str(detail):
            return ("C11:D4-matrix-input-without-variables",
                    why + ": the (converted) Matrix model has no variables, `max_index + 1` with max_index None; "
                          "expected %d result(s)" % max(na, 0))
        if e == "ValueError" and s["t"] == "named" and "range" not in s and not cur and variables:
            return ("C11:D6-cancelled-terms-default-schedule",
                    why + ": anneal_temperature_range on a model whose terms cancelled (stale _variables)")
        if dup:
            return ("C11:D1-repeated-label-key", why + ": a key with a repeated label registers a label in `mapping` "
                    "that is not a variable (num_binary_variables < len(mapping))")
        return ("C11:exception", why)
    rs = canon["results"]
    if deg_bad and na > 0:
        return ("C11:accepted-invalid", "a key of degree > 2 was accepted by anneal_%s" % case["fn"])
    if len(rs) != max(na, 0):
        return ("C11:count", "returned %d results for num_anneals=%d" % (len(rs), na))
    if len(res) != len(rs):
        return ("C11:count", "len(res) changed")
    vals = []
    for idx, r in enumerate(res):
        st = {L.ident(k): v for k, v in r.state.items()}
        if not domain_ok(st):
            sig = "C11:D1-repeated-label-key" if dup else "C11:domain"
            if case["fn"] == "quso" and case["kind"] == "PUSOMatrix" and not dup:
                # (repaired, 9e17397) anneal_quso used to send a PUSOMatrix through QUSO(L): a labelled model whose
                # states omit the indices that occur in no term
                sig = "C11:quso-pusomatrix-domain"
            if case["fn"] == "qubo" and case["kind"] == "PUBOMatrix" and not dup:
                sig = "C11:matrix-domain-qubo-PUBOMatrix"
            if case["fn"] == "pubo" and case["kind"] == "QUBOMatrix" and not dup:
                # (repaired) pubo_to_puso used to turn a QUBOMatrix into a *labelled* PUSO, whose states cover the
                # variables only instead of every index 0..max_index
                sig = "C11:matrix-domain-pubo-QUBOMatrix"
            return (sig, "result %d: state domain %s, the model's variables are %s" % (idx, sorted(st), sorted(domain)))
        allowed = (1, -1) if spin else (0, 1)
        if any(not (v in allowed and isinstance(v, int)) for v in st.values()):
            return ("C11:values", "result %d: state %s has a value outside %s" % (idx, st, allowed))
        if r.spin is not spin:
            return ("C11:flag", "result %d: spin flag %r for anneal_%s" % (idx, r.spin, case["fn"]))
        want = poly_value(poly, {i: Fraction(v) for i, v in st.items()})
        got = Fraction(r.value)
        if got != want:
            return ("C11:value", "result %d: value %s but the model evaluates to %s at its state %s" % (idx, got, want, st))
        vals.append(got)
    if not rs:
        if res.best is not None:
            return ("C11:best", "best is not None for an empty result list")
    else:
        if res.best is None or Fraction(res.best.value) != min(vals) or not any(res.best is r for r in res):
            return ("C11:best", "best.value %s, minimum over results %s" % (getattr(res.best, "value", None), min(vals)))
    return None

# ------------------------------------------------------------------ user-set mappings, histories on one object

LABELLED_SPIN = {"quso": ["QUSO"], "puso": ["QUSO", "PUSO", "PCSO"]}

def gen_mapping_case(rng):
    """a labelled spin object whose label -> integer mapping the user set (set_mapping / set_reverse_mapping): a
    permutation of 0..n-1 over its variables, handed over in an insertion order that is not the order of the integers"""
    fn = rng.choice(["quso", "puso"])
    while True:
        c = gen_case(rng, {"fn": fn, "kind": rng.choice(LABELLED_SPIN[fn]),
                           "shape": rng.choice(["general", "general", "general", "linear", "cancelled"])})
        _poly, variables, _bad = input_facts(c)
        if len(variables) >= 2:
            break
    labs = sorted(variables)
    idx = list(range(len(labs)))
    rng.shuffle(idx)                       # label labs[i] gets integer idx[i]
    pairs = [[l, k] for l, k in zip(labs, idx)]
    rng.shuffle(pairs)                     # insertion order of the dict handed to set_(reverse_)mapping
    if sorted(pairs, key=lambda p: p[1]) == pairs and len(pairs) > 1:
        pairs.reverse()
    c["mapping"] = {"how": rng.choice(["set_mapping", "set_reverse_mapping"]), "pairs": pairs}
    c["shape"] = "mapping"
    c["num_anneals"] = rng.choice([1, 1, 2, 3])
    if c["init"] is not None:
        c["init"] = [[i, rng.choice([1, -1])] for i in labs]
    return c

def gen_cons_case(rng):
    """PCSO / PCBO with recorded constraints: base terms plus `add_constraint_eq_zero` / `_le_zero` (the latter brings
    ancilla variables `__a<k>`); P is linear for anneal_quso / anneal_qubo so that the penalty stays quadratic"""
    fn = rng.choice(["quso", "puso", "qubo", "pubo"])
    kind = "PCSO" if fn in SPIN_FNS else "PCBO"
    c = gen_case(rng, {"fn": fn, "kind": kind, "shape": "general"})
    ids = sorted({i for k, _ in c["ops"] for i in k}) or [0]
    cons = []
    for _ in range(rng.randint(1, 2)):
        rel = rng.choice(["eq", "le", "le"])
        P = []
        for i in rng.sample(ids, min(len(ids), rng.randint(1, 3))):
            P.append([[i], rng.choice(["1", "-1", "2"])])
        if fn in ("puso", "pubo") and len(ids) >= 2 and rng.random() < 0.4:
            P.append([rng.sample(ids, 2), rng.choice(["1", "-1"])])
        # the constant makes the constraint neither trivially true nor impossible: minus a value the linear part takes
        vals = [1, -1] if fn in SPIN_FNS else [0, 1]
        reach = sum(int(v) * rng.choice(vals) for k, v in P if len(k) == 1)
        P.append([[], str(-reach - (rng.choice([0, 0, 1]) if rel == "le" else 0))])
        seen, P2 = set(), []
        for k, v in P:
            if tuple(sorted(k)) not in seen and v != "0":
                seen.add(tuple(sorted(k))); P2.append([k, v])
        cons.append({"rel": rel, "P": P2, "lam": rng.choice(["1", "2", "3"])})
    c["cons"] = cons
    c["shape"] = "constraints"
    # the ancilla labels are the strings "__a<k>"; the model's ids for them are above all user ids, and only integer
    # user labels sort below a string in qubovert's ordering_key (DESIGN.md §3.1: labels -> ids must be monotone,
    # qubo_to_quso / pubo_to_puso re-sort the keys of a PCBO)
    c["labels"] = "int"
    c["init"] = None
    c["num"] = rng.choice(["int", "float"])
    return c

HIST_KINDS = {"quso": ["QUSOMatrix", "QUSOMatrix", "QUSO"], "puso": ["PUSOMatrix", "PUSOMatrix", "QUSOMatrix", "PUSO", "PCSO"],
              "qubo": ["QUBOMatrix", "QUBO"], "pubo": ["PUBOMatrix", "QUBOMatrix", "PUBO"]}

def gen_history(rng):
    """2-4 calls on ONE object with in-place edits in between: grow (terms with larger labels), cancel, `*=` a
    number, add.  Each call is an `anneal` case whose "ops" is the cumulative `+=` history (a `*= c` is recorded as
    `self[k] += self[k]*(c-1)` for every key present, which is what `self[k] *= c` stores); "edits" is what is applied
    to the real object before the call."""
    fn = rng.choice(["quso", "puso", "qubo", "pubo"])
    kind = rng.choice(HIST_KINDS[fn])
    deg2 = fn in ("quso", "qubo") or kind in DEG2
    spin = fn in SPIN_FNS
    labels = "int" if kind in MATRIX else rng.choice(Labels.STYLES_X)
    num = rng.choice(["int", "frac", "float"])
    top = rng.randint(0, 2)                # labels 0..top first, larger ones later
    cur = {}                               # squashed key -> Fraction, in dict order
    def keyof(hi, lo=0):
        ln = rng.choice([1, 2, 2] if deg2 else [1, 2, 3, 3])
        pool = list(range(lo, hi + 1))
        k = rng.sample(pool, min(ln, len(pool)))
        return k
    def record(k, v):
        sk = tuple(squashed(k, spin))
        val = cur.get(sk, Fraction(0)) + Fraction(v)
        if val == 0:
            cur.pop(sk, None)
        else:
            cur[sk] = val
    calls, ops = [], []
    for ci in range(rng.randint(2, 4)):
        edits = []
        if ci == 0:
            for _ in range(rng.randint(1, 4)):
                edits.append(["add", keyof(top), rng.choice(COEFS)])
            if rng.random() < 0.4:
                edits.append(["add", [], rng.choice(COEFS)])
        else:
            for _ in range(rng.randint(1, 3)):
                r = rng.random()
                if r < 0.5 and top < 7:
                    newtop = min(7, top + rng.randint(1, 3))
                    k = keyof(newtop)
                    if max(k) <= top:
                        k[0] = newtop
                    edits.append(["add", k, rng.choice(COEFS)])
                    top = newtop
                elif r < 0.65 and cur:
                    k = rng.choice(list(cur))
                    edits.append(["add", list(k), fs(-cur[k])])
                elif r < 0.8:
                    edits.append(["mul", rng.choice(["2", "-1", "1/2", "0", "3"])])
                else:
                    edits.append(["add", keyof(top), rng.choice(COEFS)])
        apply_edits(edits, ops, cur, spin)
        r = rng.random()
        if r < 0.6:
            dur = rng.choice([0, 1, 2, 3, 5, 8])
            sched = {"t": "explicit", "Ts": [rng.choice([0.0, 0.5, 1.0, rng.uniform(0.05, 4)]) for _ in range(dur)]}
        else:
            sched = {"t": "named", "name": rng.choice(["linear", "geometric"]), "duration": rng.randint(1, 10)}
        init = None
        if rng.random() < 0.4:
            init = [[i, rng.choice([1, -1] if spin else [0, 1])] for i in range(top + 1)]
        calls.append({"edits": edits, "ops": [list(o) for o in ops], "sched": sched, "init": init,
                      "in_order": rng.random() < 0.5, "seed": rng.randrange(2 ** 31),
                      "num_anneals": rng.choice([1, 1, 2, 3])})
    return {"family": "history", "fn": fn, "kind": kind, "labels": labels, "num": num, "calls": calls}

def apply_edits(edits, ops, cur, spin):
    """the effect of in-place edits on the cumulative `+=` history `ops` (what the model is fed: the object is what a fresh
    object becomes under these `+=`) and on `cur` (squashed key -> value, in dict order).  clear() starts a new history;
    refresh() rebuilds the object from its items in their current order; `H *= {key: c}` clears and re-adds the products."""
    def record(k, v):
        sk = tuple(squashed(k, spin))
        val = cur.get(sk, Fraction(0)) + Fraction(v)
        if val == 0:
            cur.pop(sk, None)
        else:
            cur[sk] = val
    for e in edits:
        if e[0] == "add":
            ops.append([e[1], e[2]]); record(e[1], e[2])
        elif e[0] == "mul":
            c = Fraction(e[1])
            for sk in list(cur):
                d = cur[sk] * (c - 1)
                ops.append([list(sk), fs(d)]); record(list(sk), d)
        elif e[0] == "clear":
            del ops[:]; cur.clear()
        elif e[0] == "refresh":
            ops[:] = [[list(sk), fs(v)] for sk, v in cur.items()]
        elif e[0] == "mulpoly":
            items = list(cur.items())
            del ops[:]; cur.clear()
            for sk, v in items:
                k = list(sk) + list(e[1])
                ops.append([k, fs(v * Fraction(e[2]))]); record(k, v * Fraction(e[2]))
        else:
            raise ValueError(e[0])

def gen_swap_history(rng):
    """2-4 calls on ONE object whose variable set is REPLACED in place between the calls: the new set has the same number of
    variables, more or fewer, and a larger, smaller or equal maximum label, always other labels; replaced by clear() + refill,
    cancelling every term (+ refresh()) + refill, `*= 0` + refill, or — one term, spin types — `H *= {monomial: c}`.
    Whatever the object remembers from the first call meets another variable set in the next (state over exactly the
    variables now; Matrix types: 0..max_index now)."""
    fn = rng.choice(["quso", "puso", "qubo", "pubo"])
    kind = rng.choice(HIST_KINDS[fn])
    deg2 = fn in ("quso", "qubo") or kind in DEG2
    spin = fn in SPIN_FNS
    labels = "int" if kind in MATRIX else rng.choice(Labels.STYLES_X)
    num = rng.choice(["int", "frac", "float"])
    top = 9
    nmax = 4
    def cover(V):
        V = list(V); rng.shuffle(V)
        if not deg2 and len(V) <= 4 and rng.random() < 0.6:
            return [sorted(V)]
        out = []
        while V:
            n = rng.randint(1, 2 if deg2 else 3)
            out.append(V[:n]); V = V[n:]
        return out
    def fill(keys):
        return [["add", list(k), rng.choice(COEFS)] for k in keys]
    n = rng.randint(1, nmax)
    V = sorted(rng.sample(range(max(n, top // 2)), n))
    keys = cover(V)
    cur, ops, calls = {}, [], []
    hi = max(V)
    for ci in range(rng.randint(2, 4)):
        if ci == 0:
            edits = fill(keys)
            if rng.random() < 0.3:
                edits.append(["add", [], rng.choice(COEFS)])
        else:
            cm = rng.choice(["same", "same", "same", "more", "fewer"])
            mm = rng.choice(["larger", "larger", "smaller", "same"])
            n2 = len(V) if cm == "same" else min(nmax + 1, len(V) + 1) if cm == "more" else max(1, len(V) - 1)
            mx = max(V)
            m2 = rng.randint(mx + 1, top) if (mm == "larger" and mx < top) else \
                rng.randint(n2 - 1, mx - 1) if (mm == "smaller" and mx > n2 - 1) else mx
            m2 = max(m2, n2 - 1)
            below = [i for i in range(m2) if i not in V]
            if len(below) < n2 - 1:
                below = list(range(m2))
            V2 = sorted(rng.sample(below, n2 - 1) + [m2])
            way = rng.choice(["clear", "clear", "cancel+refresh", "cancel", "zero", "monomial"])
            present = [list(k) for k in cur if k]
            if way == "monomial" and not (len(present) == 1 and () not in cur and (spin or set(V) < set(V2))
                                          and (not deg2 or len(V2) <= 2)):
                way = "clear"
            if way == "clear":
                keys = cover(V2); edits = [["clear"]] + fill(keys)
            elif way in ("cancel+refresh", "cancel"):
                edits = [["add", list(k), fs(-v)] for k, v in cur.items()]
                if way == "cancel+refresh":
                    edits.append(["refresh"])
                keys = cover(V2); edits += fill(keys)
            elif way == "zero":
                edits = [["mul", "0"]] + ([["refresh"]] if rng.random() < 0.5 else [])
                keys = cover(V2); edits += fill(keys)
            else:
                ko = sorted(set(present[0]) ^ set(V2)) if spin else sorted(set(V2) - set(V))
                edits = [["mulpoly", ko, rng.choice(["1", "-1", "2", "-3"])]]
            V = V2
            hi = max(hi, max(V))
        apply_edits(edits, ops, cur, spin)
        dur = rng.choice([0, 1, 2, 3, 5, 8])
        sched = {"t": "explicit", "Ts": [rng.choice([0.0, 0.5, 1.0, rng.uniform(0.05, 4)]) for _ in range(dur)]}
        init = None
        if rng.random() < 0.3:
            init = [[i, rng.choice([1, -1] if spin else [0, 1])] for i in range(top + 1)]
        calls.append({"edits": edits, "ops": [list(o) for o in ops], "sched": sched, "init": init,
                      "in_order": rng.random() < 0.5, "seed": rng.randrange(2 ** 31),
                      "num_anneals": rng.choice([1, 1, 2, 3])})
    return {"family": "history", "shape": "swap", "fn": fn, "kind": kind, "labels": labels, "num": num, "calls": calls}

def history_calls(h):
    """the calls of a history as `anneal` cases (cumulative ops)"""
    return [dict(family="anneal", fn=h["fn"], kind=h["kind"], labels=h["labels"], num=h["num"], shape="history",
                 ops=c["ops"], sched=c["sched"], init=c["init"], in_order=c["in_order"], seed=c["seed"],
                 num_anneals=c["num_anneals"]) for c in h["calls"]]

def run_history_impl(h):
    """one real object; before every call its edits are applied in place; returns run_impl's tuple per call"""
    L = Labels(h["labels"])
    obj = cls_of(h["kind"])()
    out = []
    for call, c in zip(h["calls"], history_calls(h)):
        for e in call["edits"]:
            if e[0] == "add":
                obj[L.key(e[1])] += num_of(e[2], h["num"])
            elif e[0] == "mul":
                obj *= num_of(e[1], h["num"])
            elif e[0] == "clear":
                obj.clear()
            elif e[0] == "refresh":
                obj.refresh()
            elif e[0] == "mulpoly":
                obj *= {L.key(e[1]): num_of(e[2], h["num"])}
            else:
                raise ValueError(e[0])
        out.append(run_impl(c, prebuilt=(obj, L)))
    return out

# ------------------------------------------------------------------ kernel family (arbitrary floats)

def gen_kernel_case(rng):
    fn = rng.choice(["quso", "puso"])
    n = rng.randint(1, 7)
    ops = []
    for _ in range(rng.randint(1, 9)):
        ln = rng.choice([1, 2, 2] if fn == "quso" else [1, 2, 3, 3, 4])
        ops.append([rng.sample(range(n), min(ln, n)), rng.uniform(-3, 3)])
    if rng.random() < 0.5:
        ops.append([[], rng.uniform(-3, 3)])
    dur = rng.randint(0, 20)
    Ts = [rng.choice([0.0, rng.uniform(0.01, 6)]) for _ in range(dur)]
    return {"family": "kernel", "fn": fn, "ops": ops, "Ts": Ts, "in_order": rng.random() < 0.5,
            "seed": rng.randrange(2 ** 31), "num_anneals": rng.randint(1, 3),
            "init": [rng.choice([1, -1]) for _ in range(n)] if rng.random() < 0.4 else None}

def run_kernel_impl(case):
    """returns (impl, driver line, oracle finding)"""
    import qubovert.sim as sim
    from qubovert.utils import QUSOMatrix, PUSOMatrix
    H = (QUSOMatrix if case["fn"] == "quso" else PUSOMatrix)()
    for k, v in case["ops"]:
        H[tuple(k)] += v
    if not H._variables:
        return None, None, None
    N = H.max_index + 1
    init = None if case["init"] is None else {i: (case["init"] + [1] * 8)[i] for i in range(N)}
    c = cap(); c.last = None
    try:
        with warnings.catch_warnings():
            warnings.simplefilter("ignore")
            res = getattr(sim, "anneal_" + case["fn"])(H, num_anneals=case["num_anneals"], initial_state=init,
                                                       in_order=case["in_order"], seed=case["seed"],
                                                       schedule=list(case["Ts"]))
    except Exception as e:
        return {"err": exc_name(e)}, {"op": "ping"}, ("C11:exception", "anneal_%s raised %r on a valid Matrix input"
                                                      % (case["fn"], e))
    a = c.last
    if not a or "out" not in a:
        return None, None, None
    impl = [[[int(x) for x in st], bits(v)] for st, v in zip(a["out"][0], a["out"][1])]
    base = {"Ts": [bits(t) for t in a["Ts"]], "num_anneals": a["num_anneals"], "in_order": bool(a["in_order"]),
            "seed": a["seed"], "init": a["init"]}
    if a["kind"] == "quso":
        line = dict(base, op="c11_kernel_quso", h=[bits(x) for x in a["h"]], nn=a["nn"], nb=a["nb"],
                    J=[bits(x) for x in a["J"]])
    else:
        line = dict(base, op="c11_kernel_puso", N=a["N"], nc=a["nc"], terms=a["terms"], cs=[bits(x) for x in a["cs"]])
    # the direct oracle on the API result (floats are not dyadic here: the value clause is checked with a tolerance
    # of a few ulps of the coefficient mass; the exact clause is carried by the `anneal` family)
    bad = None
    poly = {}
    for k, v in case["ops"]:
        sk = tuple(squashed(k, True))
        poly[sk] = poly.get(sk, Fraction(0)) + Fraction(v)
    mass = sum(abs(v) for v in poly.values()) + 1
    if len(res) != case["num_anneals"]:
        bad = ("C11:count", "returned %d results for num_anneals=%d" % (len(res), case["num_anneals"]))
    for idx, r in enumerate(res):
        if bad:
            break
        if set(r.state) != set(range(N)):
            bad = ("C11:domain", "result %d: state domain %s, expected 0..%d" % (idx, sorted(r.state), N - 1))
        elif any(v not in (1, -1) for v in r.state.values()):
            bad = ("C11:values", "result %d: state %s" % (idx, r.state))
        elif r.spin is not True:
            bad = ("C11:flag", "result %d: spin flag %r" % (idx, r.spin))
        else:
            want = poly_value(poly, {i: Fraction(v) for i, v in r.state.items()})
            if abs(Fraction(r.value) - want) > Fraction(1, 10 ** 12) * mass:
                bad = ("C11:value", "result %d: value %r but the model evaluates to %s at %s" % (idx, r.value, float(want), r.state))
    if not bad and res and (res.best is None or res.best.value != min(r.value for r in res)):
        bad = ("C11:best", "best.value %r is not the minimum" % (getattr(res.best, "value", None),))
    api = [[r.state[i] for i in range(N)] for r in res] if not bad else None
    if api is not None and api != [s for s, _ in impl]:
        impl = {"api_states": api, "kernel_states": impl}
    return impl, line, bad

# ------------------------------------------------------------------ driver of the check

def nontrivial(case, canon, call):
    return bool(call and "out" in call and call["N"] >= 2 and call["Ts"] and case["num_anneals"] >= 1
                and any(len(set(k)) >= 2 for k, _ in case["ops"]))

def process(ctx, cases):
    a_cases = [c for c in cases if c["family"] == "anneal"]
    k_cases = [c for c in cases if c["family"] == "kernel"]
    impls, lines = [], []
    for c in a_cases:
        r = run_impl(c)
        impls.append(r)
        # seed=None seeds PCG32 from the clock: no replay, the oracle only
        lines.append(model_line(c, r[4], obj_data(c, r[2], r[3])) if c["seed"] is not None else {"op": "ping"})
    models = common.run_driver(lines)
    for c, (canon, res, obj, L, _sd, call, detail), m in zip(a_cases, impls, models):
        m = canon_model(m) if c["seed"] is not None else canon
        ctx.case(c, nontrivial(c, canon, call))
        tag = "err:" + canon["err"] if "err" in canon else ("kernel" if canon["call"] else "early")
        ctx.count("%s:%s:%s" % (c["fn"], c["kind"], tag))
        ctx.count("shape:" + c["shape"])
        ctx.count("sched:" + (c["sched"].get("name") or "explicit"))
        ctx.count("seed:" + ("None" if c["seed"] is None else "fixed"))
        if c.get("spell"):
            # labels equal across types: the model is compared where it is label-parametric, the C arguments as a multiset
            ctx.count("xeq:%s" % ("model+oracle" if model_is_label_parametric(c) else "oracle-only"))
            if c["seed"] is not None and model_is_label_parametric(c) and xeq_view(canon) != xeq_view(m):
                ctx.diff("xeq", c, canon, m)
        elif canon != m:
            ctx.diff("anneal", c, canon, m)
        bad = oracle(c, canon, res, obj, L, detail)
        if bad:
            ctx.violation(bad[0], c, bad[1])
        if "results" in canon:
            ctx.traces += 1
    # histories on one object: every call is compared with the model of the cumulative history and checked by the oracle
    h_cases = [c for c in cases if c["family"] == "history"]
    himpls, hlines = [], []
    for hc in h_cases:
        rs = run_history_impl(hc)
        himpls.append(rs)
        hlines += [model_line(c, r[4]) for c, r in zip(history_calls(hc), rs)]
    hmodels = common.run_driver(hlines)
    pos = 0
    for hc, rs in zip(h_cases, himpls):
        calls = history_calls(hc)
        ctx.case(hc, any(nontrivial(c, r[0], r[5]) for c, r in zip(calls, rs)))
        ctx.count("history:%s:%s" % (hc["fn"], hc["kind"]))
        if hc.get("shape") == "swap":
            ctx.count("history-swap")
        for i, (c, (canon, res, obj, L, _sd, call, detail)) in enumerate(zip(calls, rs)):
            m = canon_model(hmodels[pos]); pos += 1
            ctx.count("history-call:" + ("err:" + canon["err"] if "err" in canon else ("kernel" if canon["call"] else "early")))
            rep = dict(hc, calls=hc["calls"][:i + 1])       # the history up to the failing call
            if canon != m:
                ctx.diff("history", rep, canon, m)
            bad = oracle(c, canon, res, obj, L, detail)
            if bad:
                ctx.violation(bad[0], rep, "call %d of a history on one %s object: %s" % (i + 1, hc["kind"], bad[1]))
            if "results" in canon:
                ctx.traces += 1
    klines, kimpls, kc2 = [], [], []
    for c in k_cases:
        impl, line, bad = run_kernel_impl(c)
        if line is None:
            continue
        klines.append(line); kimpls.append((impl, bad)); kc2.append(c)
    kmodels = common.run_driver(klines)
    for c, (impl, bad), m in zip(kc2, kimpls, kmodels):
        ctx.case(c, len(c["Ts"]) > 0)
        ctx.count("kernel:" + c["fn"])
        ctx.traces += 1
        if impl != m:
            ctx.diff("kernel", c, impl, m)
        if bad:
            ctx.violation(bad[0], c, bad[1])

def fixed_cases():
    """the corner cases named in DESIGN.md §10 (D4, D5, D6) and in the property text, always run.  D4 and D6 are
    repaired in /repo; these inputs are regression inputs that must pass (the signatures stay in the oracle so that a
    relapse is reported under the same name)"""
    base = {"family": "anneal", "labels": "int", "num": "int", "init": None, "in_order": True, "seed": 0,
            "sched": {"t": "explicit", "Ts": [1.0, 0.5]}, "num_anneals": 2, "shape": "fixed"}
    out = []
    for fn, kind in (("quso", "QUSOMatrix"), ("puso", "PUSOMatrix"), ("puso", "QUSOMatrix"),
                     ("qubo", "QUBOMatrix"), ("pubo", "PUBOMatrix")):
        out.append(dict(base, fn=fn, kind=kind, ops=[[[], "5"]]))        # offset only, Matrix (D4 regression)
        out.append(dict(base, fn=fn, kind=kind, ops=[]))                  # empty Matrix (D4 regression)
    for fn in ("quso", "puso", "qubo", "pubo"):
        for kind in KINDS[fn]:
            if kind not in MATRIX:
                out.append(dict(base, fn=fn, kind=kind, ops=[[[], "5"]]))  # offset only, labelled: N == 0 shortcut
                out.append(dict(base, fn=fn, kind=kind, ops=[]))
    # D5 reachability: a PUSOMatrix whose only term cancelled (N = 3, num_terms = 0)
    out.append(dict(base, fn="puso", kind="PUSOMatrix", ops=[[[0, 1, 2], "1"], [[0, 1, 2], "-1"]], shape="cancelled"))
    out.append(dict(base, fn="pubo", kind="PUBOMatrix", ops=[[[0, 1], "1"], [[0, 1], "-1"]], shape="cancelled"))
    out.append(dict(base, fn="quso", kind="QUSOMatrix", ops=[[[0, 2], "1"], [[0, 2], "-1"]], shape="cancelled"))
    # D6 regression (repaired in /repo: anneal_temperature_range reads the variables that appear): a model whose terms
    # all cancelled, default temperature range, both named schedules
    for fn, kind, ops in (("quso", "QUSOMatrix", [[[0, 1], "1"], [[0, 1], "-1"]]),
                          ("puso", "PUSOMatrix", [[[0, 1, 2], "2"], [[0, 1, 2], "-2"], [[], "3"]]),
                          ("puso", "QUSO", [[[0, 1], "1"], [[0, 1], "-1"]]),
                          ("qubo", "QUBO", [[[0], "1"], [[0], "-1"]]),
                          ("pubo", "PUBOMatrix", [[[0, 1], "1/2"], [[0, 1], "-1/2"]])):
        for name in ("linear", "geometric"):
            out.append(dict(base, fn=fn, kind=kind, ops=ops, shape="cancelled",
                            sched={"t": "named", "name": name, "duration": 5}))
    # regression inputs of the two findings repaired last (they must pass; a relapse is reported under the old name)
    # C11:matrix-domain-pubo-QUBOMatrix: states over 0..max_index, also with gaps and after a cancellation
    out.append(dict(base, fn="pubo", kind="QUBOMatrix", ops=[[[4], "1"]], shape="isolated"))
    out.append(dict(base, fn="pubo", kind="QUBOMatrix", ops=[[[1, 3], "2"], [[3], "-1"], [[], "1/2"]], shape="isolated",
                    init=[[0, 1], [1, 0], [2, 1], [3, 1]]))
    out.append(dict(base, fn="pubo", kind="QUBOMatrix", shape="cancelled",
                    ops=[[[0], "-5"], [[3], "-1"], [[], "-1/2"], [[2, 3], "3/2"], [[0], "5"], [[], "1/2"]]))
    out.append(dict(base, fn="qubo", kind="QUBOMatrix", ops=[[[4], "1"]], shape="isolated"))
    # C11:D1-repeated-label-key: a key repeating a label no longer registers a non-variable in `mapping`
    out.append(dict(base, fn="puso", kind="QUSO", labels="mixed", shape="dup", num_anneals=1,
                    ops=[[[], "-1/2"], [[2, 4], "1/4"], [[7, 7], "2"]], init=[[2, -1], [4, -1], [7, -1]]))
    out.append(dict(base, fn="quso", kind="dict", labels="str", shape="dup", ops=[[[0, 0], "3"], [[1], "1"]]))
    out.append(dict(base, fn="puso", kind="dict", labels="str", shape="dup", ops=[[[0, 0, 1, 2, 3], "1"]]))
    out.append(dict(base, fn="puso", kind="PUSO", labels="tuple", shape="dup", ops=[[[0, 0, 1, 2, 3], "1"], [[0], "2"]]))
    out.append(dict(base, fn="pubo", kind="dict", labels="int", shape="dup", ops=[[[0, 0, 1], "1"], [[1, 1], "-1/2"]]))
    out.append(dict(base, fn="qubo", kind="QUBO", labels="str", shape="dup", ops=[[[0, 0], "1"], [[0, 1], "2"]]))
    # a user-set mapping whose dict is not in index order (seed C11-4: labels looked up by dict order when packaging)
    out.append(dict(base, fn="puso", kind="PCSO", labels="str", shape="mapping", num_anneals=3,
                    ops=[[[0], "-5"], [[3], "5/4"], [[], "1/4"]], sched={"t": "explicit", "Ts": []},
                    mapping={"how": "set_mapping", "pairs": [[0, 1], [3, 0]]}))
    out.append(dict(base, fn="quso", kind="QUSO", labels="tuple", shape="mapping", init=[[0, 1], [1, -1], [2, -1]],
                    ops=[[[0, 1], "1"], [[2], "-3/2"], [[1, 2], "1/2"]],
                    mapping={"how": "set_reverse_mapping", "pairs": [[2, 1], [0, 2], [1, 0]]}))
    return out

def fixed_histories():
    """a call, then growth of the same Matrix object with larger labels, then a call again (seed C17-4: a cached
    max_index sizes N from the first call)"""
    def call(edits, ops, Ts, seed):
        return {"edits": edits, "ops": ops, "sched": {"t": "explicit", "Ts": Ts}, "init": None, "in_order": True,
                "seed": seed, "num_anneals": 2}
    out = []
    for fn, kind in (("quso", "QUSOMatrix"), ("puso", "PUSOMatrix"), ("puso", "QUSOMatrix"), ("qubo", "QUBOMatrix"),
                     ("pubo", "PUBOMatrix")):
        out.append({"family": "history", "fn": fn, "kind": kind, "labels": "int", "num": "int", "calls": [
            call([["add", [0, 1], "-1"]], [[[0, 1], "-1"]], [0.5], 1),
            call([["add", [2, 3], "1"]], [[[0, 1], "-1"], [[2, 3], "1"]], [1.0, 0.5, 0.0], 2),
            call([["mul", "0"], ["add", [5], "2"]], [[[0, 1], "-1"], [[2, 3], "1"], [[0, 1], "1"], [[2, 3], "-1"], [[5], "2"]],
                 [1.0], 3)]})
    return out

def check(ctx):
    rng = ctx.rng
    cases = fixed_cases() + fixed_histories()
    cases += [gen_case(rng) for _ in range(ctx.scale(4000, 60000))]
    cases += [gen_kernel_case(rng) for _ in range(ctx.scale(800, 10000))]
    cases += [gen_mapping_case(rng) for _ in range(ctx.scale(400, 5000))]
    cases += [gen_history(rng) for _ in range(ctx.scale(400, 5000))]
    cases += [gen_swap_history(rng) for _ in range(ctx.scale(300, 4000))]
    cases += [gen_cons_case(rng) for _ in range(ctx.scale(300, 4000))]
    cases += [gen_xeq_case(rng) for _ in range(ctx.scale(500, 6000))]
    process(ctx, cases)
    if ctx.diffs and not ctx.violations:
        search(ctx)

def search(ctx):
    """failing-input search after a correspondence difference: the direct oracle on the disagreeing cases with every
    num_anneals / visiting order / initial-state variant, and on a fresh batch concentrated on their function and kind"""
    extra = []
    for d in ctx.diffs[:40]:
        c = d["case"]
        if c["family"] != "anneal":
            continue
        for na in (1, 3):
            for io in (True, False):
                extra.append(dict(c, num_anneals=na, in_order=io))
                extra.append(dict(c, num_anneals=na, in_order=io, init=None))
        for _ in range(40):
            extra.append(gen_case(ctx.rng, {"fn": c["fn"], "kind": c["kind"]}))
    extra += [gen_case(ctx.rng) for _ in range(1500)]
    for c in extra:
        canon, res, obj, L, _sd, call, detail = run_impl(c)
        bad = oracle(c, canon, res, obj, L, detail)
        if bad:
            ctx.violation(bad[0], c, bad[1])

def replay(ctx, payload):
    c = payload.get("case") or (payload.get("first_difference") or {}).get("case")
    if not c:
        ctx.notes.append("replay file has no case; re-running the full check")
        return check(ctx)
    process(ctx, [c])
