"""C09 — brute-force solvers return the exact minimum and exactly the minimisers (correspondence + oracle).

Families
  free       the four free functions on plain dicts (unsorted / repeated labels, zero coefficients),
             Matrix objects and BO objects, user predicates from the menu, both modes
  method     the `solve_bruteforce` methods of all ten model types; PCBO / PCSO with recorded constraints
             (predicate = table of `is_solution_valid`)
  const      empty and offset-only models of every kind x every menu predicate x both modes (exhaustive)
  malformed  plain dicts of degree >= 3 given to solve_qubo/quso_bruteforce (outside the property's domain:
             correspondence only, the model uses the same truncating value function)
  mhist      Matrix objects (all four types) edited in place after construction so that a variable's terms cancel
             (`M[k] -= c`, `M[k] = 0`, `M -= {...}`, `M += {...}`) and *not* refreshed: the cached `_variables` /
             `num_binary_variables` are stale, but `_solve_bruteforce` scans the keys of Matrix objects, so the
             property must hold on them (free functions and `.solve_bruteforce()`); the model is fed what the code
             reads (the stored terms, no bookkeeping)
  bhist      labelled BO objects (QUBO / PUBO / QUSO / PUSO / PCBO / PCSO) whose bookkeeping went through zero
             assignments, squashed-away labels, cancelling terms and in-place cancelling edits, *not* refreshed
             (DESIGN.md §10 D1, fixed upstream by 67e6723): free functions and methods; the model is fed the
             bookkeeping the code reads (`num_binary_variables`, `_reverse_mapping`).  Regression signature
             `C09:D1-labelled-stale-bookkeeping`
  problem    `Problem.solve_bruteforce` wrappers: independent enumeration over ALL `num_binary_variables` labels of
             the problem (oracle only); the D7 inputs (constant matrices, labels absent from the matrix; fixed
             upstream by 9a5d806) are fixed regression inputs, signature `C09:D7-problem-wrapper-absent-variable`

  (round 3)
  plateau    every coefficient the same number (many minimisers, many repeated objective values; plain dicts also with
             labels that only occur with a zero coefficient, so every minimiser comes 2^k times), mostly all_solutions
  raise      `valid` raises the harness' own exception on some assignments (exactly one / a variable subset's parity /
             a pair relation / a threshold / none), for the free functions and — by shadowing `is_solution_valid` on
             the instance — for the methods.  Oracle only (the model's `valid` is total): if `valid` raises for some
             assignment over the model's variables the very same exception object must reach the caller, `valid` must
             not be called again afterwards, and the model must be unchanged by value; on a constant model and when no
             assignment raises, the ordinary oracle applies.  Signature `C09:raise`
  multi      several calls on ONE object with in-place edits between them (set / += / cancel a variable / offset /
             pop the offset / new variable / refresh() / add a constraint; composite edits such as cancel + refresh
             (+ new variable), which shrink and renumber `_reverse_mapping`): every call is prepared from the state the
             object is in at that moment and checked like a single call (correspondence + oracle)
  also: mixed-type labels (int / str / tuple in one model, ids spread over 0..9), n = 9 (the harness's limit),
  hist/bhist cases that call refresh() after the cancelling edits (cancelled variables, refreshed bookkeeping),
  predicates that depend on a subset of the variables (`subpar`, `pair`; sometimes on a label the model lacks),
  accept exactly one assignment (`only`) or exactly the non-minimal assignments (`nonmin`), and — const family —
  constant PCBO / PCSO whose recorded constraint rejects `{}`.

  (round 4)
  multi      now also maintenance calls and in-place rebuilds between the calls: `clear()`, clear-and-refill with
             another label set (old labels in a new order, brand-new labels), `update({...})`, `del`, `copy()`,
             `round()`, `*= dict` / `*= c` (incl. 0) / `**= 2` / `/= c` (all of `*`, `**` go through `clear()`), products
             in which a label drops out (spin `z*z`, boolean `x*(1-x)`) followed by a new variable, and self-aliased
             operands (`H -= H`, `H += H`, `H *= H`, `H.update(H)`).  Signature `C09:multi`
  vtypes     coefficient types bool / numpy.int64 / numpy.float64 / ints scaled by 2**60+1 (exact in int, not in
             float), `valid` callbacks returning numpy.bool_ / int / an arbitrary truthy-falsy object, keyword
             arguments (`valid=`, `all_solutions=`), label styles of `Labels.STYLES_XEQ` (floats, bools, labels equal
             across types — for `xeq` the several stored spellings of one monomial are merged on both sides)
  The table of `is_solution_valid` handed to the model and the oracle for PCBO / PCSO methods is computed by the
  harness itself from the recorded constraint polynomials (own evaluation, own relation table); no helper of the
  implementation is used to judge the implementation.

  (round 6)
  closure    ORACLE-FIRST family: the `valid` predicate CLOSES OVER THE ARGUMENT MODEL itself and reads it while the solver
             runs — `valid = lambda x: pubo_value(x, D) >= k` (the library's value function of the solver's kind on the very
             object handed to the solver), `D.value(x) <= k` (Matrix and labelled types) or a direct read of the stored
             offset `ones(x) + D.get((), 0) > k`; plain dicts (raw keys), the four Matrix types and the six labelled types,
             all four free functions, both modes; four in five models carry a non-zero offset, the threshold k is one of
             the values the quantity actually takes (so the offset moves assignments across it).  What `valid` MEANS is
             fixed before the call by the harness' own evaluation of a plain copy of the terms (a table of the accepted
             assignments); the oracle judges the real result against that table, and the same table goes to the Lean
             model as a bonus correspondence.  Signature `C09:closure`
  inf        ORACLE-ONLY family (no model: ℚ has no ∞): float('inf') coefficients / an infinite offset / finite 1e308
             coefficients whose sum overflows, with a predicate — or, through `PCBO/PCSO.solve_bruteforce()`, recorded
             constraints — that forces the infinite terms on, so that EVERY valid assignment evaluates to +inf: the
             objective must be +inf (not None), the assignment valid and over exactly the variables, all_solutions every
             valid assignment exactly once.  Controls: -inf coefficients (minimum -inf), and `partial` (some valid
             assignment finite).  Values are computed by the harness' own float evaluation, forwards and backwards (a
             case whose float sum depends on the order is skipped and counted).  Signature `C09:inf`
  zerolab    plain dicts in which one or two labels occur ONLY in terms with an explicitly stored zero coefficient (0, 0.0,
             Fraction(0); singletons and products with ordinary labels) and the predicate depends on exactly those labels
             (forces them to 1 / -1, parity over a subset containing them, equal / unequal to an ordinary label, threshold
             on the number of ones, a single accepted assignment): they are variables of the model like any other
             (correspondence + oracle).  Signature `C09:zerolab`

The corner (constant model, `valid({})` false): the property's clause 3 ("no assignment valid => objective None")
and clause 4 ("constant model => the constant with an empty assignment") contradict each other there.  The code
follows clause 4 (it returns before the loop and never calls `valid`; Lean: `constant_model_ignores_valid`,
`no_valid_none_iff`), the oracle judges the corner by clause 4, and every run records which clause the real code
followed in the histogram (`corner:constant-model+valid-rejects-{}:objective=...`).  In that corner the oracle accepts
either objective (the constant, or `None`) with the empty assignment — the property text cannot decide — and reports
anything else; a switch of the code to clause 3 would still show up as a correspondence difference.

"The model's variables" in the oracle: the labels of the stored keys for plain dicts and Matrix objects (the code
scans the keys); for the labelled BO types the variables the object itself reports (`variables`, which the
bookkeeping keeps in step with `mapping` / `num_binary_variables`; a variable whose terms cancelled in place stays
one until `refresh()` — the exactness of that cache is C14's subject, not C09's); a model without any label in its
keys is constant (clause 4) whatever the cache says.

The Lean side receives the terms of the real object *as stored before the call*, its bookkeeping
(`num_binary_variables`, `_reverse_mapping`) when it has one, the mode and the predicate; it returns the
result of `Qv.Brute.solve` in the requested and in the other mode.  Compared: objective exactly; single
solution ∈ the model's argmin list; `all_solutions` as a sorted list (set equality + duplicate-freeness);
terms afterwards as a dict.
"""
import copy, itertools, json, math, operator
from fractions import Fraction
from . import common
from .common import Labels, fs, exc_name, canon_terms, ANC

CEXT = "plain"
RULE = ("models with 1..8 variables and 1..8 terms, small integer / Fraction / dyadic float coefficients (ties frequent), "
        "offsets, all ten model types + plain dicts with raw keys, labels int/str/tuple/mixed, predicate menu always/"
        "never/parity/threshold/excluded assignment/exactly one/exactly the non-minimisers/parity of a variable subset/"
        "pair relation/table of is_solution_valid, raising predicates, both modes, four free functions and the methods, "
        "n up to 9, plateaus, multi-call histories with edits between the calls; predicates that close over the argument "
        "model (value function / .value / stored offset against a threshold taken from the model's own values; dict, Matrix, "
        "labelled types; 4 functions; offsets), inf / overflowing coefficients forced on by the predicate or by PCBO/PCSO "
        "constraints (oracle only), plain dicts with labels that occur only with stored zero coefficients and predicates "
        "depending on them; a case is non-trivial when the "
        "model has >= 2 variables and >= 2 terms and at least one assignment is valid; distinct = distinct case JSON")
ASSUMPTIONS = ["for the labelled BO types the model's variables are those the object reports (`variables` = the labels of "
               "`mapping`); cancelled variables stay until refresh() (C14's subject). Plain dicts and Matrix types: the labels "
               "of the stored keys (Matrix types also with a stale variable cache, family mhist)",
               "float coefficients (dyadic floats given directly, and the floats PCSO constraints create) are kept dyadic so "
               "that IEEE arithmetic is exact; float rounding is outside the model",
               "a Python set's iteration order is abstracted: every compared output is order-independent"]

# regression signatures of repaired defects (known_findings.json lists them under "fixed"; they suppress nothing)
D1_SIG = "C09:D1-labelled-stale-bookkeeping"
D7_SIG = "C09:D7-problem-wrapper-absent-variable"
# PCBO / PCSO: an always-satisfied (or otherwise unpenalised) constraint that mentions a label which is not a variable
# of the model is recorded, so `is_solution_valid` raises KeyError on every assignment the solver builds and
# `solve_bruteforce()` raises.  Recorded in the histogram and the notes; with True reported as a violation with
# signature "C09:constraint-on-absent-variable".
ABSENT_AS_FINDING = False

BOOL_FN, SPIN_FN = ("pubo", "qubo"), ("puso", "quso")
KINDS_OF_FN = {
    "pubo": ["dict", "PUBOMatrix", "QUBOMatrix", "PUBO", "QUBO", "PCBO"],
    "qubo": ["dict", "QUBOMatrix", "QUBO", "PUBOMatrix", "PUBO", "PCBO"],
    "puso": ["dict", "PUSOMatrix", "QUSOMatrix", "PUSO", "QUSO", "PCSO"],
    "quso": ["dict", "QUSOMatrix", "QUSO", "PUSOMatrix", "PUSO", "PCSO"],
}
FN_OF_KIND = {"PUBOMatrix": "pubo", "PUBO": "pubo", "PCBO": "pubo", "QUBOMatrix": "qubo", "QUBO": "qubo",
              "PUSOMatrix": "puso", "PUSO": "puso", "PCSO": "puso", "QUSOMatrix": "quso", "QUSO": "quso"}
DEG2 = {"QUBO", "QUSO", "QUBOMatrix", "QUSOMatrix"}
MATRIX = {"QUBOMatrix", "QUSOMatrix", "PUBOMatrix", "PUSOMatrix"}
BO = {"QUBO", "QUSO", "PUBO", "PUSO", "PCBO", "PCSO"}
ALL_KINDS = ["dict"] + sorted(FN_OF_KIND)

def cls_of(name):
    import qubovert as qv
    from qubovert import utils
    return getattr(qv, name, None) or getattr(utils, name)

def free_fn(fn):
    from qubovert import utils
    return getattr(utils, "solve_%s_bruteforce" % fn)

# ------------------------------------------------------------------ labels

def lab_of(L, i):
    return "__a%d" % (i - ANC) if i >= ANC else L.lab(i)

BIG = (1 << 60) + 1        # style "big": every integer coefficient is scaled by 2**60 + 1 (exact in int, not in float)

def num_of(s, style):
    f = Fraction(s)
    if style == "bool" and f in (0, 1):
        return bool(f)
    if style == "big" and f.denominator == 1:
        return int(f) * BIG
    if style == "np" and (f.denominator & (f.denominator - 1)) == 0:
        import numpy as np
        return np.int64(int(f)) if f.denominator == 1 else np.float64(float(f))
    if style == "float" and (f.denominator & (f.denominator - 1)) == 0:
        return float(f)
    if f.denominator == 1 and style != "frac":
        return int(f)
    return f

# ------------------------------------------------------------------ generation

def gen_coef(rng, zero_ok):
    r = rng.random()
    if r < 0.75:
        return str(rng.choice([-2, -1, -1, 1, 1, 2, 3]))
    if r < 0.9:
        return rng.choice(["1/2", "-1/2", "3/2", "-3/4", "1/4"])
    if zero_ok and r < 0.95:
        return "0"
    return rng.choice(["1/3", "-2/3", "5/7"])

def dyadic(s):
    d = Fraction(s).denominator
    return d & (d - 1) == 0

def gen_terms(rng, n, fn, kind, nterms=None):
    deg2 = fn in ("qubo", "quso") or kind in DEG2
    raw = kind == "dict"
    terms = []
    for _ in range(nterms if nterms is not None else rng.randint(1, 8)):
        if deg2:
            ln = rng.choice([1, 1, 2, 2, 2])
        else:
            ln = rng.choice([1, 1, 2, 2, 3, 3, 4])
        ln = min(ln, n) if not raw else ln
        if raw or rng.random() < 0.3:
            # unsorted, possibly repeated labels; for degree-2 fns on dicts keep len(key) <= 2
            pool = rng.sample(range(n), min(n, 2 if deg2 else 4))
            if deg2 and not raw:
                key = [rng.choice(pool) for _ in range(rng.choice([1, 2, 2, 3]))]
                # a degree-2 type must squash to <= 2 labels: only two distinct labels are drawn, fine
            elif deg2:
                key = [rng.choice(pool) for _ in range(rng.choice([1, 2, 2]))]
            else:
                key = [rng.choice(pool) for _ in range(ln + rng.choice([0, 0, 1]))]
        else:
            key = sorted(rng.sample(range(n), min(ln, n)))
        terms.append([key, gen_coef(rng, zero_ok=True)])
    if rng.random() < 0.4:
        terms.insert(rng.randrange(len(terms) + 1), [[], gen_coef(rng, zero_ok=raw)])
    return terms

def gen_pred(rng, n, spin):
    t = rng.choice(["always", "always", "never", "parity", "thr", "thr", "excl", "subpar", "subpar", "pair", "only",
                    "nonmin"])
    if t in ("subpar", "pair", "only"):
        return {"t": t, "x": None}           # filled in once the variables are known (`fill_pred`)
    if t == "parity":
        return {"t": "parity", "r": rng.randrange(2)}
    if t == "thr":
        return {"t": "thr", "cmp": rng.choice(["le", "ge"]), "k": rng.randint(0, n + 1)}
    if t == "excl":
        return {"t": "excl", "x": None}      # filled in once the variables are known
    return {"t": t}

def gen_case(rng, family, big=False):
    fn = rng.choice(["pubo", "qubo", "puso", "quso"])
    if family == "method":
        kind = rng.choice(sorted(FN_OF_KIND))
        fn = FN_OF_KIND[kind]
    else:
        kind = rng.choice(KINDS_OF_FN[fn])
    n = rng.randint(6, 8) if big else rng.choice([1, 2, 2, 3, 3, 4, 4, 5, 6])
    c = {"family": family, "fn": fn, "kind": kind, "n": n, "terms": gen_terms(rng, n, fn, kind),
         "labels": "int" if kind in MATRIX else rng.choice(Labels.STYLES_X),
         "num": rng.choice(["int", "int", "frac", "float"]), "all": rng.random() < 0.5,
         "via": "method" if family == "method" else "free", "seed": rng.randrange(1 << 30)}
    if c["num"] == "float" and any(Fraction(v).denominator & (Fraction(v).denominator - 1) for _, v in c["terms"]):
        c["num"] = "frac"
    if family == "method":
        c["valid"] = {"t": "always"}
        if kind in ("PCBO", "PCSO") and rng.random() < 0.8:
            c["cons"] = gen_constraints(rng, min(n, 4), kind)
            c["n"] = min(n, 4)
            c["terms"] = gen_terms(rng, c["n"], fn, kind, nterms=rng.randint(1, 4))
            if c["num"] == "float":
                c["num"] = "int"
            if kind == "PCSO":
                # the spin constraints go through /2 conversions and produce float coefficients; keep every
                # coefficient dyadic so that float arithmetic stays exact (DESIGN.md §3.2)
                c["terms"] = [[k, v if dyadic(v) else "1"] for k, v in c["terms"]]
    else:
        c["valid"] = gen_pred(rng, n, fn in SPIN_FN)
    return c

HIST_OPS = ["isub", "set0", "isubdict", "iadddict"]

def gen_hist_case(rng, via, kinds=None, family="mhist"):
    """an object whose variable cache is stale: label `n` (and sometimes another label) occurs only in terms
    that are cancelled in place after construction"""
    kind = rng.choice(sorted(kinds or MATRIX))
    fn = FN_OF_KIND[kind] if via == "method" else rng.choice([f for f in KINDS_OF_FN if kind in KINDS_OF_FN[f]])
    n = rng.choice([1, 2, 2, 3, 3, 4, 5])
    terms = gen_terms(rng, n, fn, kind, nterms=rng.randint(1, 6))
    extra = [[[n], gen_coef(rng, False)]]
    if rng.random() < 0.6:
        extra.append([sorted([rng.randrange(n), n]), gen_coef(rng, False)])
    for t in extra:
        terms.insert(rng.randrange(len(terms) + 1), t)
    hist = [{"op": rng.choice(HIST_OPS), "var": n}]
    if rng.random() < 0.3:
        hist.append({"op": rng.choice(HIST_OPS), "var": rng.randrange(n)})
    c = {"family": family, "fn": fn, "kind": kind, "n": n + 1, "terms": terms, "hist": hist,
         "labels": "int" if kind in MATRIX else rng.choice(Labels.STYLES_X),
         "num": rng.choice(["int", "int", "frac", "float"]), "all": rng.random() < 0.5, "via": via,
         "seed": rng.randrange(1 << 30),
         "valid": {"t": "always"} if via == "method" else gen_pred(rng, n, fn in SPIN_FN)}
    if c["num"] == "float" and not all(dyadic(v) for _, v in terms):
        c["num"] = "frac"
    if rng.random() < 0.35:
        c["refresh"] = True
    return c

def apply_hist(obj, hist, L):
    """in-place edits that cancel every stored term containing the given label; no refresh()"""
    for step in hist:
        lab = lab_of(L, step["var"])
        victims = [k for k in list(obj) if lab in k]
        if step["op"] == "isub":
            for k in victims:
                obj[k] -= obj[k]
        elif step["op"] == "set0":
            for k in victims:
                obj[k] = 0
        elif step["op"] == "isubdict":
            obj -= {k: obj[k] for k in victims}
        else:
            obj += {k: -obj[k] for k in victims}
    return obj

def gen_constraints(rng, n, kind):
    cons = []
    for _ in range(rng.choice([1, 1, 2])):
        rel = rng.choice(["eq", "le", "ge", "lt", "gt", "ne"])
        k = rng.randint(1, min(n, 3))
        p = [[[i], str(rng.choice([-1, 1, 1, 2]))] for i in rng.sample(range(n), k)]
        if rng.random() < 0.3 and n >= 2:
            p.append([sorted(rng.sample(range(n), 2)), str(rng.choice([-1, 1]))])
        p.append([[], str(rng.choice([-2, -1, -1, 0, 1]))])
        cons.append({"rel": rel, "p": p})
    return cons

# ------------------------------------------------------------------ building the real object

def key_labels(d):
    s = []
    for k in d:
        for l in k:
            if l not in s:
                s.append(l)
    return s

def model_vars(obj):
    """the variables the property quantifies over (see the module docstring)"""
    labs = key_labels(obj)
    if labs and hasattr(obj, "_reverse_mapping"):
        labs = labs + [l for l in sorted(obj.variables, key=repr) if l not in labs]
    return labs

def consistent(obj):
    """bookkeeping agrees with the stored keys (refreshed state)"""
    if type(obj) is dict:
        return True
    labs = set(key_labels(obj))
    if obj.variables != labs or obj.num_binary_variables != len(labs):
        return False
    if hasattr(obj, "_reverse_mapping"):
        rm = obj._reverse_mapping
        if sorted(rm) != list(range(len(labs))) or set(rm.values()) != labs:
            return False
        if obj._mapping != {v: k for k, v in rm.items()}:
            return False
    return True

def build(case):
    """the real object D of the case, exactly as its construction / edit history leaves it (never refreshed);
    returns (D, tag) with tag in dict / consistent / stale-cache / None (unusable)"""
    L = Labels(case["labels"])
    style = case["num"]
    items = [(tuple(lab_of(L, i) for i in key), num_of(v, style)) for key, v in case["terms"]]
    kind = case["kind"]
    if kind == "dict":
        d = {}
        for k, v in items:
            d[k] = v
        return d, "dict"
    obj = cls_of(kind)(items)
    for con in case.get("cons", []):
        p = {tuple(lab_of(L, i) for i in key): num_of(v, "int") for key, v in con["p"]}
        getattr(obj, "add_constraint_%s_zero" % con["rel"])(p)
    if case.get("hist"):
        o2 = apply_hist(obj, case["hist"], L)
        if o2 is not obj:
            return obj, None
        if case.get("refresh"):
            obj.refresh()                  # cancelled variables, refreshed bookkeeping
    return obj, state_tag(obj)

def state_tag(obj):
    if type(obj) is dict:
        return "dict"
    return "consistent" if consistent(obj) else "stale-cache"

def d1_input(case, tag):
    """the case exercises the bookkeeping paths of D1: a labelled type with a zero assignment, a repeated label in
    a key, or a stale cache"""
    if case["kind"] not in BO:
        return False
    return (case["family"] == "bhist" or tag == "stale-cache" or bool(case.get("hist"))
            or any(Fraction(v) == 0 or len(set(k)) < len(k) for k, v in case["terms"]))

def fill_pred(case, obj, L):
    """complete the predicate of the case once the object's variables are known; returns the JSON predicate"""
    pred = dict(case["valid"])
    labs = model_vars(obj)
    spin = case["fn"] in SPIN_FN
    import random
    r = random.Random(case["seed"])
    ids = sorted(L.ident(l) for l in labs)
    dom = (1, -1) if spin else (0, 1)
    if pred["t"] in ("excl", "only") and pred.get("x") is None:
        pred["x"] = [[i, str(r.choice(dom))] for i in ids]
    if pred["t"] == "subpar" and pred.get("x") is None:
        # depends on a subset of the variables only (sometimes also on a label the model does not have)
        sub = [i for i in ids if r.random() < 0.5] or ids[:1]
        if r.random() < 0.15:
            sub = sub + [max(ids + [0]) + 1]
        pred = {"t": "subpar", "ids": sub, "r": r.randrange(2)}
    if pred["t"] == "pair" and pred.get("x") is None:
        a, b = (r.sample(ids, 2) if len(ids) >= 2 else (ids + [0, 1])[:2])
        pred = {"t": "pair", "a": a, "b": b, "eq": r.random() < 0.5}
    if pred["t"] == "nonmin":
        # accept exactly the assignments that do NOT minimise the model (the input is computed here, from the
        # stored terms, by plain enumeration)
        tabv = [(poly_value(obj, dict(zip(labs, vals))), vals) for vals in itertools.product(dom, repeat=len(labs))]
        m = min(v for v, _ in tabv)
        pred = {"t": "table", "src": "nonmin",
                "xs": [sorted([L.ident(l), str(v)] for l, v in zip(labs, vals)) for val, vals in tabv if val != m]}
    if pred["t"] == "closure":
        # the meaning of the predicate, fixed now: the accepted assignments by the harness' own evaluation of a plain copy
        # of the stored terms; the threshold is one of the values the quantity takes
        orig = dict(pred)
        terms0 = copy.deepcopy(dict(obj))
        tabv = []
        for vals in itertools.product(dom, repeat=len(labs)):
            x = dict(zip(labs, vals))
            tabv.append((clo_quantity(pred["how"], terms0, x), x))
        distinct = sorted({v for v, _ in tabv})
        k = distinct[pred["q"] % len(distinct)]
        ok = CLO_CMP[pred["cmp"]]
        pred = {"t": "table", "src": "closure", "orig": orig, "clo": dict(orig, k=fs(k)),
                "xs": [sorted([L.ident(l), str(v)] for l, v in x.items()) for val, x in tabv if ok(val, k)]}
    if pred["t"] == "force":
        orig = dict(pred)
        want = {i: int(v) for i, v in pred["x"]}
        xs = []
        for vals in itertools.product(dom, repeat=len(labs)):
            e = {L.ident(l): v for l, v in zip(labs, vals)}
            if all(e.get(i) == v for i, v in want.items()):
                xs.append(sorted([i, str(v)] for i, v in e.items()))
        pred = {"t": "table", "src": "force", "orig": orig, "xs": xs}
    if case["via"] == "method" and hasattr(obj, "constraints") and obj.constraints:
        # the predicate of the method is the object's own is_solution_valid, passed to the model as a table
        # (computed here from the recorded constraint polynomials — data of the object — with the harness' own
        # evaluation and relation table; the implementation's is_solution_valid is not consulted)
        tab = []
        rel_ok = {"eq": lambda v: v == 0, "ne": lambda v: v != 0, "lt": lambda v: v < 0, "le": lambda v: v <= 0,
                  "gt": lambda v: v > 0, "ge": lambda v: v >= 0}
        recorded = [(rel, dict(P)) for rel, Ps in obj.constraints.items() for P in Ps]
        if any(l not in labs for _, P in recorded for k in P for l in k):
            return None          # a recorded constraint mentions a label outside the model's variables
        try:
            for vals in itertools.product((1, -1) if spin else (0, 1), repeat=len(labs)):
                x = dict(zip(labs, vals))
                if all(rel_ok[rel](poly_value(P, x)) for rel, P in recorded):
                    tab.append(sorted([L.ident(l), str(v)] for l, v in x.items()))
        except KeyError:
            return None          # a recorded constraint mentions a label outside the model's variables
        pred = {"t": "table", "xs": tab}
    return pred

def make_valid(pred, L):
    t = pred["t"]
    if t == "always":
        return lambda x: True
    if t == "never":
        return lambda x: False
    ones = lambda x: sum(1 for v in x.values() if v == 1)
    if t == "parity":
        return lambda x: ones(x) % 2 == pred["r"]
    if t == "thr":
        return (lambda x: ones(x) <= pred["k"]) if pred["cmp"] == "le" else (lambda x: ones(x) >= pred["k"])
    if t == "excl":
        e = {lab_of(L, i): int(v) for i, v in pred["x"]}
        return lambda x: x != e
    if t == "only":
        e = {lab_of(L, i): int(v) for i, v in pred["x"]}
        return lambda x: x == e
    if t == "subpar":
        labs = [lab_of(L, i) for i in pred["ids"]]
        return lambda x: sum(1 for l in labs if x.get(l) == 1) % 2 == pred["r"]
    if t == "pair":
        la, lb = lab_of(L, pred["a"]), lab_of(L, pred["b"])
        return lambda x: (x.get(la) == x.get(lb)) == pred["eq"]
    if t == "table":
        tab = [{lab_of(L, i): int(v) for i, v in e} for e in pred["xs"]]
        return lambda x: any(x == e for e in tab)
    if t == "force":
        want = {lab_of(L, i): int(v) for i, v in pred["x"]}
        return lambda x: all(x.get(l) == v for l, v in want.items())
    raise ValueError(t)

# --- predicates that close over the argument model (family `closure`)

CLO_CMP = {"ge": operator.ge, "le": operator.le, "gt": operator.gt, "lt": operator.lt}

def clo_quantity(how, terms, x):
    """what the closure computes, on a plain copy of the terms, by the harness' own evaluation"""
    if how == "offset":
        return sum(1 for v in x.values() if v == 1) + Fraction(terms.get((), 0))
    return poly_value(terms, x)

def make_closure(clo, obj, fn):
    """the real callback: it holds a reference to the very object handed to the solver and reads it on every call"""
    from qubovert import utils
    k, ok = Fraction(clo["k"]), CLO_CMP[clo["cmp"]]
    if clo["how"] == "fn":
        vf = getattr(utils, fn + "_value")
        return lambda x: ok(vf(x, obj), k)
    if clo["how"] == "method":
        return lambda x: ok(obj.value(x), k)
    return lambda x: ok(sum(1 for v in x.values() if v == 1) + obj.get((), 0), k)

# ------------------------------------------------------------------ snapshots (order-insensitive on the terms)

def snap(o):
    """type, terms as a *dict* (order-insensitive: `D.pop(()); D[()] = offset` may move the offset), and all
    bookkeeping attributes"""
    if isinstance(o, dict):
        extra = []
        for a in ("_mapping", "_reverse_mapping", "_constraints", "_ancilla", "_degree", "_variables",
                  "_num_binary_variables", "_next_label", "_name"):
            if hasattr(o, a):
                extra.append((a, common.snapshot(getattr(o, a))))
        items = sorted(((repr(k), type(v).__name__, repr(v)) for k, v in o.items()))
        return (type(o).__name__, tuple(items), tuple(extra))
    return common.snapshot(o)

# ------------------------------------------------------------------ running the real code

def canon_assign(x, L):
    return sorted([L.ident(l), fs(v)] for l, v in x.items())

def run_impl(case, obj, pred, L):
    """returns (canonical result, raw result, log)"""
    log = []
    valid = make_closure(pred["clo"], obj, case["fn"]) if pred.get("clo") else make_valid(pred, L)
    vret = case.get("vret")
    def wrapped(x):
        if not isinstance(x, dict):
            log.append("valid was called with a %s" % type(x).__name__)
        r = valid(x)
        if vret == "npbool":
            import numpy as np
            return np.bool_(r)
        if vret == "int":
            return int(r)
        if vret == "obj":
            return [0] if r else []          # any truthy / falsy object
        return r
    before = snap(obj)
    try:
        if case["via"] == "method":
            raw = obj.solve_bruteforce(case["all"]) if case.get("posarg", True) else obj.solve_bruteforce(all_solutions=case["all"])
            res = (None, raw)
        else:
            if case.get("kw"):
                raw = free_fn(case["fn"])(obj, valid=wrapped, all_solutions=case["all"])
            else:
                raw = free_fn(case["fn"])(obj, case["all"], wrapped)
            res = raw
            if not (isinstance(raw, tuple) and len(raw) == 2):
                log.append("result is not a pair")
                return {"bad": repr(raw)}, raw, log
    except Exception as e:
        if snap(obj) != before:
            log.append("model changed by a call that raised %s" % exc_name(e))
        return {"err": exc_name(e)}, ("raised", repr(e)), log
    if snap(obj) != before:
        log.append("model changed by the call")
    obj_v, sol = res
    out = {}
    if case["via"] != "method":
        out["obj"] = None if obj_v is None else fs(obj_v)
    if case["all"]:
        if not isinstance(sol, list) or not all(isinstance(s, dict) for s in sol):
            log.append("all_solutions result is not a list of dicts")
            return {"bad": repr(sol)}, raw, log
        out["sol"] = {"many": sorted(canon_assign(s, L) for s in sol)}
    else:
        if not isinstance(sol, dict):
            log.append("solution is not a dict")
            return {"bad": repr(sol)}, raw, log
        out["sol"] = {"one": canon_assign(sol, L)}
    out["after"] = canon_terms(obj, L)
    return out, res, log

def model_line(case, obj, pred, L):
    terms = [[[L.ident(l) for l in k], fs(v)] for k, v in obj.items()]
    book = None
    if hasattr(obj, "_reverse_mapping"):
        book = {"n": obj.num_binary_variables,
                "rm": [[int(i), L.ident(l)] for i, l in obj._reverse_mapping.items()]}
    if case["via"] == "method":
        # the model decides itself which free function the type's method calls and what `is_solution_valid` is
        # (Brute.methodPlain / Brute.methodCons — the functions the entry-point theorems are about); it is handed the
        # attributes the code reads, incl. the recorded constraints of a PCBO / PCSO
        line = {"op": "brute_method", "kind": case["kind"], "terms": terms, "book": book, "all": case["all"]}
        if getattr(obj, "constraints", None):
            line["cons_rec"] = [[rel, [[[L.ident(l) for l in k], fs(v)] for k, v in P.items()]]
                                for rel, Ps in obj.constraints.items() for P in Ps]
        return line
    return {"op": "brute", "fn": case["fn"], "kind": case["kind"], "terms": terms, "book": book,
            "all": case["all"], "valid": pred}

def canon_model(m, case):
    """the model's answer in the harness' canonical form + its argmin list"""
    res, alt = m["res"], m["alt"]
    if "err" in res:
        return {"err": res["err"]}, None
    def cs(sol):
        if "one" in sol:
            return {"one": sorted(sol["one"])}
        return {"many": sorted(sorted(a) for a in sol["many"])}
    after = [[sorted(k), v] for k, v in res["after"]]
    if case.get("labels") == "xeq":
        # several stored spellings of one monomial: compare the represented polynomial, as `canon_terms` does
        acc = {}
        for k, v in after:
            acc[tuple(k)] = acc.get(tuple(k), Fraction(0)) + Fraction(v)
        after = [[list(k), fs(v)] for k, v in acc.items() if v != 0]
    out = {"sol": cs(res["sol"]), "after": sorted(after, key=lambda t: (t[0], t[1]))}
    if case["via"] != "method":
        out["obj"] = res["obj"]
    many = res["sol"]["many"] if case["all"] else alt["sol"]["many"]
    return out, sorted(sorted(a) for a in many)

def compare(case, impl, model, argmin):
    """refinement comparison; returns a description of the first difference or None"""
    if "err" in impl or "err" in model or "bad" in impl:
        return None if impl == model else "error behaviour differs"
    if case["via"] != "method" and impl["obj"] != model["obj"]:
        return "objective differs"
    if impl["after"] != model["after"]:
        return "terms after the call differ"
    if case["all"]:
        if impl["sol"] != model["sol"]:
            return "all_solutions list differs (as a sorted list)"
    else:
        if impl["sol"]["one"] not in argmin:
            return "single solution is not in the model's argmin set"
    return None

# ------------------------------------------------------------------ direct oracle (independent of the Lean model)

def poly_value(d, x):
    tot = Fraction(0)
    for k, v in d.items():
        m = Fraction(v)
        for l in k:
            m *= x[l]
        tot += m
    return tot

def num_eq(a, b):
    """equality of two numbers: exact rationals, or floats when one of them is infinite"""
    try:
        return Fraction(a) == Fraction(b)
    except (OverflowError, ValueError):
        return a == b

def oracle(case, d0, pred, L, res, log, V, valid=None, pv=None):
    """the property statement evaluated on the real result.  d0: copy of the terms taken before the call;
    V: the model's variables (`model_vars` of the object before the call).  valid / pv: the predicate and the
    evaluation when they are not the defaults (`make_valid(pred)`, exact rational `poly_value`) — family `inf`."""
    poly_value = pv or globals()["poly_value"]
    if log:
        return "; ".join(log)
    if res is None:
        return "malformed result"
    if res[0] == "raised":
        return "unexpected exception " + res[1]
    obj_v, sol = res
    free = case["via"] != "method"
    spin = case["fn"] in SPIN_FN
    dom = (1, -1) if spin else (0, 1)
    valid = valid or make_valid(pred, L)
    labs = list(V)
    if not key_labels(d0):
        # constant model (clause 4 of the property; `valid` is not consulted by that clause)
        const = d0.get((), 0)
        if free and obj_v is None and not labs and not valid({}):
            pass        # the overlap of clauses 3 and 4: `None` is what clause 3 demands (the code follows clause 4)
        elif free and (obj_v is None or not num_eq(obj_v, const)):
            return "constant model: objective %r, constant %s" % (obj_v, const)
        if sol != ([{}] if case["all"] else {}):
            return "constant model: solution %r is not the empty assignment" % (sol,)
        return None
    table = []
    for vals in itertools.product(dom, repeat=len(labs)):
        x = dict(zip(labs, vals))
        if valid(x):
            table.append((poly_value(d0, x), x))
    if not table:
        if free and obj_v is not None:
            return "no assignment is valid but the objective is %r" % (obj_v,)
        return None
    m = min(v for v, _ in table)
    if free and (obj_v is None or not num_eq(obj_v, m)):
        return "objective %r, true constrained minimum %s (over the %d assignment(s) accepted by valid)" % (obj_v, m, len(table))
    minimisers = [x for v, x in table if v == m]
    if case["all"]:
        for i, s in enumerate(sol):
            if s in sol[:i]:
                return "all_solutions lists %r twice" % (s,)
            if s not in minimisers:
                return "all_solutions contains %r, which is not a valid minimiser (min %s)" % (s, m)
        for x in minimisers:
            if x not in sol:
                return "all_solutions misses the valid minimiser %r (min %s)" % (x, m)
    else:
        if set(sol) != set(labs):
            return "solution %r is not over exactly the variables %r" % (sol, labs)
        if any(v not in dom for v in sol.values()):
            return "solution %r has a value outside %r" % (sol, dom)
        if not valid(sol):
            return "solution %r is rejected by valid" % (sol,)
        if poly_value(d0, sol) != m:
            return "solution %r has value %s, minimum is %s" % (sol, poly_value(d0, sol), m)
    return None

# ------------------------------------------------------------------ Problem wrappers (oracle only)

# the inputs of DESIGN.md §10 D7: the QUBO matrix is constant or lacks a label of the problem
D7_INPUTS = [("GraphPartitioning", [[[0, 1]]]), ("GraphPartitioning", [[[0, 1], [2, 3]]]),
             ("NumberPartitioning", [[3]]), ("NumberPartitioning", [[2, 2]]),
             ("BILP", [[0, 1], [[0, 1]], [1]]), ("BILP", [[1, 0, 0], [[0, 1, 0]], [1]]),
             ("VertexCover", [[[0, 1]]])]

def problem_cases(rng, count):
    out = [{"family": "problem", "cls": t, "fixed": args, "seed": 0, "all": al}
           for t, args in D7_INPUTS for al in (False, True)]
    for _ in range(count):
        t = rng.choice(["SetCover", "VertexCover", "NumberPartitioning", "GraphPartitioning", "BILP",
                        "AlternatingSectorsChain", "JobSequencing"])
        out.append({"family": "problem", "cls": t, "seed": rng.randrange(1 << 30), "all": rng.random() < 0.5})
    return out

def build_problem(case):
    import random
    from qubovert import problems as P
    r = random.Random(case["seed"])
    t = case["cls"]
    if case.get("fixed") is not None:
        a = case["fixed"]
        if t in ("GraphPartitioning", "VertexCover"):
            return getattr(P, t)({tuple(e) for e in a[0]})
        return getattr(P, t)(*a)
    if t == "SetCover":
        U = set(range(r.randint(2, 4)))
        V = [set(r.sample(sorted(U), r.randint(1, len(U)))) for _ in range(r.randint(2, 3))]
        V.append(U - set().union(*V) or {0})
        return P.SetCover(U, V)
    if t == "VertexCover":
        n = r.randint(2, 5)
        e = {tuple(sorted(r.sample(range(n), 2))) for _ in range(r.randint(1, 5))}
        return P.VertexCover(e)
    if t == "NumberPartitioning":
        return P.NumberPartitioning([r.randint(1, 6) for _ in range(r.randint(2, 6))])
    if t == "GraphPartitioning":
        n = r.choice([2, 4, 4, 6])
        e = {tuple(sorted(r.sample(range(n), 2))) for _ in range(r.randint(1, 6))}
        return P.GraphPartitioning(e)
    if t == "BILP":
        m, n = r.randint(1, 2), r.randint(2, 4)
        S = [[r.randint(-1, 2) for _ in range(n)] for _ in range(m)]
        x = [r.randint(0, 1) for _ in range(n)]
        b = [sum(S[i][j] * x[j] for j in range(n)) for i in range(m)]
        return P.BILP([r.randint(-2, 2) for _ in range(n)], S, b)
    if t == "AlternatingSectorsChain":
        return P.AlternatingSectorsChain(r.randint(2, 6), min_strength=r.randint(1, 2),
                                         max_strength=r.randint(2, 4), chain_length=r.randint(1, 3))
    return P.JobSequencing([r.randint(1, 3) for _ in range(r.randint(1, 3))], r.randint(1, 2))

def hashable(o):
    if isinstance(o, dict):
        return ("d", tuple(sorted((repr(k), hashable(v)) for k, v in o.items())))
    if isinstance(o, (set, frozenset)):
        return ("s", tuple(sorted(repr(hashable(x)) for x in o)))
    if isinstance(o, (list, tuple)):
        return ("l", tuple(hashable(x) for x in o))
    return repr(o)

def conv_canon(cls):
    """canonical form of a converted solution.  `NumberPartitioning.convert_solution` lists the numbers of each part
    in the iteration order of the solution dict — which order the solver happened to insert the labels in is not
    part of the result (a partition), so each part is compared as a multiset; everything else as it is."""
    if cls == "NumberPartitioning":
        return lambda o: hashable(tuple(sorted(part, key=repr) if isinstance(part, (list, tuple)) else part for part in o)
                                  if isinstance(o, tuple) else o)
    return hashable

DEFERRED = []      # (driver line, callback) pairs of the problem family, run after the main batch

def run_problem(ctx, case):
    """`Problem.solve_bruteforce` (the classes that inherit it).  Oracle from the property text: the wrapper returns
    the converted form of an assignment of ALL `num_binary_variables` labels of the problem that minimises
    `to_qubo()`; with all_solutions the converted form of every such minimiser exactly once.  The enumeration
    here runs over `range(num_binary_variables)` independently of the matrix's own variable set."""
    try:
        prob = build_problem(case)
    except Exception:
        ctx.count("problem:unbuildable"); return
    if type(prob).solve_bruteforce.__qualname__ != "Problem.solve_bruteforce":
        ctx.count("problem:own-solver:" + case["cls"])
        return
    try:
        Q = prob.to_qubo()
        N = prob.num_binary_variables
    except Exception:
        ctx.count("problem:to_qubo-raises:" + case["cls"]); return
    if N > 12:
        ctx.count("problem:too-big"); return
    labs = list(range(N))
    absent = sorted(set(labs) - set(key_labels(Q)))
    sig = D7_SIG if absent else "C09:problem-wrapper"
    ctx.case(case, N >= 2)
    ctx.count("problem:%s:%s" % (case["cls"], "label-absent-from-matrix" if absent else "all-labels-in-matrix"))
    before = (snap(Q), N)
    try:
        got = prob.solve_bruteforce(all_solutions=case["all"])
    except Exception as e:
        ctx.violation(sig, case, "%s%s.solve_bruteforce(all_solutions=%s) raises %r (num_binary_variables=%d, labels "
                      "absent from to_qubo(): %s)" % (case["cls"], case.get("fixed", ""), case["all"], e, N, absent))
        return
    if any(l not in labs for l in key_labels(Q)):
        ctx.count("problem:matrix-label-outside-range"); return
    table = []
    for vals in itertools.product((0, 1), repeat=N):
        x = dict(zip(labs, vals))
        table.append((poly_value(Q, x), x))
    m = min(v for v, _ in table)
    try:
        hashable_ = conv_canon(case["cls"])
        want = [hashable_(prob.convert_solution(x)) for v, x in table if v == m]
    except Exception:
        ctx.count("problem:convert-raises:" + case["cls"]); return
    if case["all"]:
        if not isinstance(got, list):
            ctx.violation(sig, case, "%s.solve_bruteforce(all_solutions=True) returns %r, not a list" % (case["cls"], got))
        elif sorted(map(repr, map(hashable_, got))) != sorted(map(repr, want)):
            ctx.violation(sig, case, "%s%s.solve_bruteforce(all_solutions=True) returns %r; the converted minimisers of "
                          "to_qubo() over all %d labels are %r (each exactly once)"
                          % (case["cls"], case.get("fixed", ""), got, N, want))
    elif hashable_(got) not in want:
        ctx.violation(sig, case, "%s%s.solve_bruteforce() returns %r, which is not the converted form of a minimiser of "
                      "to_qubo() over all %d labels (those are %r)" % (case["cls"], case.get("fixed", ""), got, N, want))
    # correspondence with the Lean wrapper model (`Qv.Brute.problemSolve`, theorem `problem_wrapper`): the padded
    # dict and the assignments, pushed through the problem's own convert_solution
    if not all(isinstance(k, tuple) and all(isinstance(l, int) for l in k) for k in Q):
        return
    line = {"op": "problem", "terms": [[list(k), fs(v)] for k, v in Q.items()], "n": N, "all": case["all"]}
    def finish(m, prob=prob, got=got, case=case, hashable_=hashable_, Q=dict(Q), N=N):
        ctx.traces += 1
        ctx.count("problem:model-compared")
        if "err" in m["res"] or "err" in m["many"]:
            ctx.diff("problem", case, repr(got), m["res"]); return
        Qp = dict(Q)
        for i in range(N):
            Qp.setdefault((i,), 0)
        if sorted(([sorted(k), fs(v)] for k, v in Qp.items()), key=lambda t: (t[0], t[1])) != \
                sorted(([sorted(k), v] for k, v in m["pad"]), key=lambda t: (t[0], t[1])):
            ctx.diff("problem", case, "padded dict", m["pad"]); return
        conv = lambda a: hashable_(prob.convert_solution({i: int(Fraction(v)) for i, v in a}))
        try:
            many = sorted(repr(conv(a)) for a in m["many"]["many"])
        except Exception:
            ctx.count("problem:convert-raises-on-model"); return
        if case["all"]:
            if sorted(map(repr, map(hashable_, got))) != many:
                ctx.diff("problem", case, repr(got), many)
        elif repr(hashable_(got)) not in many:
            ctx.diff("problem", case, repr(got), many)
    DEFERRED.append((line, finish))

# ------------------------------------------------------------------ exhaustive constant family

MENU = [{"t": "always"}, {"t": "never"}, {"t": "parity", "r": 0}, {"t": "parity", "r": 1},
        {"t": "thr", "cmp": "le", "k": 0}, {"t": "thr", "cmp": "ge", "k": 1}, {"t": "excl", "x": []}]

def const_cases():
    out = []
    for kind in ALL_KINDS:
        fns = ["pubo", "qubo", "puso", "quso"] if kind == "dict" else [f for f in KINDS_OF_FN if kind in KINDS_OF_FN[f]]
        for fn in fns:
            for terms in ([], [[[], "5"]], [[[], "-3/2"]], [[[], "0"]]):
                if terms and terms[0][1] == "0" and kind != "dict":
                    continue
                for al in (False, True):
                    for pred in MENU:
                        out.append({"family": "const", "fn": fn, "kind": kind, "n": 0, "terms": terms, "labels": "int",
                                    "num": "frac", "all": al, "via": "free", "valid": pred, "seed": 0})
                    if kind != "dict" and FN_OF_KIND[kind] == fn:
                        out.append({"family": "const", "fn": fn, "kind": kind, "n": 0, "terms": terms, "labels": "int",
                                    "num": "frac", "all": al, "via": "method", "valid": {"t": "always"}, "seed": 0})
                        if kind in ("PCBO", "PCSO"):
                            # constant model whose recorded constraint `1 == 0` / `-1 > 0` rejects the empty
                            # assignment: is_solution_valid({}) is False, the method still returns {} / [{}]
                            for con in ({"rel": "eq", "p": [[[], "1"]]}, {"rel": "gt", "p": [[[], "-1"]]}):
                                out.append({"family": "const", "fn": fn, "kind": kind, "n": 0, "terms": terms,
                                            "labels": "int", "num": "int", "all": al, "via": "method",
                                            "valid": {"t": "always"}, "seed": 0, "cons": [con]})
    return out

def malformed_case(rng):
    fn = rng.choice(["qubo", "quso"])
    n = rng.randint(3, 5)
    terms = gen_terms(rng, n, "pubo", "dict", nterms=rng.randint(1, 4))
    terms.append([rng.sample(range(n), 3), gen_coef(rng, False)])
    return {"family": "malformed", "fn": fn, "kind": "dict", "n": n, "terms": terms, "labels": rng.choice(Labels.STYLES_X),
            "num": "int", "all": rng.random() < 0.5, "via": "free", "valid": gen_pred(rng, n, fn == "quso"),
            "seed": rng.randrange(1 << 30)}

def bhist_case(rng, via):
    """a labelled BO object whose bookkeeping went through the paths of D1 — a zero assignment, a label that is
    squashed away (spin types), two terms that cancel in the constructor — and, half of the time, an in-place
    cancelling edit afterwards; never refreshed"""
    kind = rng.choice(sorted(BO))
    fn = FN_OF_KIND[kind] if via == "method" else rng.choice([f for f in KINDS_OF_FN if kind in KINDS_OF_FN[f]])
    n = rng.randint(2, 4)
    terms = gen_terms(rng, n, fn, kind, nterms=rng.randint(1, 4))
    variant = rng.choice(["zero", "cancel", "squash" if fn in SPIN_FN else "zero"])
    i, j = rng.sample(range(n + 1), 2)           # label n is not used by the other terms
    if variant == "zero":
        extra = [[[i], "0"]]
    elif variant == "squash":
        extra = [[[i, i, j] if (kind not in DEG2 and fn != "quso") else [i, i], "2"]]
    else:
        extra = [[[i, j], "1"], [[j, i], "-1"]]
    for t in extra:
        terms.insert(rng.randrange(len(terms) + 1), t)
    c = {"family": "bhist", "variant": variant, "fn": fn, "kind": kind, "n": n + 1, "terms": terms,
         "labels": rng.choice(Labels.STYLES_X), "num": rng.choice(["int", "int", "frac"]), "all": rng.random() < 0.5,
         "via": via, "seed": rng.randrange(1 << 30),
         "valid": {"t": "always"} if via == "method" else gen_pred(rng, n + 1, fn in SPIN_FN)}
    if rng.random() < 0.5:
        c["hist"] = [{"op": rng.choice(HIST_OPS), "var": rng.randrange(n + 1)}]
    return c

# ------------------------------------------------------------------ round-3 families

def mixify(c, rng):
    """labels of mixed Python types (int / str / tuple in one model): the abstract ids are spread over 0..9 so that
    the three label types of style "mixed" all occur"""
    if c["kind"] in MATRIX or c["n"] > 10:
        return c
    idmap = sorted(rng.sample(range(10), c["n"]))
    f = lambda i: idmap[i] if i < len(idmap) else i
    c = dict(c, labels="mixed", terms=[[[f(i) for i in k], v] for k, v in c["terms"]])
    if c.get("cons"):
        c["cons"] = [dict(con, p=[[[f(i) for i in k], v] for k, v in con["p"]]) for con in c["cons"]]
    if c.get("hist"):
        c["hist"] = [dict(h, var=f(h["var"])) for h in c["hist"]]
    return c

def huge_case(rng):
    """n at the harness's limit (9 variables, 512 assignments)"""
    c = gen_case(rng, "free")
    fn, kind = c["fn"], c["kind"]
    c["n"] = 9
    terms = gen_terms(rng, 9, fn, kind, nterms=rng.randint(6, 12))
    seen = {i for k, _ in terms for i in k}
    terms += [[[i], gen_coef(rng, False)] for i in range(9) if i not in seen]
    c["terms"] = terms
    if c["num"] == "float" and not all(dyadic(v) for _, v in terms):
        c["num"] = "frac"
    c["valid"] = gen_pred(rng, 9, fn in SPIN_FN)
    return c

def tie_case(rng, family):
    """many minimisers and many repeated objective values: every coefficient is the same number; plain dicts also
    carry labels that occur with a zero coefficient only (free variables: every minimiser comes 2^k times)"""
    c = gen_case(rng, family)
    coef = rng.choice(["1", "-1", "2", "-1/2"])
    n = c["n"] = min(c["n"], 5)
    deg2 = c["fn"] in ("qubo", "quso") or c["kind"] in DEG2
    terms = []
    for _ in range(rng.randint(1, 5)):
        ln = min(n, rng.choice([1, 2, 2] if deg2 else [1, 2, 2, 3]))
        k = sorted(rng.sample(range(n), ln))
        if k not in [t[0] for t in terms]:
            terms.append([k, coef])
    if c["kind"] == "dict":
        terms += [[[i], "0"] for i in range(n) if rng.random() < 0.4]
    if rng.random() < 0.3:
        terms.append([[], coef])
    c.update(terms=terms, num="frac" if "/" in coef else c["num"], all=rng.random() < 0.8)
    c.pop("cons", None)
    if c["num"] == "float" and not dyadic(coef):
        c["num"] = "frac"
    c["family"] = "plateau"
    return c

def vtype_case(rng):
    """coefficient types beyond int / float / Fraction (bool, numpy.int64 / numpy.float64, ints above 2**53), `valid`
    callbacks that return numpy.bool_ / int / an arbitrary truthy-falsy object, keyword arguments, and the label
    styles of `Labels.STYLES_XEQ` (incl. labels that are equal across types)"""
    fam = rng.choice(["free", "free", "method"])
    c = gen_case(rng, fam)
    style = rng.choice(["bool", "np", "big", "big"])
    if c["kind"] == "PCSO" and c.get("cons"):
        style = "bool"                    # spin constraints halve coefficients in float arithmetic
    if style == "np":
        c["terms"] = [[k, v if dyadic(v) else "1/2"] for k, v in c["terms"]]
    if style == "bool":
        c["terms"] = [[k, v if rng.random() < 0.5 else rng.choice(["1", "1", "0"])] for k, v in c["terms"]]
        if c["kind"] != "dict":
            c["terms"] = [[k, v] for k, v in c["terms"]]
    c["num"] = style
    c["vret"] = rng.choice([None, "npbool", "int", "obj"])
    c["kw"] = rng.random() < 0.5
    c["posarg"] = rng.random() < 0.5
    if c["kind"] not in MATRIX:
        c["labels"] = rng.choice(Labels.STYLES_XEQ)
    c["family"] = "vtypes"
    return c

# --- `valid` raises on some assignments: does the exception reach the caller unchanged, is the model unchanged?

class ValidBoom(Exception):
    """raised by the harness' own `valid` callback"""

def raise_case(rng):
    via = rng.choice(["free", "free", "method"])
    c = gen_case(rng, via)
    c["family"] = "raise"
    c["n"] = min(c["n"], 5)
    c["terms"] = [[[i for i in k if i < c["n"]], v] for k, v in c["terms"]]
    t = rng.choice(["only", "only", "subpar", "pair", "never", "thr"])
    c["raise"] = ({"t": t, "x": None} if t in ("only", "subpar", "pair") else
                  {"t": "never"} if t == "never" else {"t": "thr", "cmp": "ge", "k": rng.randint(1, c["n"] + 1)})
    return c

def run_raise(ctx, c):
    L = Labels(c["labels"])
    obj, tag = build(c)
    if tag is None:
        return
    V = model_vars(obj)
    if len(V) > 9:
        return
    pred = fill_pred(c, obj, L)
    if pred is None:
        ctx.count("raise:pc-absent-variable"); return
    rpred = fill_pred(dict(c, valid=c["raise"], seed=c["seed"] ^ 0x5A5A, via="free"), obj, L)
    valid, boom = make_valid(pred, L), make_valid(rpred, L)
    spin = c["fn"] in SPIN_FN
    dom = (1, -1) if spin else (0, 1)
    R = [x for x in (dict(zip(V, vals)) for vals in itertools.product(dom, repeat=len(V))) if boom(x)]
    method = c["via"] == "method"
    real = obj.is_solution_valid if method else valid
    raised, calls = [], []
    def wrapped(x):
        calls.append(dict(x))
        if boom(x):
            e = ValidBoom(dict(x)); raised.append(e); raise e
        return real(x)
    d0 = copy.deepcopy(dict(obj))
    before = snap(obj)
    got, res = None, None
    try:
        if method:
            obj.is_solution_valid = wrapped          # the instance attribute shadows the method
            try:
                res = (None, obj.solve_bruteforce(c["all"]))
            finally:
                del obj.is_solution_valid
        else:
            res = free_fn(c["fn"])(obj, c["all"], wrapped)
    except BaseException as e:                       # noqa — the point is to see exactly what comes out
        got = e
    changed = snap(obj) != before
    rec = dict(c, valid=pred if pred["t"] != "table" else ({"t": "nonmin"} if pred.get("src") else {"t": "always"}))
    const = not key_labels(d0)
    ctx.traces += 1
    ctx.case(rec, len(V) >= 2 and bool(R))
    ctx.count("raise:%s:%s" % ("method" if method else c["fn"],
                               "constant-model" if const else "raises" if R else "no-raising-assignment"))
    why = None
    if const or not R:
        # clause 4 (the constant is returned, `valid` plays no role) resp. an ordinary call
        if got is not None:
            why = "%r came out of a call on which valid raises for no assignment over the model's variables" % (got,)
        else:
            why = oracle(c, d0, pred, L, res, ["model changed by the call"] if changed else [], V)
    else:
        if got is None:
            why = ("valid raised ValidBoom on %d of the %d assignment(s) it was called with, but the call returned %r"
                   % (len(raised), len(calls), res))
        elif not raised or got is not raised[-1]:
            why = ("valid raised %r; the exception that reached the caller is a different object: %r"
                   % (raised[-1:] or None, got))
        elif len(raised) != 1:
            why = "valid raised %d times during one call (an exception was swallowed and the loop went on)" % len(raised)
        elif got.args[0] not in R or set(got.args[0]) != set(V):
            why = "valid was called with %r, which is not an assignment over exactly the model's variables %r" % (got.args[0], V)
        elif changed:
            why = "the model was left changed by a call that propagated the exception of valid"
    if why:
        ctx.violation("C09:raise", rec, why)


# --- round 6: closures over the argument model, zero-coefficient-only labels, infinite values

def closure_case(rng):
    """a free-function call whose `valid` reads the model being solved (see the module docstring)"""
    c = gen_case(rng, "free")
    terms = [t for t in c["terms"] if t[0]] or [[[0], "1"]]
    if rng.random() < 0.85:
        terms.insert(rng.randrange(len(terms) + 1), [[], rng.choice(["-3", "-2", "-1", "1", "2", "3", "5", "1/2", "-3/2", "-1/4"])])
    c["terms"] = terms
    if c["num"] == "float" and not all(dyadic(v) for _, v in terms):
        c["num"] = "frac"
    how = rng.choice(["fn", "fn", "fn", "method", "offset"])
    if how == "method" and c["kind"] == "dict":
        how = "fn"
    c["valid"] = {"t": "closure", "how": how, "cmp": rng.choice(["ge", "le", "gt", "lt"]), "q": rng.randrange(1 << 16)}
    c["family"] = "closure"
    return c

def zerolab_case(rng):
    """plain dict; labels n .. n+k-1 occur only in terms whose stored coefficient is zero; the predicate depends on them"""
    fn = rng.choice(["pubo", "qubo", "puso", "quso"])
    spin = fn in SPIN_FN
    n, k = rng.randint(1, 4), rng.choice([1, 1, 2])
    terms = gen_terms(rng, n, fn, "dict", nterms=rng.randint(1, 5))
    zl = list(range(n, n + k))
    for z in zl:
        r = rng.random()
        extra = [[[z], "0"]] if r < 0.55 else [[rng.sample([rng.randrange(n), z], 2), "0"]] if r < 0.8 else \
            [[[z], "0"], [[rng.randrange(n), z], "0"]]
        for t in extra:
            terms.insert(rng.randrange(len(terms) + 1), t)
    num = rng.choice(["int", "frac", "float"])
    if num == "float" and not all(dyadic(v) for _, v in terms):
        num = "frac"
    on = -1 if spin else 1                       # the value a pruned label would NOT get
    t = rng.choice(["force", "force", "force", "subpar", "pair", "thr", "only", "parity"])
    if t == "force":
        pred = {"t": "force", "x": [[z, str(on)] for z in zl if rng.random() < 0.7] or [[zl[0], str(on)]]}
    elif t == "subpar":
        pred = {"t": "subpar", "ids": sorted(set(zl[:rng.randint(1, k)] + [i for i in range(n) if rng.random() < 0.3])),
                "r": 0 if spin else 1}
    elif t == "pair":
        pred = {"t": "pair", "a": rng.choice(zl), "b": rng.randrange(n), "eq": rng.random() < 0.5}
    elif t == "thr":
        pred = {"t": "thr", "cmp": "le", "k": rng.randint(0, n)} if spin else {"t": "thr", "cmp": "ge", "k": rng.randint(n, n + k)}
    elif t == "only":
        pred = {"t": "only", "x": None}
    else:
        pred = {"t": "parity", "r": rng.randrange(2)}
    return {"family": "zerolab", "fn": fn, "kind": "dict", "n": n + k, "terms": terms, "labels": rng.choice(Labels.STYLES_X),
            "num": num, "all": rng.random() < 0.6, "via": "free", "valid": pred, "seed": rng.randrange(1 << 30)}

INF_MODES = ["inf", "inf", "inf", "overflow", "overflow", "overflow", "infoffset", "neginf", "partial"]

def inf_case(rng):
    """float('inf') / overflowing coefficients; `forced` labels are held at 1 by the predicate (free functions) or by
    recorded constraints (PCBO / PCSO methods), so every valid assignment has the value +inf"""
    via = rng.choice(["free", "free", "free", "method"])
    if via == "method":
        kind = rng.choice(["PCBO", "PCSO"]); fn = FN_OF_KIND[kind]
    else:
        fn = rng.choice(["pubo", "qubo", "puso", "quso"]); kind = rng.choice(KINDS_OF_FN[fn])
    n = rng.randint(2, 4)
    terms = [[k, rng.choice(["-2", "-1", "1", "1", "2", "1/2", "-3/2", "3"])]
             for k, _ in gen_terms(rng, n, fn, kind, nterms=rng.randint(1, 4)) if k]
    if rng.random() < 0.3:
        terms.append([[], rng.choice(["-2", "1", "5/2"])])
    mode = rng.choice(INF_MODES)
    if via == "method" and mode in ("infoffset", "neginf"):
        mode = "inf"
    forced = []
    if mode in ("inf", "partial"):
        a = rng.randrange(n)
        terms.insert(rng.randrange(len(terms) + 1), [[a], "inf"]); forced = [a]
        if mode == "partial":
            forced = []
    elif mode == "overflow":
        a, b = rng.sample(range(n), 2)
        terms += [[[a], "1e308"], [[b], "1e308"]]
        if rng.random() < 0.3:
            terms.append([[a, b], "1e308"])
        forced = [a, b]
    elif mode == "infoffset":
        terms = [t for t in terms if t[0]] + [[[], "inf"]]
        forced = [i for i in range(n) if rng.random() < 0.3]
    else:
        terms.insert(rng.randrange(len(terms) + 1), [[rng.randrange(n)], "-inf"])
    if not any(k for k, _ in terms):
        terms.append([[0], "1"])
    return {"family": "inf", "mode": mode, "fn": fn, "kind": kind, "n": n, "terms": terms, "forced": forced,
            "labels": "int" if kind in MATRIX else rng.choice(Labels.STYLES_X), "all": rng.random() < 0.5, "via": via,
            "extra": rng.choice([None, None, "parity0", "parity1"]) if via == "free" else None,
            "seed": rng.randrange(1 << 30)}

def fvalue(items, x, spin, rev=False):
    """the value of the stored terms at x in float arithmetic (boolean: a term counts iff all its variables are 1 — no
    0 * inf; spin: coefficient times the product of the spins), summed in the stored order or backwards"""
    tot = 0
    for k, v in (reversed(list(items)) if rev else items):
        if spin:
            sgn = 1
            for l in k:
                sgn *= x[l]
            tot = tot + v * sgn
        elif all(x[l] == 1 for l in k):
            tot = tot + v
    return tot

def run_inf(ctx, c):
    L = Labels(c["labels"])
    spin = c["fn"] in SPIN_FN
    dom = (1, -1) if spin else (0, 1)
    fl_of = lambda v: float(v) if v.lstrip("-") in ("inf", "1e308") else float(Fraction(v))
    items = [(tuple(lab_of(L, i) for i in key), fl_of(v)) for key, v in c["terms"]]
    method = c["via"] == "method"
    try:
        if c["kind"] == "dict":
            obj = dict(items)
        else:
            obj = cls_of(c["kind"])(items)
        if method:
            fl = [(lab_of(L, i),) for i in c["forced"]]
            if len(fl) == 2 and c["seed"] % 2:
                obj.add_constraint_eq_zero({fl[0]: 1, fl[1]: 1, (): -2})
            else:
                for k in fl:
                    obj.add_constraint_eq_zero({k: 1, (): -1})
    except Exception as e:
        ctx.count("inf:unbuildable:" + exc_name(e)); return
    V = model_vars(obj)
    d0 = copy.deepcopy(dict(obj))
    forced = [lab_of(L, i) for i in c["forced"]]
    extra = c.get("extra")
    def valid0(x):
        if any(x.get(l) != 1 for l in forced):
            return False
        if extra:
            return sum(1 for v in x.values() if v == 1) % 2 == int(extra[-1])
        return True
    # the values, forwards and backwards: a case whose float sum depends on the order (or is nan) decides nothing
    asg = [dict(zip(V, vals)) for vals in itertools.product(dom, repeat=len(V))]
    vals = [(fvalue(d0.items(), x, spin), fvalue(d0.items(), x, spin, rev=True)) for x in asg if valid0(x)]
    if any(a != b or a != a for a, b in vals):
        ctx.count("inf:skipped:order-dependent-or-nan"); return
    log = []
    def wrapped(x):
        if not isinstance(x, dict):
            log.append("valid was called with a %s" % type(x).__name__)
        return valid0(x)
    before = snap(obj)
    try:
        if method:
            res = (None, obj.solve_bruteforce(c["all"]))
        else:
            res = free_fn(c["fn"])(obj, c["all"], wrapped)
            if not (isinstance(res, tuple) and len(res) == 2):
                log.append("result is not a pair"); res = None
    except Exception as e:
        res = ("raised", repr(e))
    if snap(obj) != before:
        log.append("model changed by the call")
    if res is not None and res[0] != "raised":
        sol = res[1]
        if c["all"] and not (isinstance(sol, list) and all(isinstance(s_, dict) for s_ in sol)):
            log.append("all_solutions result is not a list of dicts: %r" % (sol,))
        if not c["all"] and not isinstance(sol, dict):
            log.append("solution is not a dict: %r" % (sol,))
    allinf = bool(vals) and all(a == math.inf for a, _ in vals)
    ctx.traces += 1
    ctx.case(c, len(V) >= 2 and bool(vals))
    ctx.count("inf:%s:%s:%s" % (c["mode"], "method" if method else c["fn"], "all" if c["all"] else "one"))
    ctx.count("inf:min:" + ("no-valid" if not vals else "+inf" if allinf else "-inf" if min(a for a, _ in vals) == -math.inf
                            else "finite"))
    bad = oracle(c, d0, {"t": "always"}, L, res, log, V, valid=valid0, pv=lambda d, x: fvalue(d.items(), x, spin))
    if bad:
        ctx.violation("C09:inf", c, "%s [model %r, valid = the labels %r are 1%s]" % (
            bad, d0, forced, " and the number of ones is %s" % ("odd" if extra == "parity1" else "even") if extra else ""))

# --- several calls on the same object, with edits in between (solve, mutate, solve, ...)

MUT_OPS = ["set", "add", "cancel", "offset", "newvar", "refresh", "cons", "popoffset",
           # round 4: maintenance calls and in-place rebuilds (`*=`, `**=` go through clear()), self-aliased operands
           "clear", "fill", "imuld", "imulc", "ipow", "idiv", "update", "del", "copy", "round",
           "selfsub", "selfadd", "selfmul", "selfupd"]

def gen_key(rng, ids, deg2):
    ln = min(len(ids), rng.choice([1, 2, 2] if deg2 else [1, 2, 2, 3]))
    return sorted(rng.sample(ids, ln))

def multi_case(rng):
    kind = rng.choice(ALL_KINDS)
    # constraints add penalty terms of degree 3 and more: a PCBO / PCSO is only handed to the general solvers
    deg2 = kind in DEG2 or (rng.random() < 0.5 and kind not in ("PCBO", "PCSO"))
    if kind == "dict":
        fns = ["pubo", "qubo", "puso", "quso"] if deg2 else ["pubo", "puso"]
        fns = [rng.choice(fns)]                      # one reading (boolean / spin) per dict
        if fns[0] in BOOL_FN:
            fns = [f for f in BOOL_FN if deg2 or f == "pubo"]
        else:
            fns = [f for f in SPIN_FN if deg2 or f == "puso"]
    else:
        fns = [f for f in KINDS_OF_FN if kind in KINDS_OF_FN[f] and (deg2 or f in ("pubo", "puso"))]
    n = rng.randint(2, 4)
    gfn = "qubo" if deg2 else "pubo"
    c = {"family": "multi", "kind": kind, "fn": fns[0], "n": n, "labels": "int" if kind in MATRIX else rng.choice(Labels.STYLES_X),
         "terms": gen_terms(rng, n, gfn, kind, nterms=rng.randint(1, 5)),
         "num": rng.choice(["int", "int", "frac"]), "all": False, "via": "free", "valid": {"t": "always"},
         "seed": rng.randrange(1 << 30)}
    if kind in ("PCBO", "PCSO") and rng.random() < 0.5:
        c["cons"] = gen_constraints(rng, n, kind)
    if kind == "PCSO":
        # spin constraints (now or in a later edit) bring float coefficients: keep everything dyadic (DESIGN.md §3.2)
        c["terms"] = [[k, v if dyadic(v) else "1"] for k, v in c["terms"]]
    steps, nxt = [], n
    def one_edit(op):
        nonlocal nxt
        ids = list(range(nxt))
        mut = None
        if op in ("set", "add"):
            mut = {"op": op, "key": gen_key(rng, ids, deg2), "v": gen_coef(rng, op == "set")}
        elif op == "cancel":
            mut = {"op": "cancel", "how": rng.choice(HIST_OPS), "var": rng.randrange(nxt)}
        elif op == "offset":
            mut = {"op": "offset", "v": gen_coef(rng, False)}
        elif op == "newvar":
            mut = {"op": "set", "key": sorted({nxt, rng.randrange(nxt)} if rng.random() < 0.5 else {nxt}),
                   "v": gen_coef(rng, False)}
            nxt += 1
        elif op == "cons" and kind in ("PCBO", "PCSO"):
            mut = {"op": "cons", "con": gen_constraints(rng, min(nxt, 4), kind)[0]}
        elif op == "popoffset":
            mut = {"op": "popoffset"}
        elif op in ("clear", "copy", "round", "selfsub", "selfadd", "selfmul", "selfupd", "ipow"):
            mut = {"op": op}
        elif op in ("fill", "update"):
            # several terms at once, over old labels in a new order and / or brand-new labels
            pool = rng.sample(ids, rng.randint(0, len(ids)))
            for _ in range(rng.choice([0, 1, 1, 2])):
                pool.append(nxt); nxt += 1
            rng.shuffle(pool)
            pool = pool or [0]
            mut = {"op": op, "terms": [[gen_key(rng, pool, deg2), gen_coef(rng, False)] for _ in range(rng.randint(1, 3))]}
        elif op == "imuld":
            # `H *= {...}`: one or two terms; spin z*z and boolean x*(1-x) make a label drop out
            t = rng.random()
            i = rng.randrange(nxt)
            if t < 0.35:
                q = [[[i], "1"]]
            elif t < 0.6:
                q = [[[], "1"], [[i], "-1"]]
            else:
                q = [[gen_key(rng, ids, True)[:1], gen_coef(rng, False)] for _ in range(rng.randint(1, 2))]
                if rng.random() < 0.5:
                    q.append([[], gen_coef(rng, False)])
            mut = {"op": "imuld", "q": q}
        elif op == "imulc":
            mut = {"op": "imulc", "v": rng.choice(["0", "0", "-1", "2", "1/2"])}
        elif op == "idiv":
            mut = {"op": "idiv", "v": rng.choice(["2", "-4", "1/2"])}
        elif op == "del":
            mut = {"op": "del", "k": rng.randrange(8)}
        elif op == "single":
            # reduce the model to one term over one variable (so that a following product can make it drop out)
            mut = {"op": "single", "i": rng.randrange(nxt), "v": gen_coef(rng, False)}
        else:
            mut = {"op": "refresh"}
        if kind == "PCSO":
            fix = lambda v: v if dyadic(v) else "1"
            if mut.get("v"):
                mut["v"] = fix(mut["v"])
            for fld in ("terms", "q"):
                if mut.get(fld):
                    mut[fld] = [[k, fix(v)] for k, v in mut[fld]]
        return mut
    for k in range(rng.randint(2, 4)):
        mut = None
        if k > 0:
            r = rng.random()
            if r < 0.1:
                ops = ["cancel", "refresh"]          # the variable list shrinks and is renumbered
            elif r < 0.2:
                ops = ["cancel", "refresh", "newvar"]  # same count, different variables
            elif r < 0.3:
                ops = ["clear", "fill"]              # rebuilt in place with another label set
            elif r < 0.4:
                ops = ["single", "imuld", "newvar"]  # a label drops out of an in-place product, then a new variable
            elif r < 0.45:
                ops = ["single", "ipow", "newvar"]
            elif r < 0.5:
                ops = [rng.choice(["selfsub", "imulc", "selfmul", "imuld"]), rng.choice(["newvar", "fill"])]
            else:
                ops = [rng.choice(MUT_OPS) for _ in range(rng.choice([1, 1, 2, 3]))]
            mut = [one_edit(op) for op in ops]
        via = "method" if kind != "dict" and rng.random() < 0.5 else "free"
        fn = FN_OF_KIND[kind] if via == "method" else rng.choice(fns)
        if via == "method" and fn not in fns:
            via, fn = "free", rng.choice(fns)
        steps.append({"mut": mut, "via": via, "fn": fn, "all": rng.random() < 0.5,
                      "valid": {"t": "always"} if via == "method" else gen_pred(rng, nxt, fn in SPIN_FN)})
    c["steps"] = steps
    return c

def apply_mut(obj, mut, L, style):
    """one edit; returns the object the name is bound to afterwards (`copy`, `round` and a non in-place fallback
    of an augmented assignment give a new one)"""
    import operator
    plain = type(obj) is dict
    op = mut["op"]
    key_of = lambda ids: tuple(lab_of(L, i) for i in ids)
    as_dict = lambda terms: {key_of(k): num_of(v, style) for k, v in terms}
    if op in ("set", "add"):
        key, v = key_of(mut["key"]), num_of(mut["v"], style)
        if op == "set":
            obj[key] = v
        elif plain:
            obj[key] = obj.get(key, 0) + v
        else:
            obj[key] += v
    elif op == "cancel":
        if plain:
            for k in [k for k in list(obj) if lab_of(L, mut["var"]) in k]:
                del obj[k]
        else:
            apply_hist(obj, [{"op": mut["how"], "var": mut["var"]}], L)
    elif op == "offset":
        v = num_of(mut["v"], style)
        if plain:
            obj[()] = obj.get((), 0) + v
        else:
            obj += v
    elif op == "popoffset":
        obj.pop((), None)
    elif op == "refresh":
        if not plain:
            obj.refresh()
    elif op == "cons":
        con = mut["con"]
        p = {tuple(lab_of(L, i) for i in key): num_of(v, "int") for key, v in con["p"]}
        getattr(obj, "add_constraint_%s_zero" % con["rel"])(p)
    elif op == "clear":
        obj.clear()
    elif op == "fill":
        for k, v in mut["terms"]:
            obj[key_of(k)] = num_of(v, style)
    elif op == "update":
        obj.update(as_dict(mut["terms"]))
    elif op == "single":
        obj.clear()
        obj[(lab_of(L, mut["i"]),)] = num_of(mut["v"], style)
    elif op == "del":
        ks = list(obj)
        if ks:
            del obj[ks[mut["k"] % len(ks)]]
    elif op == "copy":
        obj = obj.copy()
    elif plain:
        pass                                   # the remaining edits are arithmetic of the model classes
    elif op == "imuld":
        obj = operator.imul(obj, as_dict(mut["q"]))
    elif op == "imulc":
        obj = operator.imul(obj, num_of(mut["v"], style))
    elif op == "idiv":
        obj = operator.itruediv(obj, Fraction(mut["v"]))     # a Fraction divisor keeps int / Fraction values exact
    elif op == "ipow":
        obj = operator.ipow(obj, 2)
    elif op == "round":
        obj = round(obj)
    elif op == "selfsub":
        obj = operator.isub(obj, obj)
    elif op == "selfadd":
        obj = operator.iadd(obj, obj)
    elif op == "selfmul":
        obj = operator.imul(obj, obj)
    elif op == "selfupd":
        obj.update(obj)
    return obj

def run_multi(ctx, c):
    """build the object once, then: call, edit in place, call again, ... — every call is prepared from the state
    the object is in at that moment and checked like a single call (correspondence + oracle)"""
    L = Labels(c["labels"])
    obj, tag = build(c)
    out = []
    if tag is None:
        return out
    for k, st in enumerate(c["steps"]):
        if st["mut"]:
            try:
                for mut in st["mut"]:
                    obj = apply_mut(obj, mut, L, c["num"])
                    ctx.count("multi:edit:" + mut["op"])
            except Exception as e:
                ctx.count("multi:edit-raises:" + exc_name(e))
                break
        fn = st["fn"]
        if st["via"] == "free" and fn in ("qubo", "quso") and any(len(set(key)) > 2 for key in obj):
            fn = "pubo" if fn == "qubo" else "puso"      # a product raised the degree: only the general solver applies
        cs = {k2: v for k2, v in c.items() if k2 != "steps"}
        cs.update(fn=fn, via=st["via"], all=st["all"], valid=st["valid"], step=k, seed=c["seed"] + k, multi=c,
                  terms=[[[L.ident(l) for l in key], fs(v)] for key, v in obj.items()])
        e = prepare(ctx, cs, L, obj, state_tag(obj), eager=True)
        if e is not None:
            out.append(e)
            ctx.count("multi:call-%d" % k)
    return out

# ------------------------------------------------------------------ driver of the check

def nontrivial(case, obj, n_valid):
    return len(key_labels(obj)) >= 2 and len(obj) >= 2 and n_valid > 0

def prepare(ctx, c, L, obj, tag, eager=False):
    """everything that must be read off the object *before* the call: the model's variables, the completed
    predicate, the driver line, a plain copy of the terms.  With eager=True the real call is made right away (the
    object is about to be edited again)."""
    V = model_vars(obj)
    if len(V) > 9:
        ctx.count("skipped:too-many-variables")
        return None
    pred = fill_pred(c, obj, L)
    if pred is None:
        absent_variable(ctx, c, obj)
        return None
    line = model_line(c, obj, pred, L)
    d0 = copy.deepcopy(dict(obj))          # plain copy of the terms for the oracle
    done = run_impl(c, obj, pred, L) if eager else None
    return (c, L, obj, tag, pred, line, d0, V, done)

def process(ctx, cases):
    prepared = []
    for c in cases:
        if c["family"] == "problem":
            run_problem(ctx, c)
            continue
        if c["family"] == "raise":
            run_raise(ctx, c)
            continue
        if c["family"] == "multi":
            prepared += run_multi(ctx, c)
            continue
        if c["family"] == "inf":
            run_inf(ctx, c)
            continue
        L = Labels(c["labels"])
        obj, tag = build(c)
        if tag is None:
            ctx.count("skipped:unusable")
            continue
        e = prepare(ctx, c, L, obj, tag)
        if e is not None:
            prepared.append(e)
    models = common.run_driver([p[5] for p in prepared])
    deferred, DEFERRED[:] = list(DEFERRED), []
    for (line, finish), m in zip(deferred, common.run_driver([d[0] for d in deferred])):
        if "driver_error" in m:
            raise common.Infra("driver: %s on %s" % (m["driver_error"], json.dumps(line)[:300]))
        finish(m)
    for (c, L, obj, tag, pred, line, d0, V, done), m in zip(prepared, models):
        if "driver_error" in m:
            raise common.Infra("driver: %s on %s" % (m["driver_error"], json.dumps(line)[:300]))
        impl, res, log = done if done is not None else run_impl(c, obj, pred, L)
        model, argmin = canon_model(m, c)
        fam = c["family"]
        if pred["t"] != "table":
            rec = dict(c, valid=pred)
        elif pred.get("orig"):
            rec = dict(c, valid=pred["orig"])       # closure / force: the description the table was computed from
        elif pred.get("src") == "nonmin":
            rec = dict(c, valid={"t": "nonmin"})
        else:
            rec = dict(c, valid={"t": "table", "n": len(pred["xs"])})
        small = {k: v for k, v in rec.items() if k != "multi"}
        spin = c["fn"] in SPIN_FN
        ctx.traces += 1
        ctx.count("%s:%s:%s:%s" % (fam, c["kind"], c["fn"] if c["via"] == "free" else "method", "all" if c["all"] else "one"))
        ctx.count("pred:" + (pred.get("src") or pred["t"]))
        ctx.count("state:" + tag)
        ctx.count("nvars:%d" % len(V))
        if c.get("labels") == "mixed":
            ctx.count("labels:mixed:%d-types" % len({type(l).__name__ for l in V}))
        if len(V) > len(key_labels(d0)):
            ctx.count("labelled:cached-variable-without-term")
        if "err" in impl:
            ctx.count("result:err:" + impl["err"])
        elif "bad" not in impl:
            if c["via"] == "free":
                ctx.count("result:" + ("None" if impl["obj"] is None else "value"))
                if not key_labels(d0) and V == [] and not make_valid(pred, L)({}):
                    # the corner where the property's clauses 3 and 4 overlap: constant model, valid({}) is False
                    ctx.count("corner:constant-model+valid-rejects-{}:objective=%s"
                              % ("None(clause 3)" if impl["obj"] is None else "the constant(clause 4)"))
            if c["all"] and "sol" in impl:
                ctx.count("ties:%s" % min(len(impl["sol"]["many"]), 5))
            if model is not None and "err" not in model:
                ctx.count("after-order:" + ("same" if canon_terms_ordered(obj, L) == m["res"]["after_order"] else "differs"))
        diff = compare(c, impl, model, argmin)
        n_valid = len(argmin) if argmin is not None and impl.get("obj", 1) is not None else 0
        ctx.case(small, nontrivial(c, d0, n_valid))
        if diff:
            ctx.diff(fam, rec, impl, dict(model or {}, why=diff))
        if fam == "malformed":
            continue
        bad = oracle(c, d0, pred, L, res, log, V)
        if bad:
            if pred.get("clo"):
                bad += " [valid = %s %s %s, reading the argument model itself]" % (
                    {"fn": "solve's own value function(x, D)", "method": "D.value(x)", "offset": "ones(x) + D.get((), 0)"}[pred["clo"]["how"]],
                    pred["clo"]["cmp"], pred["clo"]["k"])
            ctx.violation("C09:multi" if fam == "multi" else "C09:" + fam if fam in ("closure", "zerolab") else
                          D1_SIG if d1_input(c, tag) else "C09:" + fam, rec, bad)

def absent_variable(ctx, c, obj):
    """a recorded constraint mentions a label that is not a variable of the model (see ABSENT_AS_FINDING)"""
    try:
        obj.solve_bruteforce(c["all"])
        ctx.count("pc-absent-variable:returns")
    except Exception as e:
        ctx.count("pc-absent-variable:raises:" + exc_name(e))
        why = ("%s with terms %s and constraints %s: a recorded constraint mentions a label that is not a variable of "
               "the model; solve_bruteforce() raises %s" % (c["kind"], c["terms"], c.get("cons"), exc_name(e)))
        if not any(n.startswith("absent-variable") for n in ctx.notes):
            ctx.notes.append("absent-variable: " + why)
        if ABSENT_AS_FINDING:
            ctx.violation("C09:constraint-on-absent-variable", c, why)

def canon_terms_ordered(d, L):
    return [[[L.ident(l) for l in k], fs(v)] for k, v in d.items()]

def gen_all(ctx):
    rng = ctx.rng
    cases = const_cases()
    cases += [gen_case(rng, "free") for _ in range(ctx.scale(4000, 60000))]
    cases += [gen_case(rng, "method") for _ in range(ctx.scale(1500, 20000))]
    cases += [gen_case(rng, "free", big=True) for _ in range(ctx.scale(150, 3000))]
    cases += [gen_case(rng, "method", big=True) for _ in range(ctx.scale(80, 1500))]
    cases += [gen_hist_case(rng, "free") for _ in range(ctx.scale(600, 8000))]
    cases += [gen_hist_case(rng, "method") for _ in range(ctx.scale(400, 5000))]
    cases += [malformed_case(rng) for _ in range(ctx.scale(200, 2000))]
    cases += [bhist_case(rng, "free") for _ in range(ctx.scale(500, 7000))]
    cases += [bhist_case(rng, "method") for _ in range(ctx.scale(400, 5000))]
    cases += [gen_hist_case(rng, "free", BO, "bhist") for _ in range(ctx.scale(200, 3000))]
    cases += [gen_hist_case(rng, "method", BO, "bhist") for _ in range(ctx.scale(150, 2000))]
    cases += problem_cases(rng, ctx.scale(150, 1500))
    # round 3
    cases += [mixify(gen_case(rng, rng.choice(["free", "method"])), rng) for _ in range(ctx.scale(500, 6000))]
    cases += [mixify(gen_hist_case(rng, rng.choice(["free", "method"]), BO, "bhist"), rng) for _ in range(ctx.scale(150, 2000))]
    cases += [huge_case(rng) for _ in range(ctx.scale(25, 400))]
    cases += [tie_case(rng, rng.choice(["free", "method"])) for _ in range(ctx.scale(500, 6000))]
    cases += [raise_case(rng) for _ in range(ctx.scale(500, 6000))]
    cases += [multi_case(rng) for _ in range(ctx.scale(600, 7000))]
    # round 4
    cases += [vtype_case(rng) for _ in range(ctx.scale(600, 7000))]
    # round 6
    cases += [closure_case(rng) for _ in range(ctx.scale(700, 8000))]
    cases += [zerolab_case(rng) for _ in range(ctx.scale(400, 5000))]
    cases += [inf_case(rng) for _ in range(ctx.scale(400, 5000))]
    return cases

def check(ctx):
    import warnings
    warnings.simplefilter("ignore")       # QUBOVertWarning: constraint always / never satisfied
    process(ctx, gen_all(ctx))
    if ctx.diffs and not ctx.violations:
        search(ctx)

def search(ctx):
    """failing-input search after a correspondence difference: the direct oracle on variants of the disagreeing
    cases (other mode, every menu predicate, every compatible free function / the method) and on a fresh batch"""
    extra = []
    for d in ctx.diffs[:40]:
        c = d["case"]
        if c["family"] in ("malformed", "problem"):
            continue
        if c["valid"]["t"] == "table":
            c = dict(c, valid={"t": "always"})
        for al in (False, True):
            for pred in MENU[:6] + [{"t": "excl", "x": None}]:
                extra.append(dict(c, all=al, valid=pred, via="free", family="free"))
            if c["kind"] != "dict" and FN_OF_KIND[c["kind"]] == c["fn"]:
                extra.append(dict(c, all=al, valid={"t": "always"}, via="method", family="method"))
    extra += [gen_case(ctx.rng, ctx.rng.choice(["free", "method"])) for _ in range(3000)]
    extra += [gen_hist_case(ctx.rng, ctx.rng.choice(["free", "method"])) for _ in range(1000)]
    extra += [bhist_case(ctx.rng, ctx.rng.choice(["free", "method"])) for _ in range(1000)]
    extra += [closure_case(ctx.rng) for _ in range(1000)] + [zerolab_case(ctx.rng) for _ in range(600)]
    for c in [inf_case(ctx.rng) for _ in range(600)]:
        run_inf(ctx, c)
    for c in extra:
        L = Labels(c["labels"])
        obj, tag = build(c)
        if tag is None:
            continue
        pred = fill_pred(c, obj, L)
        if pred is None:
            continue
        d0 = copy.deepcopy(dict(obj))
        V = model_vars(obj)
        impl, res, log = run_impl(c, obj, pred, L)
        bad = oracle(c, d0, pred, L, res, log, V)
        if bad:
            ctx.violation("C09:" + c["family"] if c["family"] in ("closure", "zerolab") else
                          D1_SIG if d1_input(c, tag) else "C09:" + c["family"],
                          dict(c, valid=pred.get("orig") or (pred if pred["t"] != "table" else {"t": "always"})), bad)

def replay(ctx, payload):
    c = payload.get("case") or (payload.get("first_difference") or {}).get("case")
    if not c:
        ctx.notes.append("replay file has no case; re-running the full check")
        return check(ctx)
    if c.get("multi"):
        c = c["multi"]                          # a call of a multi-call history: re-run the whole history
    if c.get("valid", {}).get("t") == "table" and "xs" not in c["valid"]:
        c = dict(c, valid={"t": "always"})      # the table is rebuilt from the object's constraints
    process(ctx, [c])
