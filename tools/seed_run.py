#!/usr/bin/env python3
"""Run a property check against a seeded change.
   usage: seed_run.py <seed-dir-name> [<check-id> ...] [--repo]   (default check id = the seed's property)
   default mode: a scratch copy of /repo/qubovert with the patch applied, passed as VERIF_REPO (does not touch /repo,
   safe while other work reads /repo).  --repo: git -C /repo apply; run; git -C /repo checkout -- . (the brief's recipe)."""
import json, os, shutil, subprocess, sys, tempfile
ROOT = os.path.dirname(os.path.dirname(os.path.abspath(__file__)))
name = sys.argv[1]
args = [a for a in sys.argv[2:] if not a.startswith("--")]
inrepo = "--repo" in sys.argv
sd = os.path.join(ROOT, "seeded", name)
meta = json.load(open(os.path.join(sd, "meta.json")))
ids = args or [meta["property"]]
patch = os.path.join(sd, "patch.diff")
env = dict(os.environ)
tmp = None
try:
    if inrepo:
        subprocess.run(["git", "-C", "/repo", "apply", patch], check=True)
    else:
        tmp = tempfile.mkdtemp(prefix="qv-seedrun.", dir="/var/tmp")
        shutil.copytree("/repo/qubovert", os.path.join(tmp, "qubovert"), ignore=shutil.ignore_patterns("__pycache__", "*.so"))
        subprocess.run(["patch", "-p1", "-s", "-d", tmp, "-i", patch], check=True)
        env["VERIF_REPO"] = tmp
        env["VERIF_EVIDENCE_DIR"] = os.path.join(tmp, "evidence")
    for cid in ids:
        r = subprocess.run([os.path.join(ROOT, "check"), cid, "quick"], cwd=ROOT, env=env, capture_output=True, text=True)
        lines = [l for l in r.stdout.splitlines() if l.startswith(("VIOLATION", "INFRA", cid))]
        print("%s vs %s: exit %d | %s" % (name, cid, r.returncode, " | ".join(l[:160] for l in lines[:3])))
finally:
    if inrepo:
        subprocess.run(["git", "-C", "/repo", "checkout", "--", "."], check=True)
    if tmp:
        shutil.rmtree(tmp, ignore_errors=True)
