#!/usr/bin/env python3
"""Run every seeded change against its own property's check (and extra checks given as NAME:ID,ID) and record the
outcome in seeded/<name>/meta.json (key "checks") and seeded/RESULTS.md.  usage: seed_matrix.py [--repo] [name ...]"""
import json, os, re, subprocess, sys
ROOT = os.path.dirname(os.path.dirname(os.path.abspath(__file__)))
names = [a for a in sys.argv[1:] if not a.startswith("--")] or sorted(os.listdir(os.path.join(ROOT, "seeded")))
names = [n for n in names if os.path.isdir(os.path.join(ROOT, "seeded", n))]
extra = {"C08-3": ["C19"], "C08-4": ["C01"], "C03-3": ["C14"], "C03-4": ["C19"], "C19-3": ["C16"], "C07-3": ["C19", "C14"], "C06-3": ["C19", "C07"], "C06-4": ["C02"], "C19-4": ["C09"], "C09-4": ["C19"], "C17-4": ["C11", "C14"], "C11-3": ["C04"], "C11-4": ["C12"], "C12-4": ["C11"], "C04-4": ["C14"], "C04-3": ["C01"], "C01-4": ["C04"], "C14-4": ["C19"], "C16-3": ["C18"], "C05-4": ["C07"], "C07-4": ["C05"], "C13-3": ["C11"], "C03-1": ["C19"], "C19-2": ["C09"], "C09-2": ["C19"], "C08-1": ["C02", "C03"], "C08-2": ["C01"], "C16-1": ["C19"], "C12-2": ["C11"], "C11-2": ["C12"], "C14-1": ["C19"], "C02-1": ["C14"]}
manifest = {c["property_id"] for c in json.load(open(os.path.join(ROOT, "MANIFEST.json")))["checks"]}
rows = []
for n in names:
    mp = os.path.join(ROOT, "seeded", n, "meta.json")
    meta = json.load(open(mp))
    ids = [meta["property"]] + extra.get(n, [])
    res = meta.get("checks", {})
    for cid in ids:
        if cid not in manifest:
            res[cid] = {"exit": None, "line": "check not registered"}; continue
        r = subprocess.run([sys.executable, os.path.join(ROOT, "tools", "seed_run.py"), n, cid] + (["--repo"] if "--repo" in sys.argv else []),
                           capture_output=True, text=True)
        line = (r.stdout.strip().splitlines() or [r.stderr.strip()[-200:]])[-1]
        m = re.search(r"exit (\d+) \| (.*)", line)
        res[cid] = {"exit": int(m.group(1)) if m else None, "line": (m.group(2) if m else line)[:300]}
        print(n, cid, res[cid]["exit"], res[cid]["line"][:120], flush=True)
    meta["checks"] = res
    meta["what_i_ran"] = ("tools/seed_confirm.py (patch applies; demo exits 1 with it and 0 without; full test suite at baseline 398 passed with it) and "
                          "tools/seed_run.py <seed> <check>: ./check <id> quick against a scratch copy of /repo/qubovert with the patch applied (VERIF_REPO), "
                          "equivalent to git -C /repo apply; ./check; git -C /repo checkout -- .")
    json.dump(meta, open(mp, "w"), indent=1)
allnames = sorted(n for n in os.listdir(os.path.join(ROOT, "seeded")) if os.path.isdir(os.path.join(ROOT, "seeded", n)))
for n in allnames:
    meta = json.load(open(os.path.join(ROOT, "seeded", n, "meta.json")))
    rows.append((n, meta, meta.get("checks", {})))
with open(os.path.join(ROOT, "seeded", "RESULTS.md"), "w") as f:
    f.write("# Seeded changes and which checks catch them\n\n| seed | property | summary | needs | result |\n|---|---|---|---|---|\n")
    for n, meta, res in rows:
        out = "; ".join("%s: %s" % (c, "CAUGHT (concrete input)" if v["exit"] == 1 and "no-failing-input-found" not in v["line"]
                                     else "caught, no failing input found" if v["exit"] == 1 else ("exit 0 (neutralised by upstream fix)" if meta.get("neutralised") and c == meta["property"] else "missed") if v["exit"] == 0 else str(v["line"])[:40])
                        for c, v in res.items())
        f.write("| %s | %s | %s | %s | %s |\n" % (n, meta["property"], str(meta.get("summary", ""))[:160].replace("|", "/").replace("\n", " "),
                                                 str(meta.get("needs", ""))[:160].replace("|", "/").replace("\n", " "), out))
