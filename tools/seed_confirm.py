#!/usr/bin/env python3
"""Collect a seeded change from a scratch worktree and confirm it independently:
   patch applies; with it the repo's test suite is at baseline (398 passed) and demo.py exits 1;
   without it demo.py exits 0.   usage: seed_confirm.py <ID> <i> [--skip-tests]"""
import json, os, re, shutil, subprocess, sys
ID, i = sys.argv[1], sys.argv[2]
skip = "--skip-tests" in sys.argv
extra = [a for a in sys.argv[3:] if not a.startswith("--")]
dest_i = extra[0] if extra else i
wt = os.environ.get("SEED_WT", "/tmp/seedD-%s") % ID
src = os.path.join(wt, "seed_out", i)
dst = os.path.join(os.path.dirname(os.path.dirname(os.path.abspath(__file__))), "seeded", "%s-%s" % (ID, dest_i))
os.makedirs(dst, exist_ok=True)
for f in ("patch.diff", "demo.py", "meta.json"):
    shutil.copy(os.path.join(src, f), os.path.join(dst, f))
def sh(cmd, **kw):
    return subprocess.run(cmd, shell=True, cwd=wt, capture_output=True, text=True, **kw)
def rebuild():
    if re.search(r"\.(c|h)\b", open(os.path.join(dst, "patch.diff")).read()):
        sh("/venv/bin/python setup.py -q build_ext --inplace")
sh("git checkout -- .")
rebuild()
r0 = sh("/venv/bin/python seed_out/%s/demo.py" % i)
a = sh("git apply seed_out/%s/patch.diff" % i)
res = {"applies": a.returncode == 0, "demo_exit_unpatched": r0.returncode}
if a.returncode == 0:
    rebuild()
    r1 = sh("/venv/bin/python seed_out/%s/demo.py" % i)
    res["demo_exit_patched"] = r1.returncode
    res["demo_output_patched"] = (r1.stdout + r1.stderr)[-600:]
    if not skip:
        t = sh("/venv/bin/python -m pytest -q -p no:cacheprovider --timeout=900 -x --deselect tests/utils/test_subgraph.py 2>&1 | tail -3")
        m = re.search(r"(\d+) passed", t.stdout)
        res["tests_passed"] = int(m.group(1)) if m else None
        res["tests_tail"] = t.stdout[-300:]
    sh("git checkout -- .")
    rebuild()
res["confirmed"] = bool(res.get("applies") and res["demo_exit_unpatched"] == 0 and res.get("demo_exit_patched") == 1
                        and (skip or res.get("tests_passed") == 398))
meta = json.load(open(os.path.join(dst, "meta.json")))
meta["confirmation"] = res
meta["confirmed_with"] = ("in scratch worktree %s: git apply patch.diff; demo.py (exit 1 expected); full pytest suite (398 passed expected, "
                          "tests/utils/test_subgraph.py deselected: fails at baseline); git checkout; demo.py (exit 0 expected)" % wt)
json.dump(meta, open(os.path.join(dst, "meta.json"), "w"), indent=1)
print(ID, i, "CONFIRMED" if res["confirmed"] else "NOT CONFIRMED", {k: v for k, v in res.items() if k not in ("demo_output_patched", "tests_tail")})
