#!/usr/bin/env python3
"""merge a tie builder's private copy: files that exist only in the copy (harness/tie_ext, lean/Qv, corpus) are copied;
import lines the copy added to the aggregator files (GenEq.lean, Gen/Search.lean, Qv.lean) are appended.  Nothing else."""
import os, shutil, sys
ID = sys.argv[1]
W, V = "/var/tmp/w-%s/verif" % ID, "/verif"
new = []
for top in ("harness/tie_ext", "lean/Qv", "corpus"):
    for d, dirs, files in os.walk(os.path.join(W, top)):
        dirs[:] = [x for x in dirs if x not in ("__pycache__", ".lake")]
        for f in files:
            if f.endswith(".pyc"):
                continue
            rel = os.path.relpath(os.path.join(d, f), W)
            if not os.path.exists(os.path.join(V, rel)):
                os.makedirs(os.path.dirname(os.path.join(V, rel)), exist_ok=True)
                shutil.copy(os.path.join(d, f), os.path.join(V, rel)); new.append(rel)
print("new:", *new, sep="\n  ")
for agg in ("lean/Qv/Proofs/GenEq.lean", "lean/Qv/Gen/Search.lean", "lean/Qv.lean"):
    a = open(os.path.join(V, agg)).read().splitlines()
    b = open(os.path.join(W, agg)).read().splitlines()
    add = [l for l in b if l.startswith("import ") and l not in a]
    if add:
        last = max(i for i, l in enumerate(a) if l.startswith("import "))
        a[last + 1:last + 1] = add
        open(os.path.join(V, agg), "w").write("\n".join(a) + "\n")
        print(agg, "+", add)
