#!/bin/bash
# usage: tools/mkcopy.sh <ID>  — (re)create the private builder copy /var/tmp/w-<ID>/verif from the current /verif (with build cache)
ID=$1; W=/var/tmp/w-$ID
mkdir -p $W
rsync -a --delete --exclude .git --exclude replays --exclude '__pycache__' --exclude '.lake.lock.verif' /verif/ $W/verif/
echo "$W/verif ready"
