#!/usr/bin/env python3
"""merge a sub-builder's private copy into /verif: new files, driver registration, claim JSON, Qv.lean imports"""
import json, os, re, shutil, subprocess, sys
ID = sys.argv[1]
W = "/var/tmp/w-%s/verif" % ID
V = "/verif"
skip_dirs = {".lake", ".git", "evidence", "replays", "__pycache__", "seeded", "tools", "corpus"}
new = []
for d, dirs, files in os.walk(W):
    dirs[:] = [x for x in dirs if x not in skip_dirs]
    for f in files:
        if f.endswith(".pyc") or f == ".lake.lock.verif": continue
        rel = os.path.relpath(os.path.join(d, f), W)
        if not os.path.exists(os.path.join(V, rel)):
            os.makedirs(os.path.dirname(os.path.join(V, rel)) or V, exist_ok=True)
            shutil.copy(os.path.join(d, f), os.path.join(V, rel)); new.append(rel)
print("new files:", new)
# corpus entries
cw = os.path.join(W, "corpus")
if os.path.isdir(cw):
    for d, _, files in os.walk(cw):
        for f in files:
            rel = os.path.relpath(os.path.join(d, f), W)
            os.makedirs(os.path.dirname(os.path.join(V, rel)), exist_ok=True)
            shutil.copy(os.path.join(d, f), os.path.join(V, rel)); print("corpus:", rel)
# claim
src = open(os.path.join(W, "harness", "manifest_gen.py")).read()
m = re.search(r"CHECKS\s*=\s*\{", src)
claim = None
if m:
    ns = {}
    try:
        ns["__file__"] = os.path.join(W, "harness", "manifest_gen.py"); exec(src.split("def main")[0].replace("def load_claims", "def _lc"), ns)
        claim = ns.get("CHECKS", {}).get(ID)
    except Exception as e:
        print("could not exec builder's manifest_gen:", e)
cj = os.path.join(W, "harness", "claims", ID + ".json")
if os.path.exists(cj):
    claim = json.load(open(cj))
if claim:
    json.dump(claim, open(os.path.join(V, "harness", "claims", ID + ".json"), "w"), indent=1); print("claim written")
else:
    print("NO CLAIM FOUND")
# driver registration: every Driver/Cxx.lean gets its own namespace Qv.Drv.Cxx (name clashes between builders)
dfile = os.path.join(V, "lean", "Qv", "Driver", ID + ".lean")
if os.path.exists(dfile) and ID not in ("C02", "C05"):
    ds = open(dfile).read()
    ds = re.sub(r"^namespace Qv\.Drv$", "namespace Qv.Drv." + ID, ds, flags=re.M)
    ds = re.sub(r"^end Qv\.Drv$", "end Qv.Drv." + ID, ds, flags=re.M)
    open(dfile, "w").write(ds)
drv = open(os.path.join(V, "lean", "Driver.lean")).read()
if os.path.exists(os.path.join(V, "lean", "Qv", "Driver", ID + ".lean")) and ("Qv.Driver." + ID) not in drv:
    drv = drv.replace("/-! Line-protocol", "import Qv.Driver.%s\n/-! Line-protocol" % ID, 1)
    drv = re.sub(r"(def allHandlers[^\n]*\n\s+[^\n]*)", lambda mm: mm.group(1) + " ++ handlers" + ID, drv, 1)
    drv = re.sub(r"(open Lean Qv Qv\.Drv[^\n]*)", lambda mm: mm.group(1) + " Qv.Drv." + ID, drv, 1)
    open(os.path.join(V, "lean", "Driver.lean"), "w").write(drv); print("driver registered")
# Qv.lean imports for new model files
q = open(os.path.join(V, "lean", "Qv.lean")).read()
for rel in new:
    if rel.startswith("lean/Qv/Model/") and rel.endswith(".lean"):
        mod = "Qv.Model." + os.path.basename(rel)[:-5]
        if mod not in q:
            q += "import %s\n" % mod
open(os.path.join(V, "lean", "Qv.lean"), "w").write(q)
# known findings proposed by the builder
kw = json.load(open(os.path.join(W, "known_findings.json"))).get("findings", [])
if kw:
    print("BUILDER PROPOSES known findings:", json.dumps(kw, indent=1))
