#!/usr/bin/env python3
"""Behaviour-preserving refactorings (false-alarm test).  usage: neutral_run.py collect <ID> | run <name> ...
collect: copy /tmp/seedC-<ID>/neutral_out/<i>/{patch.diff,meta.json} to neutral/<ID>-<i>/ and confirm the test suite is at
baseline with the patch.  run: for each named neutral patch run the quick check of every property whose anchored files the
patch touches (and its own property) against a scratch copy of /repo/qubovert with the patch applied; record the outcome in
neutral/<name>/meta.json.  Expected: exit 0, or exit 1 with `no-failing-input-found` (correspondence/proof obligation broken by
a harmless rewrite); a VIOLATION with a concrete failing input would be a FALSE ALARM of the check."""
import json, os, re, shutil, subprocess, sys, tempfile
ROOT = os.path.dirname(os.path.dirname(os.path.abspath(__file__)))
props = [json.loads(l) for l in open(os.path.join(ROOT, "properties.jsonl"))]
def touched(patch):
    return sorted(set(re.findall(r"^\+\+\+ b/(\S+)", open(patch).read(), re.M)))
def related(files, own):
    ids = {own}
    for p in props:
        if set(p["anchors"]["files"]) & set(files):
            ids.add(p["id"])
    return sorted(ids)
if sys.argv[1] == "collect":
    ID = sys.argv[2]; wt = os.environ.get("NEUTRAL_WT", "/tmp/seedC-%s") % ID
    for i in sorted(os.listdir(os.path.join(wt, "neutral_out"))):
        src = os.path.join(wt, "neutral_out", i)
        if not os.path.isfile(os.path.join(src, "patch.diff")): continue
        dst = os.path.join(ROOT, "neutral", "%s-%s" % (ID, os.environ.get("NEUTRAL_DEST", i))); os.makedirs(dst, exist_ok=True)
        for f in ("patch.diff", "meta.json"): shutil.copy(os.path.join(src, f), dst)
        sh = lambda c: subprocess.run(c, shell=True, cwd=wt, capture_output=True, text=True)
        sh("git checkout -- ."); a = sh("git apply neutral_out/%s/patch.diff" % i)
        isc = bool(re.search(r"\.(c|h)\b", open(os.path.join(dst, "patch.diff")).read()))
        if isc: sh("/venv/bin/python setup.py -q build_ext --inplace")
        t = sh("/venv/bin/python -m pytest -q -p no:cacheprovider --timeout=900 --deselect tests/utils/test_subgraph.py 2>&1 | tail -3")
        m = re.search(r"(\d+) passed", t.stdout)
        sh("git checkout -- .")
        if isc: sh("/venv/bin/python setup.py -q build_ext --inplace")
        meta = json.load(open(os.path.join(dst, "meta.json")))
        meta["confirmation"] = {"applies": a.returncode == 0, "tests_passed": int(m.group(1)) if m else None}
        json.dump(meta, open(os.path.join(dst, "meta.json"), "w"), indent=1)
        print(ID, i, meta["confirmation"], flush=True)
else:
    for name in sys.argv[2:]:
        d = os.path.join(ROOT, "neutral", name); patch = os.path.join(d, "patch.diff")
        meta = json.load(open(os.path.join(d, "meta.json")))
        ids = related(touched(patch), name.split("-")[0])
        tmp = tempfile.mkdtemp(prefix="qv-neutral.", dir="/var/tmp")
        try:
            shutil.copytree("/repo/qubovert", os.path.join(tmp, "qubovert"), ignore=shutil.ignore_patterns("__pycache__", "*.so"))
            r = subprocess.run(["patch", "-p1", "-s", "-d", tmp, "-i", patch], capture_output=True, text=True)
            res = meta.get("checks", {})
            if r.returncode:
                res = {"_apply": {"exit": None, "line": "patch does not apply to current /repo: " + (r.stdout + r.stderr)[-200:]}}
            else:
                env = dict(os.environ, VERIF_REPO=tmp, VERIF_EVIDENCE_DIR=os.path.join(tmp, "evidence"))
                for cid in ids:
                    c = subprocess.run([os.path.join(ROOT, "check"), cid, "quick"], cwd=ROOT, env=env, capture_output=True, text=True)
                    lines = [l for l in c.stdout.splitlines() if l.startswith(("VIOLATION", "INFRA", cid))]
                    v = [l for l in lines if l.startswith("VIOLATION")]
                    res[cid] = {"exit": c.returncode, "line": (v[0] if v else (lines[-1] if lines else c.stderr[-200:]))[:300]}
                    print(name, cid, c.returncode, res[cid]["line"][:150], flush=True)
            meta["checks"] = res
            json.dump(meta, open(os.path.join(d, "meta.json"), "w"), indent=1)
        finally:
            shutil.rmtree(tmp, ignore_errors=True)
