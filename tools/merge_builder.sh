#!/bin/bash
# usage: tools/merge_builder.sh <ID>   — show what a sub-builder's private copy changed relative to /verif
ID=$1; W=/var/tmp/w-$ID/verif
diff -rq /verif $W -x .lake -x .git -x evidence -x replays -x __pycache__ -x '*.pyc' -x MANIFEST.json -x seeded -x tools -x .lake.lock.verif 2>/dev/null | sed "s#$W#W#g; s#/verif#V#g"
